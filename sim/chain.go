package sim

import (
	"context"
	"crypto/sha256"
	"encoding/binary"
	"errors"
	"fmt"
	"math/rand/v2"
	"sort"
	"sync"

	kbls "github.com/kilic/bls12-381"
	blsu "github.com/protolambda/bls12-381-util"
	"github.com/protolambda/zrnt/eth2/beacon"
	"github.com/protolambda/zrnt/eth2/beacon/bellatrix"
	"github.com/protolambda/zrnt/eth2/beacon/capella"
	"github.com/protolambda/zrnt/eth2/beacon/common"
	"github.com/protolambda/zrnt/eth2/beacon/deneb"
	"github.com/protolambda/ztyp/tree"

	"verif/refspec"
	"verif/refssz"
)

// ---------------------------------------------------------------------------------------
// keys

type Keys struct {
	SK  []*blsu.SecretKey
	PK  [][48]byte
	WSK []*blsu.SecretKey // withdrawal keys
	WPK [][48]byte
}

var keysOnce sync.Once
var allKeys Keys

const MaxKeys = 600

func GetKeys() *Keys {
	keysOnce.Do(func() {
		mk := func(tag byte, i int) (*blsu.SecretKey, [48]byte) {
			var b [32]byte
			b[31], b[30], b[29], b[28] = byte(i+1), byte((i+1)>>8), tag, 0x5a
			sk := new(blsu.SecretKey)
			if err := sk.Deserialize(&b); err != nil {
				panic(err)
			}
			pk, err := blsu.SkToPk(sk)
			if err != nil {
				panic(err)
			}
			return sk, pk.Serialize()
		}
		for i := 0; i < MaxKeys; i++ {
			sk, pk := mk(1, i)
			allKeys.SK = append(allKeys.SK, sk)
			allKeys.PK = append(allKeys.PK, pk)
			wsk, wpk := mk(2, i)
			allKeys.WSK = append(allKeys.WSK, wsk)
			allKeys.WPK = append(allKeys.WPK, wpk)
		}
	})
	return &allKeys
}

func Sign(sk *blsu.SecretKey, msg refspec.Root) [96]byte {
	return blsu.Sign(sk, msg[:]).Serialize()
}

// AggSign signs msg with the sum of the given secret keys (= the aggregate of the individual signatures).
func AggSign(sks []*blsu.SecretKey, msg refspec.Root) [96]byte {
	if len(sks) == 0 {
		// G2 point at infinity
		var s [96]byte
		s[0] = 0xc0
		return s
	}
	sum := new(kbls.Fr)
	sum.Set((*kbls.Fr)(sks[0]))
	for _, sk := range sks[1:] {
		sum.Add(sum, (*kbls.Fr)(sk))
	}
	if sum.IsZero() {
		panic("aggregate secret key is zero")
	}
	return blsu.Sign((*blsu.SecretKey)(sum), msg[:]).Serialize()
}

// ---------------------------------------------------------------------------------------
// deposit contract

type DepositContract struct {
	Leaves []refspec.DepositData
	sp     *refspec.Spec
	roots  []refspec.Root
}

var zeroHashes = func() []refspec.Root {
	z := make([]refspec.Root, 34)
	for i := 1; i < len(z); i++ {
		z[i] = sha256.Sum256(append(append([]byte{}, z[i-1][:]...), z[i-1][:]...))
	}
	return z
}()

func (dc *DepositContract) Add(d refspec.DepositData) {
	dc.Leaves = append(dc.Leaves, d)
	dc.roots = append(dc.roots, refssz.RootOf(dc.sp.S.DepositData, d))
}

// node returns the root of the subtree at (level, index) over the first count leaves.
func (dc *DepositContract) node(level uint, index uint64, count uint64) refspec.Root {
	if index<<level >= count {
		return zeroHashes[level]
	}
	if level == 0 {
		return dc.roots[index]
	}
	l := dc.node(level-1, index*2, count)
	r := dc.node(level-1, index*2+1, count)
	return sha256.Sum256(append(append([]byte{}, l[:]...), r[:]...))
}

// Root is hash_tree_root(List[DepositData, 2**32]) of the first count deposits.
func (dc *DepositContract) Root(count uint64) refspec.Root {
	r := dc.node(32, 0, count)
	var l refspec.Root
	binary.LittleEndian.PutUint64(l[:8], count)
	return sha256.Sum256(append(append([]byte{}, r[:]...), l[:]...))
}

// Proof of deposit i in the tree of the first count deposits (depth 32 + length mix-in).
func (dc *DepositContract) Proof(i uint64, count uint64) (out [33]refspec.Root) {
	for level := uint(0); level < 32; level++ {
		out[level] = dc.node(level, (i>>level)^1, count)
	}
	binary.LittleEndian.PutUint64(out[32][:8], count)
	return
}

// ---------------------------------------------------------------------------------------
// engine shown to both implementations

type EngineCall struct {
	Fork             int
	Site             string // for zrnt: the interface method; for the reference: "verify_and_notify_new_payload"
	PayloadRoot      refspec.Root
	VersionedHashes  []refspec.Root
	ParentBeaconRoot refspec.Root
}

// ScriptedEngine implements the reference Engine and the three zrnt engine interfaces.
// Answer decides per call site: 0 valid, 1 invalid, 2 error.
type ScriptedEngine struct {
	Spec   *common.Spec
	Answer func(site string, n int) int
	Calls  []EngineCall
	n      int
}

var ErrEngine = errors.New("scripted engine failure")

func (e *ScriptedEngine) answer(site string) (bool, error) {
	e.n++
	if e.Answer == nil {
		return true, nil
	}
	switch e.Answer(site, e.n) {
	case 1:
		return false, nil
	case 2:
		return false, ErrEngine
	case 3: // the engine's own request timed out: its error wraps a context error although the caller's context is alive
		return false, fmt.Errorf("engine request: %w", context.DeadlineExceeded)
	case 4:
		return false, fmt.Errorf("engine request aborted: %w", context.Canceled)
	case 5: // an error next to a verdict flag that was left at true (e.g. `return status != INVALID, err` after a failed request)
		return true, ErrEngine
	}
	return true, nil
}

func (e *ScriptedEngine) VerifyAndNotifyNewPayload(fork int, payload *refspec.ExecutionPayload, hashes []refspec.Root, parentBeaconBlockRoot refspec.Root) (bool, error) {
	e.Calls = append(e.Calls, EngineCall{Fork: fork, Site: "verify_and_notify_new_payload", VersionedHashes: hashes, ParentBeaconRoot: parentBeaconBlockRoot})
	return e.answer("ref")
}

func (e *ScriptedEngine) rec(fork int, site string, root common.Root, hashes []common.Hash32, parent common.Root) (bool, error) {
	c := EngineCall{Fork: fork, Site: site, PayloadRoot: root, ParentBeaconRoot: parent}
	if hashes != nil {
		c.VersionedHashes = []refspec.Root{}
		for _, h := range hashes {
			c.VersionedHashes = append(c.VersionedHashes, refspec.Root(h))
		}
	}
	e.Calls = append(e.Calls, c)
	return e.answer(site)
}

func (e *ScriptedEngine) BellatrixNotifyNewPayload(ctx context.Context, p *bellatrix.ExecutionPayload) (bool, error) {
	return e.rec(refspec.Bellatrix, "BellatrixNotifyNewPayload", p.HashTreeRoot(e.Spec, hfn()), nil, common.Root{})
}
func (e *ScriptedEngine) BellatrixIsValidBlockHash(ctx context.Context, p *bellatrix.ExecutionPayload) (bool, error) {
	return e.rec(refspec.Bellatrix, "BellatrixIsValidBlockHash", p.HashTreeRoot(e.Spec, hfn()), nil, common.Root{})
}
func (e *ScriptedEngine) CapellaNotifyNewPayload(ctx context.Context, p *capella.ExecutionPayload) (bool, error) {
	return e.rec(refspec.Capella, "CapellaNotifyNewPayload", p.HashTreeRoot(e.Spec, hfn()), nil, common.Root{})
}
func (e *ScriptedEngine) CapellaIsValidBlockHash(ctx context.Context, p *capella.ExecutionPayload) (bool, error) {
	return e.rec(refspec.Capella, "CapellaIsValidBlockHash", p.HashTreeRoot(e.Spec, hfn()), nil, common.Root{})
}
func (e *ScriptedEngine) DenebNotifyNewPayload(ctx context.Context, p *deneb.ExecutionPayload, parent common.Root) (bool, error) {
	return e.rec(refspec.Deneb, "DenebNotifyNewPayload", p.HashTreeRoot(e.Spec, hfn()), nil, parent)
}
func (e *ScriptedEngine) DenebIsValidVersionedHashes(ctx context.Context, p *deneb.ExecutionPayload, hashes []common.Hash32) (bool, error) {
	if hashes == nil {
		hashes = []common.Hash32{}
	}
	return e.rec(refspec.Deneb, "DenebIsValidVersionedHashes", p.HashTreeRoot(e.Spec, hfn()), hashes, common.Root{})
}
func (e *ScriptedEngine) DenebIsValidBlockHash(ctx context.Context, p *deneb.ExecutionPayload, parent common.Root) (bool, error) {
	return e.rec(refspec.Deneb, "DenebIsValidBlockHash", p.HashTreeRoot(e.Spec, hfn()), nil, parent)
}

// ---------------------------------------------------------------------------------------
// chain

type Chain struct {
	ZSpec *common.Spec
	Sp    *refspec.Spec
	Keys  *Keys
	Rng   *rand.Rand
	Ref   *refspec.State
	Z     *beacon.StandardUpgradeableBeaconState
	Epc   *common.EpochsContext
	DC    *DepositContract
	Eng   *ScriptedEngine
	// validator index -> key index (deposit order may differ from key order)
	KeyOf map[[48]byte]int
	// bookkeeping for scenario builders
	NextKey     int
	BlockNumber uint64
	voteEth1    *refspec.Eth1Data
	votePeriod  uint64
	includedAtt map[[2]uint64]bool // (slot, committee index) already included
	seenAttData []refspec.Attestation
	// MergeAtSlot: bellatrix blocks before this slot carry the default payload (the merge transition has not happened yet)
	MergeAtSlot uint64
}

type GenesisOpts struct {
	Validators  int
	Eth1Creds   func(i int) bool // validators starting with 0x01 credentials
	Balance     func(i int) uint64
	GenesisTime uint64
}

// NewChain builds a genesis on the reference spec (through real, signed deposits), loads the same
// state bytes into zrnt with a fresh context.
func NewChain(zspec *common.Spec, rng *rand.Rand, o GenesisOpts) (*Chain, error) {
	p := refspec.FromSpec(zspec)
	sp := refspec.NewSpec(p)
	zs := *zspec // private copy: the engine is installed into it
	zspec = &zs
	c := &Chain{ZSpec: zspec, Sp: sp, Keys: GetKeys(), Rng: rng, KeyOf: map[[48]byte]int{}, includedAtt: map[[2]uint64]bool{}}
	c.DC = &DepositContract{sp: sp}
	c.Eng = &ScriptedEngine{Spec: zspec}
	zspec.ExecutionEngine = c.Eng
	var deposits []refspec.Deposit
	for i := 0; i < o.Validators; i++ {
		bal := p.MAX_EFFECTIVE_BALANCE
		if o.Balance != nil {
			bal = o.Balance(i)
		}
		dd := c.MakeDepositData(i, bal, o.Eth1Creds != nil && o.Eth1Creds(i), true)
		c.DC.Add(dd)
	}
	c.NextKey = o.Validators
	for i := range c.DC.Leaves {
		deposits = append(deposits, refspec.Deposit{Proof: c.DC.Proof(uint64(i), uint64(i+1)), Data: c.DC.Leaves[i]})
	}
	st, err := sp.InitializeBeaconStateFromEth1(refspec.Root{0x42}, 1_600_000_000, deposits)
	if err != nil {
		return nil, fmt.Errorf("reference genesis: %w", err)
	}
	if o.GenesisTime != 0 {
		st.GenesisTime = o.GenesisTime
	}
	c.Ref = st
	if err := c.ReloadZrnt(); err != nil {
		return nil, err
	}
	return c, nil
}

// ReloadZrnt replaces the zrnt state by one decoded from the reference state's bytes, with a fresh context.
func (c *Chain) ReloadZrnt() error {
	data := c.Sp.S.StateBytes(c.Ref)
	zst, err := LoadZrntState(c.ZSpec, c.Ref.Fork, data)
	if err != nil {
		return fmt.Errorf("zrnt cannot decode the reference state: %w", err)
	}
	epc, err := common.NewEpochsContext(c.ZSpec, zst)
	if err != nil {
		return fmt.Errorf("zrnt NewEpochsContext: %w", err)
	}
	c.Z = &beacon.StandardUpgradeableBeaconState{BeaconState: zst}
	c.Epc = epc
	return nil
}

func (c *Chain) WithdrawalCreds(keyIdx int, eth1 bool) refspec.Root {
	var wc refspec.Root
	if eth1 {
		wc[0] = 0x01
		wc[12], wc[31] = 0xad, byte(keyIdx)
		return wc
	}
	h := sha256.Sum256(c.Keys.WPK[keyIdx][:])
	copy(wc[1:], h[1:])
	return wc
}

// MakeDepositData builds deposit data for key keyIdx; validSig=false yields a well-formed but wrong signature.
func (c *Chain) MakeDepositData(keyIdx int, amount uint64, eth1 bool, validSig bool) refspec.DepositData {
	sp := c.Sp
	dd := refspec.DepositData{Pubkey: c.Keys.PK[keyIdx], WithdrawalCredentials: c.WithdrawalCreds(keyIdx, eth1), Amount: amount}
	msg := refspec.DepositMessage{Pubkey: dd.Pubkey, WithdrawalCredentials: dd.WithdrawalCredentials, Amount: amount}
	domain := sp.ComputeDomain(refspec.DOMAIN_DEPOSIT, sp.ForkVersions[refspec.Phase0], refspec.Root{})
	sr := sp.SigningRoot(refssz.RootOf(sp.S.DepositMessage, msg), domain)
	if validSig {
		dd.Signature = Sign(c.Keys.SK[keyIdx], sr)
	} else {
		dd.Signature = Sign(c.Keys.WSK[keyIdx], sr)
	}
	c.KeyOf[dd.Pubkey] = keyIdx
	return dd
}

func (c *Chain) sk(validator uint64, st *refspec.State) *blsu.SecretKey {
	return c.Keys.SK[c.KeyOf[st.Validators[validator].Pubkey]]
}

// ---------------------------------------------------------------------------------------
// block production

type Plan struct {
	Participation     float64 // fraction of each committee that attests
	MaxAttSlotsBack   uint64  // include attestations for slots up to this far back (>=1)
	WrongHeadProb     float64
	WrongTargetProb   float64
	SyncParticipation float64
	ProposerSlashings int
	AttesterSlashings int
	Exits             int
	BLSChanges        int
	Blobs             int
	NewDeposits       int  // user deposits made on the contract before this block (become includable after the eth1 vote passes)
	VoteNewEth1       bool // vote for the contract's current deposit root/count
	BadStateRoot      bool
	// WithholdCurrentEpoch: attestations whose target is the block's own epoch are not included (they arrive in the next epoch: late inclusion)
	WithholdCurrentEpoch bool
	// MinAttDelay: only attestations at least this many slots old are included (0 = the minimum inclusion delay)
	MinAttDelay uint64
}

type Built struct {
	Signed *refspec.SignedBlock
	Pre    *refspec.State // reference state advanced to the block slot
	Post   *refspec.State // reference post-state
	Bytes  []byte
	Ops    map[string]int
}

// BuildBlock builds a block for slot on top of the current reference state; nothing from zrnt is used.
func (c *Chain) BuildBlock(slot uint64, plan Plan) (*Built, error) {
	sp := c.Sp
	pre := c.Ref.Copy()
	if err := sp.ProcessSlots(pre, slot); err != nil {
		return nil, fmt.Errorf("builder: process_slots: %w", err)
	}
	proposer, err := sp.BeaconProposerIndex(pre)
	if err != nil {
		return nil, err
	}
	if pre.Validators[proposer].Slashed {
		return nil, ErrProposerSlashed
	}
	fork := pre.Fork
	epoch := sp.CurrentEpoch(pre)
	blk := refspec.Block{Fork: fork, Slot: slot, ProposerIndex: proposer, ParentRoot: refssz.RootOf(sp.S.Header, pre.LatestBlockHeader)}
	body := &blk.Body
	ops := map[string]int{}
	body.RandaoReveal = Sign(c.sk(proposer, pre), sp.SigningRoot(refspec.U64Root(epoch), sp.Domain(pre, refspec.DOMAIN_RANDAO, epoch)))
	body.Graffiti = refspec.Root{byte(slot), byte(c.Rng.Uint32())}
	// user deposits on the contract
	for i := 0; i < plan.NewDeposits; i++ {
		c.userDeposit()
	}
	// eth1 vote
	body.Eth1Data = pre.Eth1Data
	if c.voteEth1 != nil {
		body.Eth1Data = *c.voteEth1
	}
	period := epoch / sp.EPOCHS_PER_ETH1_VOTING_PERIOD
	if plan.VoteNewEth1 && uint64(len(c.DC.Leaves)) > pre.Eth1Data.DepositCount && (c.voteEth1 == nil || c.votePeriod != period) {
		// one candidate per voting period, so that it can reach a majority
		c.votePeriod = period
		n := uint64(len(c.DC.Leaves))
		v := refspec.Eth1Data{DepositRoot: c.DC.Root(n), DepositCount: n, BlockHash: refspec.Root{0xe1, byte(n), byte(n >> 8)}}
		c.voteEth1 = &v
		body.Eth1Data = v
	}
	// work on a scratch copy to keep later operations valid w.r.t. earlier ones in the same block
	scratch := pre.Copy()
	scratch.LatestBlockHeader = refspec.Header{Slot: slot, ProposerIndex: proposer, ParentRoot: blk.ParentRoot}
	// eth1 data processing happens before operations
	{
		tmp := scratch.Eth1DataVotes
		tmp = append(append([]refspec.Eth1Data{}, tmp...), body.Eth1Data)
		cnt := uint64(0)
		for _, v := range tmp {
			if v == body.Eth1Data {
				cnt++
			}
		}
		if cnt*2 > sp.EPOCHS_PER_ETH1_VOTING_PERIOD*sp.SLOTS_PER_EPOCH {
			scratch.Eth1Data = body.Eth1Data
		}
	}
	// proposer slashings
	for i := 0; i < plan.ProposerSlashings && uint64(len(body.ProposerSlashings)) < sp.MAX_PROPOSER_SLASHINGS; i++ {
		if ps, ok := c.makeProposerSlashing(scratch, proposer); ok {
			if err := sp.ProcessProposerSlashing(scratch, &ps); err == nil {
				body.ProposerSlashings = append(body.ProposerSlashings, ps)
				ops["proposer_slashing"]++
			}
		}
	}
	for i := 0; i < plan.AttesterSlashings && uint64(len(body.AttesterSlashings)) < sp.MAX_ATTESTER_SLASHINGS; i++ {
		if as, ok := c.makeAttesterSlashing(scratch, proposer); ok {
			if err := sp.ProcessAttesterSlashing(scratch, &as); err == nil {
				body.AttesterSlashings = append(body.AttesterSlashings, as)
				ops["attester_slashing"]++
			}
		}
	}
	// attestations
	if plan.Participation > 0 {
		back := plan.MaxAttSlotsBack
		if back == 0 {
			back = 1
		}
		first := sp.MIN_ATTESTATION_INCLUSION_DELAY
		if plan.MinAttDelay > first {
			first = plan.MinAttDelay
		}
		for d := first; d <= back && d <= slot; d++ {
			s := slot - d
			if fork < refspec.Deneb && slot > s+sp.SLOTS_PER_EPOCH {
				break
			}
			te := sp.EpochAtSlot(s)
			if te != epoch && te != sp.PreviousEpoch(pre) {
				break
			}
			if plan.WithholdCurrentEpoch && te == epoch {
				continue
			}
			cps := sp.CommitteeCountPerSlot(scratch, te)
			for ci := uint64(0); ci < cps; ci++ {
				if uint64(len(body.Attestations)) >= sp.MAX_ATTESTATIONS {
					break
				}
				if c.includedAtt[[2]uint64{s, ci}] && c.Rng.IntN(8) != 0 {
					continue
				}
				att, ok := c.makeAttestation(scratch, s, ci, plan)
				if !ok {
					continue
				}
				if err := sp.ProcessAttestation(scratch, &att); err != nil {
					continue
				}
				body.Attestations = append(body.Attestations, att)
				c.includedAtt[[2]uint64{s, ci}] = true
				ops["attestation"]++
			}
		}
	}
	// deposits (mandatory count)
	need := scratch.Eth1Data.DepositCount - scratch.Eth1DepositIndex
	if need > sp.MAX_DEPOSITS {
		need = sp.MAX_DEPOSITS
	}
	for i := uint64(0); i < need; i++ {
		idx := scratch.Eth1DepositIndex
		dep := refspec.Deposit{Proof: c.DC.Proof(idx, scratch.Eth1Data.DepositCount), Data: c.DC.Leaves[idx]}
		if err := sp.ProcessDeposit(scratch, &dep); err != nil {
			return nil, fmt.Errorf("builder: deposit %d invalid on reference: %w", idx, err)
		}
		body.Deposits = append(body.Deposits, dep)
		ops["deposit"]++
	}
	// exits
	for i := 0; i < plan.Exits && uint64(len(body.VoluntaryExits)) < sp.MAX_VOLUNTARY_EXITS; i++ {
		if ex, ok := c.makeExit(scratch); ok {
			if err := sp.ProcessVoluntaryExit(scratch, &ex); err == nil {
				body.VoluntaryExits = append(body.VoluntaryExits, ex)
				ops["exit"]++
			}
		}
	}
	if fork >= refspec.Capella {
		for i := 0; i < plan.BLSChanges && uint64(len(body.BLSToExecutionChanges)) < sp.MAX_BLS_TO_EXECUTION_CHANGES; i++ {
			if ch, ok := c.makeBLSChange(scratch); ok {
				if err := sp.ProcessBLSToExecutionChange(scratch, &ch); err == nil {
					body.BLSToExecutionChanges = append(body.BLSToExecutionChanges, ch)
					ops["bls_change"]++
				}
			}
		}
	}
	// sync aggregate (signed over the block root at the previous slot, known from pre)
	if fork >= refspec.Altair {
		bits := make([]bool, sp.SYNC_COMMITTEE_SIZE)
		var sks []*blsu.SecretKey
		for i, pk := range pre.CurrentSyncCommittee.Pubkeys {
			if c.Rng.Float64() < plan.SyncParticipation {
				bits[i] = true
				sks = append(sks, c.Keys.SK[c.KeyOf[pk]])
			}
		}
		prevSlot := slot - 1
		if slot == 0 {
			prevSlot = 0
		}
		br, err := sp.BlockRootAtSlot(pre, prevSlot)
		if err != nil {
			return nil, err
		}
		sr := sp.SigningRoot(br, sp.Domain(pre, refspec.DOMAIN_SYNC_COMMITTEE, sp.EpochAtSlot(prevSlot)))
		body.SyncAggregate = refspec.SyncAggregate{SyncCommitteeBits: bits, SyncCommitteeSignature: AggSign(sks, sr)}
		if len(sks) > 0 {
			ops["sync_aggregate"]++
		}
	}
	// execution payload
	preMerge := fork == refspec.Bellatrix && slot < c.MergeAtSlot && !sp.IsMergeTransitionComplete(pre)
	if preMerge {
		body.ExecutionPayload.LogsBloom = make([]byte, sp.BYTES_PER_LOGS_BLOOM)
		body.ExecutionPayload.ExtraData = []byte{}
		ops["pre_merge_block"]++
	}
	if fork >= refspec.Bellatrix && !preMerge {
		pl := &body.ExecutionPayload
		pl.LogsBloom = make([]byte, sp.BYTES_PER_LOGS_BLOOM)
		pl.ExtraData = []byte{}
		c.BlockNumber++
		pl.ParentHash = pre.LatestExecutionPayloadHeader.BlockHash
		if fork == refspec.Bellatrix && !sp.IsMergeTransitionComplete(pre) {
			// the merge transition block: its parent is the terminal proof-of-work block, not something the state knows
			pl.ParentHash = refspec.Root{0x77, byte(slot), byte(c.Rng.Uint32()), 1}
			ops["merge_transition_block"]++
		}
		pl.PrevRandao = sp.RandaoMix(pre, epoch)
		pl.Timestamp = sp.TimestampAtSlot(pre, slot)
		pl.BlockNumber = c.BlockNumber
		pl.GasLimit, pl.GasUsed = 30_000_000, uint64(c.Rng.IntN(1_000_000))
		pl.FeeRecipient = [20]byte{0xfe, byte(slot)}
		pl.StateRoot = refspec.Root{0x51, byte(slot)}
		pl.ReceiptsRoot = refspec.Root{0x52, byte(slot)}
		pl.BaseFeePerGas[0] = 7
		pl.BlockHash = refspec.Root{0xb1, byte(slot), byte(slot >> 8), byte(c.Rng.Uint32())}
		if fork == refspec.Bellatrix && !sp.IsMergeTransitionComplete(pre) && c.Rng.IntN(2) == 0 {
			// nothing in the consensus rules looks at the block hash itself (that is the engine's business):
			// a merge transition payload whose hash field is zero is still a non-empty payload
			pl.BlockHash = refspec.Root{}
			ops["merge_transition_block_with_zero_block_hash"]++
		}
		for i := 0; i < c.Rng.IntN(3); i++ {
			tx := make([]byte, 1+c.Rng.IntN(40))
			for j := range tx {
				tx[j] = byte(c.Rng.Uint32())
			}
			pl.Transactions = append(pl.Transactions, tx)
		}
		if c.Rng.IntN(4) == 0 {
			pl.ExtraData = []byte{1, 2, 3}
		}
		if fork >= refspec.Capella {
			pl.Withdrawals = sp.ExpectedWithdrawals(pre)
			if len(pl.Withdrawals) > 0 {
				ops["withdrawal"] += len(pl.Withdrawals)
			}
		}
		if fork >= refspec.Deneb {
			pl.BlobGasUsed = uint64(plan.Blobs) * 131072
			for i := 0; i < plan.Blobs && uint64(i) < sp.MAX_BLOBS_PER_BLOCK; i++ {
				var cm [48]byte
				cm[0], cm[1], cm[2] = 0xc0+byte(i), byte(slot), byte(c.Rng.Uint32())
				body.BlobKZGCommitments = append(body.BlobKZGCommitments, cm)
			}
			if len(body.BlobKZGCommitments) > 0 {
				ops["blob_commitment"] += len(body.BlobKZGCommitments)
			}
		}
		ops["execution_payload"]++
	}
	// reference post-state and state root
	post := pre.Copy()
	eng := &ScriptedEngine{Spec: c.ZSpec}
	if err := sp.ProcessBlock(post, &blk, eng); err != nil {
		return nil, fmt.Errorf("builder: reference rejects its own block: %w", err)
	}
	blk.StateRoot = sp.S.StateRoot(post)
	if plan.BadStateRoot {
		blk.StateRoot[5] ^= 1
	}
	sb := &refspec.SignedBlock{Message: blk}
	sb.Signature = Sign(c.sk(proposer, pre), sp.SigningRoot(sp.S.BlockRoot(&blk), sp.Domain(pre, refspec.DOMAIN_BEACON_PROPOSER, epoch)))
	return &Built{Signed: sb, Pre: pre, Post: post, Bytes: sp.S.SignedBlockBytes(sb), Ops: ops}, nil
}

var ErrProposerSlashed = errors.New("builder: the proposer of this slot is slashed, no valid block exists")

func (c *Chain) userDeposit() {
	p := c.Sp.P
	switch c.Rng.IntN(6) {
	case 0: // top-up of an existing validator (signature irrelevant)
		if len(c.Ref.Validators) > 0 {
			v := c.Rng.IntN(len(c.Ref.Validators))
			ki := c.KeyOf[c.Ref.Validators[v].Pubkey]
			dd := c.MakeDepositData(ki, p.EFFECTIVE_BALANCE_INCREMENT*uint64(1+c.Rng.IntN(3)), false, c.Rng.IntN(2) == 0)
			if c.Rng.IntN(2) == 0 {
				dd.Signature = [96]byte{} // not even a curve point: top-ups are credited regardless
			}
			c.DC.Add(dd)
			return
		}
		fallthrough
	case 1: // bad proof of possession for a new key
		if c.NextKey < MaxKeys {
			c.DC.Add(c.MakeDepositData(c.NextKey, p.MAX_EFFECTIVE_BALANCE, false, false))
			c.NextKey++ // the key stays unknown to the registry; a later valid deposit for it may follow
			return
		}
		fallthrough
	default:
		if c.NextKey < MaxKeys {
			amounts := []uint64{p.MAX_EFFECTIVE_BALANCE, p.MAX_EFFECTIVE_BALANCE, p.MAX_EFFECTIVE_BALANCE + p.EFFECTIVE_BALANCE_INCREMENT, p.MAX_EFFECTIVE_BALANCE - 1, p.MAX_EFFECTIVE_BALANCE / 2, p.MIN_DEPOSIT_AMOUNT}
			c.DC.Add(c.MakeDepositData(c.NextKey, amounts[c.Rng.IntN(len(amounts))], c.Rng.IntN(2) == 0, true))
			c.NextKey++
			if c.Rng.IntN(5) == 0 { // same pubkey twice in a row
				c.DC.Add(c.MakeDepositData(c.NextKey-1, p.EFFECTIVE_BALANCE_INCREMENT, false, true))
			}
		}
	}
}

func (c *Chain) slashableValidators(st *refspec.State, exclude uint64) []uint64 {
	var out []uint64
	cur := c.Sp.CurrentEpoch(st)
	for i := range st.Validators {
		if uint64(i) != exclude && refspec.IsSlashable(&st.Validators[i], cur) {
			out = append(out, uint64(i))
		}
	}
	return out
}

// exitedFirst moves the slashable validators that already exited (but are not withdrawable yet) to the front in 2 of 3 calls:
// the slashability window ends at withdrawable_epoch, not at exit_epoch.
func (c *Chain) exitedFirst(st *refspec.State, cands []uint64) (nExited int) {
	cur := c.Sp.CurrentEpoch(st)
	if c.Rng.IntN(3) == 0 {
		return 0
	}
	sort.SliceStable(cands, func(i, j int) bool {
		return st.Validators[cands[i]].ExitEpoch <= cur && !(st.Validators[cands[j]].ExitEpoch <= cur)
	})
	for _, v := range cands {
		if st.Validators[v].ExitEpoch <= cur {
			nExited++
		}
	}
	return nExited
}

func (c *Chain) makeProposerSlashing(st *refspec.State, blockProposer uint64) (refspec.ProposerSlashing, bool) {
	sp := c.Sp
	cands := c.slashableValidators(st, blockProposer)
	if len(cands) == 0 {
		return refspec.ProposerSlashing{}, false
	}
	v := cands[c.Rng.IntN(len(cands))]
	if n := c.exitedFirst(st, cands); n > 0 {
		v = cands[c.Rng.IntN(n)]
	}
	hs := st.Slot
	if hs > 0 && c.Rng.IntN(2) == 0 {
		hs -= uint64(c.Rng.IntN(int(min(hs, sp.SLOTS_PER_EPOCH*2)) + 1))
	}
	mk := func(tag byte) refspec.SignedHeader {
		h := refspec.Header{Slot: hs, ProposerIndex: v, ParentRoot: refspec.Root{tag}, StateRoot: refspec.Root{tag, 1}, BodyRoot: refspec.Root{tag, 2}}
		sr := sp.SigningRoot(refssz.RootOf(sp.S.Header, h), sp.Domain(st, refspec.DOMAIN_BEACON_PROPOSER, sp.EpochAtSlot(hs)))
		return refspec.SignedHeader{Message: h, Signature: Sign(c.sk(v, st), sr)}
	}
	return refspec.ProposerSlashing{SignedHeader1: mk(0xa1), SignedHeader2: mk(0xa2)}, true
}

// MakeProposerSlashingOf builds a correctly signed proposer slashing (two headers of the state's slot) of validator v, slashable or not.
func (c *Chain) MakeProposerSlashingOf(st *refspec.State, v uint64) refspec.ProposerSlashing {
	sp := c.Sp
	mk := func(tag byte) refspec.SignedHeader {
		h := refspec.Header{Slot: st.Slot, ProposerIndex: v, ParentRoot: refspec.Root{tag}, StateRoot: refspec.Root{tag, 1}, BodyRoot: refspec.Root{tag, 2}}
		sr := sp.SigningRoot(refssz.RootOf(sp.S.Header, h), sp.Domain(st, refspec.DOMAIN_BEACON_PROPOSER, sp.EpochAtSlot(st.Slot)))
		return refspec.SignedHeader{Message: h, Signature: Sign(c.sk(v, st), sr)}
	}
	return refspec.ProposerSlashing{SignedHeader1: mk(0xc1), SignedHeader2: mk(0xc2)}
}

// MakeAttesterSlashingOf builds a correctly signed double vote of the validators idx (ascending), slashable or not.
func (c *Chain) MakeAttesterSlashingOf(st *refspec.State, idx []uint64) refspec.AttesterSlashing {
	sp := c.Sp
	te := sp.CurrentEpoch(st)
	src := uint64(0)
	if te > 0 {
		src = te - 1
	}
	sign := func(tag byte) refspec.IndexedAttestation {
		d := refspec.AttestationData{Slot: sp.StartSlot(te), Index: 0, BeaconBlockRoot: refspec.Root{tag}, Source: refspec.Checkpoint{Epoch: src, Root: refspec.Root{tag, 1}}, Target: refspec.Checkpoint{Epoch: te, Root: refspec.Root{tag, 2}}}
		var sks []*blsu.SecretKey
		for _, i := range idx {
			sks = append(sks, c.sk(i, st))
		}
		sr := sp.SigningRoot(refssz.RootOf(sp.S.AttestationData, d), sp.Domain(st, refspec.DOMAIN_BEACON_ATTESTER, te))
		return refspec.IndexedAttestation{AttestingIndices: append([]uint64{}, idx...), Data: d, Signature: AggSign(sks, sr)}
	}
	return refspec.AttesterSlashing{Attestation1: sign(0xd1), Attestation2: sign(0xd2)}
}

func (c *Chain) makeAttesterSlashing(st *refspec.State, blockProposer uint64) (refspec.AttesterSlashing, bool) {
	sp := c.Sp
	cands := c.slashableValidators(st, blockProposer)
	if len(cands) < 2 {
		return refspec.AttesterSlashing{}, false
	}
	n := 1 + c.Rng.IntN(min(4, len(cands)))
	c.Rng.Shuffle(len(cands), func(i, j int) { cands[i], cands[j] = cands[j], cands[i] })
	c.exitedFirst(st, cands) // a mix of exited and active validators when some exited ones are still slashable
	idx := append([]uint64{}, cands[:n]...)
	sort.Slice(idx, func(i, j int) bool { return idx[i] < idx[j] })
	te := sp.CurrentEpoch(st)
	mkData := func(tag byte, src, tgt uint64) refspec.AttestationData {
		return refspec.AttestationData{Slot: sp.StartSlot(tgt), Index: 0, BeaconBlockRoot: refspec.Root{tag}, Source: refspec.Checkpoint{Epoch: src, Root: refspec.Root{tag, 1}}, Target: refspec.Checkpoint{Epoch: tgt, Root: refspec.Root{tag, 2}}}
	}
	var d1, d2 refspec.AttestationData
	if te >= 3 && c.Rng.IntN(2) == 0 { // surround vote
		d1 = mkData(0xb1, te-3, te)
		d2 = mkData(0xb2, te-2, te-1)
	} else { // double vote
		src := uint64(0)
		if te > 0 {
			src = te - 1
		}
		d1 = mkData(0xb1, src, te)
		d2 = mkData(0xb2, src, te)
	}
	sign := func(d refspec.AttestationData) refspec.IndexedAttestation {
		var sks []*blsu.SecretKey
		for _, i := range idx {
			sks = append(sks, c.sk(i, st))
		}
		sr := sp.SigningRoot(refssz.RootOf(sp.S.AttestationData, d), sp.Domain(st, refspec.DOMAIN_BEACON_ATTESTER, d.Target.Epoch))
		return refspec.IndexedAttestation{AttestingIndices: append([]uint64{}, idx...), Data: d, Signature: AggSign(sks, sr)}
	}
	return refspec.AttesterSlashing{Attestation1: sign(d1), Attestation2: sign(d2)}, true
}

// MakeAttestation builds a signed aggregate of committee ci of slot s as seen from st (helper for mutators).
func (c *Chain) MakeAttestation(st *refspec.State, s, ci uint64, plan Plan) (refspec.Attestation, bool) {
	return c.makeAttestation(st, s, ci, plan)
}

func (c *Chain) makeAttestation(st *refspec.State, s, ci uint64, plan Plan) (refspec.Attestation, bool) {
	sp := c.Sp
	te := sp.EpochAtSlot(s)
	committee := sp.BeaconCommittee(st, s, ci)
	if len(committee) == 0 {
		return refspec.Attestation{}, false
	}
	head, err := sp.BlockRootAtSlot(st, s)
	if err != nil {
		return refspec.Attestation{}, false
	}
	var target refspec.Root
	if sp.StartSlot(te) == s {
		target = head
	} else {
		target, err = sp.BlockRoot(st, te)
		if err != nil {
			return refspec.Attestation{}, false
		}
	}
	source := st.PreviousJustifiedCheckpoint
	if te == sp.CurrentEpoch(st) {
		source = st.CurrentJustifiedCheckpoint
	}
	if c.Rng.Float64() < plan.WrongHeadProb {
		head = refspec.Root{0xdd, byte(s)}
	}
	if c.Rng.Float64() < plan.WrongTargetProb {
		target = refspec.Root{0xee, byte(s)}
	}
	data := refspec.AttestationData{Slot: s, Index: ci, BeaconBlockRoot: head, Source: source, Target: refspec.Checkpoint{Epoch: te, Root: target}}
	bits := make([]bool, len(committee))
	var sks []*blsu.SecretKey
	for i, v := range committee {
		if c.Rng.Float64() < plan.Participation {
			bits[i] = true
			sks = append(sks, c.sk(v, st))
		}
	}
	if len(sks) == 0 {
		return refspec.Attestation{}, false
	}
	sr := sp.SigningRoot(refssz.RootOf(sp.S.AttestationData, data), sp.Domain(st, refspec.DOMAIN_BEACON_ATTESTER, te))
	return refspec.Attestation{AggregationBits: bits, Data: data, Signature: AggSign(sks, sr)}, true
}

func (c *Chain) makeExit(st *refspec.State) (refspec.SignedVoluntaryExit, bool) {
	sp := c.Sp
	cur := sp.CurrentEpoch(st)
	var cands []uint64
	for i := range st.Validators {
		v := &st.Validators[i]
		if refspec.IsActive(v, cur) && v.ExitEpoch == refspec.FarFuture && cur >= v.ActivationEpoch+sp.SHARD_COMMITTEE_PERIOD {
			cands = append(cands, uint64(i))
		}
	}
	if len(cands) == 0 {
		return refspec.SignedVoluntaryExit{}, false
	}
	v := cands[c.Rng.IntN(len(cands))]
	ee := cur
	if cur > 0 && c.Rng.IntN(2) == 0 {
		ee = cur - uint64(c.Rng.IntN(int(min(cur, 3))+1))
	}
	exit := refspec.VoluntaryExit{Epoch: ee, ValidatorIndex: v}
	var domain refspec.Root
	if st.Fork >= refspec.Deneb {
		domain = sp.ComputeDomain(refspec.DOMAIN_VOLUNTARY_EXIT, sp.ForkVersions[refspec.Capella], st.GenesisValidatorsRoot)
	} else {
		domain = sp.Domain(st, refspec.DOMAIN_VOLUNTARY_EXIT, ee)
	}
	sr := sp.SigningRoot(refssz.RootOf(sp.S.VoluntaryExit, exit), domain)
	return refspec.SignedVoluntaryExit{Message: exit, Signature: Sign(c.sk(v, st), sr)}, true
}

func (c *Chain) makeBLSChange(st *refspec.State) (refspec.SignedBLSToExecutionChange, bool) {
	sp := c.Sp
	var cands []uint64
	for i := range st.Validators {
		if st.Validators[i].WithdrawalCredentials[0] == 0x00 {
			cands = append(cands, uint64(i))
		}
	}
	if len(cands) == 0 {
		return refspec.SignedBLSToExecutionChange{}, false
	}
	v := cands[c.Rng.IntN(len(cands))]
	ki := c.KeyOf[st.Validators[v].Pubkey]
	ch := refspec.BLSToExecutionChange{ValidatorIndex: v, FromBLSPubkey: c.Keys.WPK[ki], ToExecutionAddress: [20]byte{0xea, byte(v)}}
	domain := sp.ComputeDomain(refspec.DOMAIN_BLS_TO_EXECUTION_CHANGE, sp.ForkVersions[refspec.Phase0], st.GenesisValidatorsRoot)
	sr := sp.SigningRoot(refssz.RootOf(sp.S.BLSChange, ch), domain)
	return refspec.SignedBLSToExecutionChange{Message: ch, Signature: Sign(c.Keys.WSK[ki], sr)}, true
}

// ---------------------------------------------------------------------------------------
// applying to both sides and comparing

type Mismatch struct {
	Kind string
	What string
	Diff []string
}

func (m *Mismatch) Error() string { return m.Kind + ": " + m.What }

func (c *Chain) digest(fork int) common.ForkDigest {
	return common.ComputeForkDigest(common.Version(c.Sp.ForkVersions[fork]), common.Root(c.Ref.GenesisValidatorsRoot))
}

// Compare the two states byte for byte (and roots).
func (c *Chain) Compare(where string) *Mismatch {
	if zf := ZrntFork(c.Z); zf != c.Ref.Fork {
		return &Mismatch{Kind: "fork-mismatch", What: fmt.Sprintf("%s: zrnt state is %v, reference is %s", where, zf, refspec.ForkNames[c.Ref.Fork])}
	}
	zb, err := ZrntStateBytes(c.Z)
	if err != nil {
		return &Mismatch{Kind: "zrnt-serialize", What: err.Error()}
	}
	rb := c.Sp.S.StateBytes(c.Ref)
	if string(zb) != string(rb) {
		diff := refssz.DiffBytes(c.Sp.S.State[c.Ref.Fork], rb, zb, 8)
		return &Mismatch{Kind: "state-mismatch", What: fmt.Sprintf("%s: post-state differs from the specification (reference != zrnt): %v", where, diff), Diff: diff}
	}
	rr := c.Sp.S.StateRoot(c.Ref)
	if zr := ZrntStateRoot(c.Z); refspec.Root(zr) != rr {
		return &Mismatch{Kind: "root-mismatch", What: fmt.Sprintf("%s: equal state bytes but zrnt hash-tree-root %x != reference root %x", where, zr[:6], rr[:6])}
	}
	return nil
}

// ApplyBlock runs the full state transition of a built block on both sides.
func (c *Chain) ApplyBlock(ctx context.Context, b *Built) *Mismatch {
	blk := &b.Signed.Message
	env, _, err := DecodeBlock(c.ZSpec, blk.Fork, b.Bytes, c.digest(blk.Fork))
	if err != nil {
		return &Mismatch{Kind: "zrnt-decode-block", What: fmt.Sprintf("zrnt cannot decode a valid %s block: %v", refspec.ForkNames[blk.Fork], err)}
	}
	refErr := c.Sp.StateTransition(c.Ref, b.Signed, &ScriptedEngine{Spec: c.ZSpec}, true)
	c.Eng.Calls = nil
	zErr := common.StateTransition(ctx, c.ZSpec, c.Epc, c.Z, env, true)
	if refErr != nil {
		return &Mismatch{Kind: "harness", What: fmt.Sprintf("reference rejects the builder's block: %v", refErr)}
	}
	if zErr != nil {
		// localise: block processing already ran, a wrong post-state shows up as a state-root error
		if m := c.Compare(fmt.Sprintf("after block at slot %d (%s), which zrnt rejected with %q", blk.Slot, refspec.ForkNames[blk.Fork], zErr.Error())); m != nil && m.Kind == "state-mismatch" {
			return m
		}
		return &Mismatch{Kind: "valid-block-rejected", What: fmt.Sprintf("zrnt rejects a block the specification accepts (slot %d, %s): %v", blk.Slot, refspec.ForkNames[blk.Fork], zErr)}
	}
	return c.Compare(fmt.Sprintf("after block at slot %d (%s)", blk.Slot, refspec.ForkNames[blk.Fork]))
}

// AdvanceSlots runs process_slots to slot on both sides.
func (c *Chain) AdvanceSlots(ctx context.Context, slot uint64) *Mismatch {
	refErr := c.Sp.ProcessSlots(c.Ref, slot)
	zErr := common.ProcessSlots(ctx, c.ZSpec, c.Epc, c.Z, common.Slot(slot))
	if refErr != nil {
		return &Mismatch{Kind: "harness", What: fmt.Sprintf("reference process_slots failed: %v", refErr)}
	}
	if zErr != nil {
		return &Mismatch{Kind: "process-slots-error", What: fmt.Sprintf("zrnt ProcessSlots to slot %d failed where the specification succeeds: %v", slot, zErr)}
	}
	return c.Compare(fmt.Sprintf("after process_slots to slot %d", slot))
}

func hfn() tree.HashFn { return tree.GetHashFn() }

// Sibling makes a second chain from the current point: a copy of the reference state, a CopyState of the
// zrnt state with a Clone of the context (so both lineages share one pubkey cache, as chains sharing
// a node do), and its own view of the deposit contract.
func (c *Chain) Sibling() (*Chain, error) {
	zs := *c.ZSpec
	s := &Chain{ZSpec: &zs, Sp: c.Sp, Keys: c.Keys, Rng: c.Rng, KeyOf: map[[48]byte]int{}, includedAtt: map[[2]uint64]bool{}, NextKey: c.NextKey, BlockNumber: c.BlockNumber, MergeAtSlot: c.MergeAtSlot}
	for k, v := range c.KeyOf {
		s.KeyOf[k] = v
	}
	for k, v := range c.includedAtt {
		s.includedAtt[k] = v
	}
	s.Ref = c.Ref.Copy()
	s.DC = &DepositContract{sp: c.Sp, Leaves: append([]refspec.DepositData{}, c.DC.Leaves...), roots: append([]refspec.Root{}, c.DC.roots...)}
	s.Eng = &ScriptedEngine{Spec: s.ZSpec}
	s.ZSpec.ExecutionEngine = s.Eng
	cp, err := c.Z.BeaconState.CopyState()
	if err != nil {
		return nil, err
	}
	s.Z = &beacon.StandardUpgradeableBeaconState{BeaconState: cp}
	s.Epc = c.Epc.Clone()
	if c.voteEth1 != nil {
		v := *c.voteEth1
		s.voteEth1 = &v
		s.votePeriod = c.votePeriod
	}
	return s, nil
}

func NewDepositContract(sp *refspec.Spec) *DepositContract { return &DepositContract{sp: sp} }
