// Package sim is the validator-client simulator: it drives chains on the reference specification
// (refspec) and on zrnt side by side. Everything a block contains is computed from the reference
// state only; zrnt receives the SSZ bytes.
package sim

import (
	"bytes"
	"fmt"

	"github.com/protolambda/zrnt/eth2/beacon"
	"github.com/protolambda/zrnt/eth2/beacon/altair"
	"github.com/protolambda/zrnt/eth2/beacon/bellatrix"
	"github.com/protolambda/zrnt/eth2/beacon/capella"
	"github.com/protolambda/zrnt/eth2/beacon/common"
	"github.com/protolambda/zrnt/eth2/beacon/deneb"
	"github.com/protolambda/zrnt/eth2/beacon/phase0"
	"github.com/protolambda/ztyp/codec"
	"github.com/protolambda/ztyp/tree"
	"github.com/protolambda/ztyp/view"

	"verif/refspec"
)

// LoadZrntState decodes SSZ bytes of a state of the given fork into the zrnt tree-backed view.
func LoadZrntState(spec *common.Spec, fork int, data []byte) (common.BeaconState, error) {
	dr := codec.NewDecodingReader(bytes.NewReader(data), uint64(len(data)))
	switch fork {
	case refspec.Phase0:
		return phase0.AsBeaconStateView(phase0.BeaconStateType(spec).Deserialize(dr))
	case refspec.Altair:
		return altair.AsBeaconStateView(altair.BeaconStateType(spec).Deserialize(dr))
	case refspec.Bellatrix:
		return bellatrix.AsBeaconStateView(bellatrix.BeaconStateType(spec).Deserialize(dr))
	case refspec.Capella:
		return capella.AsBeaconStateView(capella.BeaconStateType(spec).Deserialize(dr))
	case refspec.Deneb:
		return deneb.AsBeaconStateView(deneb.BeaconStateType(spec).Deserialize(dr))
	}
	return nil, fmt.Errorf("unknown fork %d", fork)
}

func Unwrap(st common.BeaconState) common.BeaconState {
	if w, ok := st.(*beacon.StandardUpgradeableBeaconState); ok {
		return w.BeaconState
	}
	return st
}

// ZrntFork names the fork of a zrnt state by its dynamic type.
func ZrntFork(st common.BeaconState) int {
	switch Unwrap(st).(type) {
	case *phase0.BeaconStateView:
		return refspec.Phase0
	case *altair.BeaconStateView:
		return refspec.Altair
	case *bellatrix.BeaconStateView:
		return refspec.Bellatrix
	case *capella.BeaconStateView:
		return refspec.Capella
	case *deneb.BeaconStateView:
		return refspec.Deneb
	}
	return -1
}

// ZrntStateBytes serializes a zrnt state view.
func ZrntStateBytes(st common.BeaconState) ([]byte, error) {
	var buf bytes.Buffer
	v, ok := Unwrap(st).(view.View)
	if !ok {
		return nil, fmt.Errorf("state %T is not a view", st)
	}
	if err := v.Serialize(codec.NewEncodingWriter(&buf)); err != nil {
		return nil, err
	}
	return buf.Bytes(), nil
}

func ZrntStateRoot(st common.BeaconState) common.Root {
	return st.HashTreeRoot(tree.GetHashFn())
}

// DecodeBlock decodes signed-block bytes of a fork into the zrnt struct and wraps it into the envelope.
func DecodeBlock(spec *common.Spec, fork int, data []byte, digest common.ForkDigest) (*common.BeaconBlockEnvelope, common.SpecObj, error) {
	dr := codec.NewDecodingReader(bytes.NewReader(data), uint64(len(data)))
	var obj interface {
		common.SpecObj
		common.EnvelopeBuilder
	}
	switch fork {
	case refspec.Phase0:
		obj = new(phase0.SignedBeaconBlock)
	case refspec.Altair:
		obj = new(altair.SignedBeaconBlock)
	case refspec.Bellatrix:
		obj = new(bellatrix.SignedBeaconBlock)
	case refspec.Capella:
		obj = new(capella.SignedBeaconBlock)
	case refspec.Deneb:
		obj = new(deneb.SignedBeaconBlock)
	default:
		return nil, nil, fmt.Errorf("unknown fork %d", fork)
	}
	if err := obj.Deserialize(spec, dr); err != nil {
		return nil, nil, err
	}
	return obj.Envelope(spec, digest), obj, nil
}
