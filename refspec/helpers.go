package refspec

import (
	"crypto/sha256"
	"encoding/binary"
	"fmt"
	"sort"

	blsu "github.com/protolambda/bls12-381-util"

	"verif/refssz"
)

// Spec bundles parameters + schemas.
type Spec struct {
	*P
	S *Schemas
	// SkipDepositChecks models zrnt's KickStartState ("ignore signatures and proofs"): every deposit
	// signature counts as valid and Merkle proofs are not checked. Never set for spec-conformance runs.
	SkipDepositChecks bool
	// Observe, when set, is told which branches of the specification executed (coverage evidence only, e.g. "finalize-rule-3").
	Observe func(event string)
}

func (sp *Spec) observe(event string) {
	if sp.Observe != nil {
		sp.Observe(event)
	}
}

func NewSpec(p *P) *Spec { return &Spec{P: p, S: NewSchemas(p)} }

// Rejection: an `assert` of the specification that failed.
type Rejection struct {
	Cond string
	Rule string // the assertion's text before formatting: identifies the assert of the specification
}

func (r *Rejection) Error() string { return "spec rejects: " + r.Cond }

func reject(format string, args ...any) error {
	return &Rejection{Cond: fmt.Sprintf(format, args...), Rule: format}
}

// constants not in presets
const (
	BASE_REWARDS_PER_EPOCH      = 4
	DEPOSIT_CONTRACT_TREE_DEPTH = 32
	TIMELY_SOURCE_FLAG_INDEX    = 0
	TIMELY_TARGET_FLAG_INDEX    = 1
	TIMELY_HEAD_FLAG_INDEX      = 2
	SYNC_REWARD_WEIGHT          = 2
	PROPOSER_WEIGHT             = 8
	WEIGHT_DENOMINATOR          = 64
	MAX_RANDOM_BYTE             = 255
)

var PARTICIPATION_FLAG_WEIGHTS = []uint64{14, 26, 14}

var (
	DOMAIN_BEACON_PROPOSER         = [4]byte{0, 0, 0, 0}
	DOMAIN_BEACON_ATTESTER         = [4]byte{1, 0, 0, 0}
	DOMAIN_RANDAO                  = [4]byte{2, 0, 0, 0}
	DOMAIN_DEPOSIT                 = [4]byte{3, 0, 0, 0}
	DOMAIN_VOLUNTARY_EXIT          = [4]byte{4, 0, 0, 0}
	DOMAIN_SELECTION_PROOF         = [4]byte{5, 0, 0, 0}
	DOMAIN_AGGREGATE_AND_PROOF     = [4]byte{6, 0, 0, 0}
	DOMAIN_SYNC_COMMITTEE          = [4]byte{7, 0, 0, 0}
	DOMAIN_SYNC_SELECTION_PROOF    = [4]byte{8, 0, 0, 0}
	DOMAIN_CONTRIBUTION_AND_PROOF  = [4]byte{9, 0, 0, 0}
	DOMAIN_BLS_TO_EXECUTION_CHANGE = [4]byte{10, 0, 0, 0}
)

func Hash(b []byte) Root { return sha256.Sum256(b) }

func u64le(x uint64) []byte {
	var b [8]byte
	binary.LittleEndian.PutUint64(b[:], x)
	return b[:]
}

func IntegerSquareroot(n uint64) uint64 {
	if n == ^uint64(0) {
		return 4294967295
	}
	x := n
	y := (x + 1) / 2
	for y < x {
		x = y
		y = (x + n/x) / 2
	}
	return x
}

func min64(a, b uint64) uint64 {
	if a < b {
		return a
	}
	return b
}
func max64(a, b uint64) uint64 {
	if a > b {
		return a
	}
	return b
}

func (sp *Spec) EpochAtSlot(slot uint64) uint64 { return slot / sp.SLOTS_PER_EPOCH }
func (sp *Spec) StartSlot(epoch uint64) uint64  { return epoch * sp.SLOTS_PER_EPOCH }
func (sp *Spec) CurrentEpoch(st *State) uint64  { return sp.EpochAtSlot(st.Slot) }
func (sp *Spec) PreviousEpoch(st *State) uint64 {
	cur := sp.CurrentEpoch(st)
	if cur == 0 {
		return 0
	}
	return cur - 1
}

func IsActive(v *Validator, epoch uint64) bool {
	return v.ActivationEpoch <= epoch && epoch < v.ExitEpoch
}

func IsSlashable(v *Validator, epoch uint64) bool {
	return !v.Slashed && v.ActivationEpoch <= epoch && epoch < v.WithdrawableEpoch
}

func (sp *Spec) ActiveIndices(st *State, epoch uint64) []uint64 {
	var out []uint64
	for i := range st.Validators {
		if IsActive(&st.Validators[i], epoch) {
			out = append(out, uint64(i))
		}
	}
	return out
}

func (sp *Spec) RandaoMix(st *State, epoch uint64) Root {
	return st.RandaoMixes[epoch%sp.EPOCHS_PER_HISTORICAL_VECTOR]
}

func (sp *Spec) Seed(st *State, epoch uint64, domainType [4]byte) Root {
	mix := sp.RandaoMix(st, epoch+sp.EPOCHS_PER_HISTORICAL_VECTOR-sp.MIN_SEED_LOOKAHEAD-1)
	buf := append(append(append([]byte{}, domainType[:]...), u64le(epoch)...), mix[:]...)
	return Hash(buf)
}

// ShuffledIndex is compute_shuffled_index.
func (sp *Spec) ShuffledIndex(index, count uint64, seed Root) uint64 {
	for r := uint64(0); r < sp.SHUFFLE_ROUND_COUNT; r++ {
		h := Hash(append(append([]byte{}, seed[:]...), byte(r)))
		pivot := binary.LittleEndian.Uint64(h[:8]) % count
		flip := (pivot + count - index) % count
		position := max64(index, flip)
		var pb [4]byte
		binary.LittleEndian.PutUint32(pb[:], uint32(position/256))
		source := Hash(append(append(append([]byte{}, seed[:]...), byte(r)), pb[:]...))
		byt := source[(position%256)/8]
		bit := (byt >> (position % 8)) % 2
		if bit == 1 {
			index = flip
		}
	}
	return index
}

func (sp *Spec) ComputeProposerIndex(st *State, indices []uint64, seed Root) (uint64, error) {
	if len(indices) == 0 {
		return 0, reject("compute_proposer_index: no active validators")
	}
	total := uint64(len(indices))
	for i := uint64(0); ; i++ {
		candidate := indices[sp.ShuffledIndex(i%total, total, seed)]
		rb := Hash(append(append([]byte{}, seed[:]...), u64le(i/32)...))[i%32]
		eff := st.Validators[candidate].EffectiveBalance
		if eff*MAX_RANDOM_BYTE >= sp.MAX_EFFECTIVE_BALANCE*uint64(rb) {
			return candidate, nil
		}
	}
}

func (sp *Spec) ProposerIndexAtSlot(st *State, slot uint64) (uint64, error) {
	epoch := sp.EpochAtSlot(slot)
	s := sp.Seed(st, epoch, DOMAIN_BEACON_PROPOSER)
	seed := Hash(append(append([]byte{}, s[:]...), u64le(slot)...))
	return sp.ComputeProposerIndex(st, sp.ActiveIndices(st, epoch), seed)
}

// BeaconProposerIndex is get_beacon_proposer_index(state).
func (sp *Spec) BeaconProposerIndex(st *State) (uint64, error) {
	return sp.ProposerIndexAtSlot(st, st.Slot)
}

func (sp *Spec) CommitteeCountPerSlot(st *State, epoch uint64) uint64 {
	n := uint64(len(sp.ActiveIndices(st, epoch)))
	return max64(1, min64(sp.MAX_COMMITTEES_PER_SLOT, n/sp.SLOTS_PER_EPOCH/sp.TARGET_COMMITTEE_SIZE))
}

func (sp *Spec) computeCommittee(indices []uint64, seed Root, index, count uint64) []uint64 {
	n := uint64(len(indices))
	start := n * index / count
	end := n * (index + 1) / count
	out := make([]uint64, 0, end-start)
	for i := start; i < end; i++ {
		out = append(out, indices[sp.ShuffledIndex(i, n, seed)])
	}
	return out
}

func (sp *Spec) BeaconCommittee(st *State, slot, index uint64) []uint64 {
	epoch := sp.EpochAtSlot(slot)
	cps := sp.CommitteeCountPerSlot(st, epoch)
	return sp.computeCommittee(sp.ActiveIndices(st, epoch), sp.Seed(st, epoch, DOMAIN_BEACON_ATTESTER), (slot%sp.SLOTS_PER_EPOCH)*cps+index, cps*sp.SLOTS_PER_EPOCH)
}

func (sp *Spec) TotalBalance(st *State, indices []uint64) uint64 {
	var sum uint64
	for _, i := range indices {
		sum += st.Validators[i].EffectiveBalance
	}
	return max64(sp.EFFECTIVE_BALANCE_INCREMENT, sum)
}

func (sp *Spec) TotalActiveBalance(st *State) uint64 {
	return sp.TotalBalance(st, sp.ActiveIndices(st, sp.CurrentEpoch(st)))
}

func (sp *Spec) ForkDataRoot(version [4]byte, gvr Root) Root {
	return refssz.RootOf(sp.S.ForkData, struct {
		V [4]byte
		R Root
	}{version, gvr})
}

func (sp *Spec) ComputeDomain(domainType [4]byte, version [4]byte, gvr Root) Root {
	fdr := sp.ForkDataRoot(version, gvr)
	var d Root
	copy(d[:4], domainType[:])
	copy(d[4:], fdr[:28])
	return d
}

// Domain is get_domain(state, type, epoch).
func (sp *Spec) Domain(st *State, domainType [4]byte, epoch uint64) Root {
	v := st.ForkData.CurrentVersion
	if epoch < st.ForkData.Epoch {
		v = st.ForkData.PreviousVersion
	}
	return sp.ComputeDomain(domainType, v, st.GenesisValidatorsRoot)
}

func (sp *Spec) SigningRoot(objectRoot Root, domain Root) Root {
	return refssz.RootOf(sp.S.SigningData, struct{ A, B Root }{objectRoot, domain})
}

func U64Root(x uint64) Root {
	var r Root
	binary.LittleEndian.PutUint64(r[:8], x)
	return r
}

func (sp *Spec) BlockRootAtSlot(st *State, slot uint64) (Root, error) {
	if !(slot < st.Slot && st.Slot <= slot+sp.SLOTS_PER_HISTORICAL_ROOT) {
		return Root{}, reject("get_block_root_at_slot: slot %d out of range at state slot %d", slot, st.Slot)
	}
	return st.BlockRoots[slot%sp.SLOTS_PER_HISTORICAL_ROOT], nil
}

func (sp *Spec) BlockRoot(st *State, epoch uint64) (Root, error) {
	return sp.BlockRootAtSlot(st, sp.StartSlot(epoch))
}

func (sp *Spec) ChurnLimit(st *State) uint64 {
	return max64(sp.MIN_PER_EPOCH_CHURN_LIMIT, uint64(len(sp.ActiveIndices(st, sp.CurrentEpoch(st))))/sp.CHURN_LIMIT_QUOTIENT)
}

func (sp *Spec) ActivationChurnLimit(st *State) uint64 {
	if st.Fork >= Deneb {
		return min64(sp.MAX_PER_EPOCH_ACTIVATION_CHURN_LIMIT, sp.ChurnLimit(st))
	}
	return sp.ChurnLimit(st)
}

func (sp *Spec) ActivationExitEpoch(epoch uint64) uint64 { return epoch + 1 + sp.MAX_SEED_LOOKAHEAD }

func IncreaseBalance(st *State, index uint64, delta uint64) { st.Balances[index] += delta }

// OnBalanceSaturated, when set, is told that decrease_balance clamped a balance at zero (coverage evidence only).
var OnBalanceSaturated func()

func DecreaseBalance(st *State, index uint64, delta uint64) {
	if delta > st.Balances[index] {
		st.Balances[index] = 0
		if OnBalanceSaturated != nil {
			OnBalanceSaturated()
		}
	} else {
		st.Balances[index] -= delta
	}
}

func (sp *Spec) InitiateValidatorExit(st *State, index uint64) {
	v := &st.Validators[index]
	if v.ExitEpoch != FarFuture {
		return
	}
	exitQueueEpoch := sp.ActivationExitEpoch(sp.CurrentEpoch(st))
	for i := range st.Validators {
		if e := st.Validators[i].ExitEpoch; e != FarFuture && e > exitQueueEpoch {
			exitQueueEpoch = e
		}
	}
	churn := uint64(0)
	for i := range st.Validators {
		if st.Validators[i].ExitEpoch == exitQueueEpoch {
			churn++
		}
	}
	if churn >= sp.ChurnLimit(st) {
		exitQueueEpoch++
	}
	v.ExitEpoch = exitQueueEpoch
	v.WithdrawableEpoch = v.ExitEpoch + sp.MIN_VALIDATOR_WITHDRAWABILITY_DELAY
}

func (sp *Spec) minSlashingPenaltyQuotient(fork int) uint64 {
	switch {
	case fork >= Bellatrix:
		return sp.MIN_SLASHING_PENALTY_QUOTIENT_BELLATRIX
	case fork == Altair:
		return sp.MIN_SLASHING_PENALTY_QUOTIENT_ALTAIR
	}
	return sp.MIN_SLASHING_PENALTY_QUOTIENT
}

func (sp *Spec) proportionalSlashingMultiplier(fork int) uint64 {
	switch {
	case fork >= Bellatrix:
		return sp.PROPORTIONAL_SLASHING_MULTIPLIER_BELLATRIX
	case fork == Altair:
		return sp.PROPORTIONAL_SLASHING_MULTIPLIER_ALTAIR
	}
	return sp.PROPORTIONAL_SLASHING_MULTIPLIER
}

func (sp *Spec) inactivityPenaltyQuotient(fork int) uint64 {
	switch {
	case fork >= Bellatrix:
		return sp.INACTIVITY_PENALTY_QUOTIENT_BELLATRIX
	case fork == Altair:
		return sp.INACTIVITY_PENALTY_QUOTIENT_ALTAIR
	}
	return sp.INACTIVITY_PENALTY_QUOTIENT
}

// SlashValidator with whistleblower = proposer.
func (sp *Spec) SlashValidator(st *State, slashed uint64) error {
	epoch := sp.CurrentEpoch(st)
	if st.Validators[slashed].ExitEpoch <= epoch {
		sp.observe("slashings_of_validators_that_already_exited")
	}
	sp.InitiateValidatorExit(st, slashed)
	v := &st.Validators[slashed]
	v.Slashed = true
	v.WithdrawableEpoch = max64(v.WithdrawableEpoch, epoch+sp.EPOCHS_PER_SLASHINGS_VECTOR)
	st.Slashings[epoch%sp.EPOCHS_PER_SLASHINGS_VECTOR] += v.EffectiveBalance
	DecreaseBalance(st, slashed, v.EffectiveBalance/sp.minSlashingPenaltyQuotient(st.Fork))
	proposer, err := sp.BeaconProposerIndex(st)
	if err != nil {
		return err
	}
	whistleblower := proposer
	whistleblowerReward := v.EffectiveBalance / sp.WHISTLEBLOWER_REWARD_QUOTIENT
	var proposerReward uint64
	if st.Fork >= Altair {
		proposerReward = whistleblowerReward * PROPOSER_WEIGHT / WEIGHT_DENOMINATOR
	} else {
		proposerReward = whistleblowerReward / sp.PROPOSER_REWARD_QUOTIENT
	}
	IncreaseBalance(st, proposer, proposerReward)
	IncreaseBalance(st, whistleblower, whistleblowerReward-proposerReward)
	return nil
}

// AttestingIndices is get_attesting_indices as a sorted list (committee members whose bit is set).
func (sp *Spec) AttestingIndices(st *State, data *AttestationData, bits []bool) []uint64 {
	committee := sp.BeaconCommittee(st, data.Slot, data.Index)
	var out []uint64
	for i, idx := range committee {
		if i < len(bits) && bits[i] {
			out = append(out, idx)
		}
	}
	sort.Slice(out, func(i, j int) bool { return out[i] < out[j] })
	// set semantics
	uniq := out[:0]
	for i, x := range out {
		if i == 0 || x != out[i-1] {
			uniq = append(uniq, x)
		}
	}
	return uniq
}

// ---- BLS

func blsPub(pk [48]byte) (*blsu.Pubkey, bool) {
	var p blsu.Pubkey
	if err := p.Deserialize(&pk); err != nil {
		return nil, false
	}
	return &p, true
}

func blsSig(sig [96]byte) (*blsu.Signature, bool) {
	var s blsu.Signature
	if err := s.Deserialize(&sig); err != nil {
		return nil, false
	}
	return &s, true
}

func BLSVerify(pk [48]byte, msg Root, sig [96]byte) bool {
	p, ok := blsPub(pk)
	if !ok {
		return false
	}
	s, ok := blsSig(sig)
	if !ok {
		return false
	}
	return blsu.Verify(p, msg[:], s)
}

func BLSFastAggregateVerify(pks [][48]byte, msg Root, sig [96]byte) bool {
	pubs := make([]*blsu.Pubkey, len(pks))
	for i, pk := range pks {
		p, ok := blsPub(pk)
		if !ok {
			return false
		}
		pubs[i] = p
	}
	s, ok := blsSig(sig)
	if !ok {
		return false
	}
	return blsu.FastAggregateVerify(pubs, msg[:], s)
}

func BLSEthFastAggregateVerify(pks [][48]byte, msg Root, sig [96]byte) bool {
	pubs := make([]*blsu.Pubkey, len(pks))
	for i, pk := range pks {
		p, ok := blsPub(pk)
		if !ok {
			return false
		}
		pubs[i] = p
	}
	s, ok := blsSig(sig)
	if !ok {
		return false
	}
	return blsu.Eth2FastAggregateVerify(pubs, msg[:], s)
}

func BLSAggregatePubkeys(pks [][48]byte) ([48]byte, error) {
	pubs := make([]*blsu.Pubkey, len(pks))
	for i, pk := range pks {
		p, ok := blsPub(pk)
		if !ok {
			return [48]byte{}, reject("eth_aggregate_pubkeys: invalid pubkey")
		}
		pubs[i] = p
	}
	agg, err := blsu.AggregatePubkeys(pubs)
	if err != nil {
		return [48]byte{}, reject("eth_aggregate_pubkeys: %v", err)
	}
	return agg.Serialize(), nil
}

// IsValidIndexedAttestation
func (sp *Spec) IsValidIndexedAttestation(st *State, ia *IndexedAttestation) bool {
	idx := ia.AttestingIndices
	if len(idx) == 0 {
		return false
	}
	for i := 1; i < len(idx); i++ {
		if idx[i-1] >= idx[i] {
			return false
		}
	}
	pks := make([][48]byte, len(idx))
	for i, x := range idx {
		if x >= uint64(len(st.Validators)) {
			return false
		}
		pks[i] = st.Validators[x].Pubkey
	}
	domain := sp.Domain(st, DOMAIN_BEACON_ATTESTER, ia.Data.Target.Epoch)
	sr := sp.SigningRoot(refssz.RootOf(sp.S.AttestationData, ia.Data), domain)
	return BLSFastAggregateVerify(pks, sr, ia.Signature)
}

func IsValidMerkleBranch(leaf Root, branch []Root, depth uint64, index uint64, root Root) bool {
	value := leaf
	for i := uint64(0); i < depth; i++ {
		if (index>>i)&1 == 1 {
			value = Hash(append(append([]byte{}, branch[i][:]...), value[:]...))
		} else {
			value = Hash(append(append([]byte{}, value[:]...), branch[i][:]...))
		}
	}
	return value == root
}
