// Package refspec is a deliberately naive transcription of the consensus specification
// (ethereum/consensus-specs v1.5.0-beta.2, phase0..deneb) over plain Go values: no caches, no
// tree views, no batching. Every helper recomputes from the state on every call. It shares only
// the BLS library and the configuration numbers with zrnt.
package refspec

import (
	"github.com/protolambda/zrnt/eth2/beacon/common"

	"verif/refssz"
)

type Root = [32]byte

const (
	Phase0 = iota
	Altair
	Bellatrix
	Capella
	Deneb
)

var ForkNames = []string{"phase0", "altair", "bellatrix", "capella", "deneb"}

const FarFuture = ^uint64(0)

// P holds the preset and config numbers (copied from a zrnt Spec value: data, not logic).
type P struct {
	MAX_COMMITTEES_PER_SLOT, TARGET_COMMITTEE_SIZE, MAX_VALIDATORS_PER_COMMITTEE, SHUFFLE_ROUND_COUNT                 uint64
	HYSTERESIS_QUOTIENT, HYSTERESIS_DOWNWARD_MULTIPLIER, HYSTERESIS_UPWARD_MULTIPLIER                                 uint64
	MIN_DEPOSIT_AMOUNT, MAX_EFFECTIVE_BALANCE, EFFECTIVE_BALANCE_INCREMENT                                            uint64
	MIN_ATTESTATION_INCLUSION_DELAY, SLOTS_PER_EPOCH, MIN_SEED_LOOKAHEAD, MAX_SEED_LOOKAHEAD                          uint64
	EPOCHS_PER_ETH1_VOTING_PERIOD, SLOTS_PER_HISTORICAL_ROOT, MIN_EPOCHS_TO_INACTIVITY_PENALTY                        uint64
	EPOCHS_PER_HISTORICAL_VECTOR, EPOCHS_PER_SLASHINGS_VECTOR, HISTORICAL_ROOTS_LIMIT, VALIDATOR_REGISTRY_LIMIT       uint64
	BASE_REWARD_FACTOR, WHISTLEBLOWER_REWARD_QUOTIENT, PROPOSER_REWARD_QUOTIENT                                       uint64
	INACTIVITY_PENALTY_QUOTIENT, MIN_SLASHING_PENALTY_QUOTIENT, PROPORTIONAL_SLASHING_MULTIPLIER                      uint64
	MAX_PROPOSER_SLASHINGS, MAX_ATTESTER_SLASHINGS, MAX_ATTESTATIONS, MAX_DEPOSITS, MAX_VOLUNTARY_EXITS               uint64
	INACTIVITY_PENALTY_QUOTIENT_ALTAIR, MIN_SLASHING_PENALTY_QUOTIENT_ALTAIR, PROPORTIONAL_SLASHING_MULTIPLIER_ALTAIR uint64
	SYNC_COMMITTEE_SIZE, EPOCHS_PER_SYNC_COMMITTEE_PERIOD                                                             uint64
	INACTIVITY_PENALTY_QUOTIENT_BELLATRIX, MIN_SLASHING_PENALTY_QUOTIENT_BELLATRIX                                    uint64
	PROPORTIONAL_SLASHING_MULTIPLIER_BELLATRIX                                                                        uint64
	MAX_BYTES_PER_TRANSACTION, MAX_TRANSACTIONS_PER_PAYLOAD, BYTES_PER_LOGS_BLOOM, MAX_EXTRA_DATA_BYTES               uint64
	MAX_BLS_TO_EXECUTION_CHANGES, MAX_WITHDRAWALS_PER_PAYLOAD, MAX_VALIDATORS_PER_WITHDRAWALS_SWEEP                   uint64
	MAX_BLOB_COMMITMENTS_PER_BLOCK, MAX_BLOBS_PER_BLOCK                                                               uint64
	// config
	MIN_GENESIS_ACTIVE_VALIDATOR_COUNT, MIN_GENESIS_TIME, GENESIS_DELAY                   uint64
	SECONDS_PER_SLOT, MIN_VALIDATOR_WITHDRAWABILITY_DELAY, SHARD_COMMITTEE_PERIOD         uint64
	INACTIVITY_SCORE_BIAS, INACTIVITY_SCORE_RECOVERY_RATE, EJECTION_BALANCE               uint64
	MIN_PER_EPOCH_CHURN_LIMIT, CHURN_LIMIT_QUOTIENT, MAX_PER_EPOCH_ACTIVATION_CHURN_LIMIT uint64
	ForkVersions                                                                          [5][4]byte
	ForkEpochs                                                                            [5]uint64 // [0] = 0 (genesis)
}

func FromSpec(s *common.Spec) *P {
	p := &P{
		MAX_COMMITTEES_PER_SLOT: uint64(s.MAX_COMMITTEES_PER_SLOT), TARGET_COMMITTEE_SIZE: uint64(s.TARGET_COMMITTEE_SIZE), MAX_VALIDATORS_PER_COMMITTEE: uint64(s.MAX_VALIDATORS_PER_COMMITTEE), SHUFFLE_ROUND_COUNT: uint64(s.SHUFFLE_ROUND_COUNT),
		HYSTERESIS_QUOTIENT: uint64(s.HYSTERESIS_QUOTIENT), HYSTERESIS_DOWNWARD_MULTIPLIER: uint64(s.HYSTERESIS_DOWNWARD_MULTIPLIER), HYSTERESIS_UPWARD_MULTIPLIER: uint64(s.HYSTERESIS_UPWARD_MULTIPLIER),
		MIN_DEPOSIT_AMOUNT: uint64(s.MIN_DEPOSIT_AMOUNT), MAX_EFFECTIVE_BALANCE: uint64(s.MAX_EFFECTIVE_BALANCE), EFFECTIVE_BALANCE_INCREMENT: uint64(s.EFFECTIVE_BALANCE_INCREMENT),
		MIN_ATTESTATION_INCLUSION_DELAY: uint64(s.MIN_ATTESTATION_INCLUSION_DELAY), SLOTS_PER_EPOCH: uint64(s.SLOTS_PER_EPOCH), MIN_SEED_LOOKAHEAD: uint64(s.MIN_SEED_LOOKAHEAD), MAX_SEED_LOOKAHEAD: uint64(s.MAX_SEED_LOOKAHEAD),
		EPOCHS_PER_ETH1_VOTING_PERIOD: uint64(s.EPOCHS_PER_ETH1_VOTING_PERIOD), SLOTS_PER_HISTORICAL_ROOT: uint64(s.SLOTS_PER_HISTORICAL_ROOT), MIN_EPOCHS_TO_INACTIVITY_PENALTY: uint64(s.MIN_EPOCHS_TO_INACTIVITY_PENALTY),
		EPOCHS_PER_HISTORICAL_VECTOR: uint64(s.EPOCHS_PER_HISTORICAL_VECTOR), EPOCHS_PER_SLASHINGS_VECTOR: uint64(s.EPOCHS_PER_SLASHINGS_VECTOR), HISTORICAL_ROOTS_LIMIT: uint64(s.HISTORICAL_ROOTS_LIMIT), VALIDATOR_REGISTRY_LIMIT: uint64(s.VALIDATOR_REGISTRY_LIMIT),
		BASE_REWARD_FACTOR: uint64(s.BASE_REWARD_FACTOR), WHISTLEBLOWER_REWARD_QUOTIENT: uint64(s.WHISTLEBLOWER_REWARD_QUOTIENT), PROPOSER_REWARD_QUOTIENT: uint64(s.PROPOSER_REWARD_QUOTIENT),
		INACTIVITY_PENALTY_QUOTIENT: uint64(s.INACTIVITY_PENALTY_QUOTIENT), MIN_SLASHING_PENALTY_QUOTIENT: uint64(s.MIN_SLASHING_PENALTY_QUOTIENT), PROPORTIONAL_SLASHING_MULTIPLIER: uint64(s.PROPORTIONAL_SLASHING_MULTIPLIER),
		MAX_PROPOSER_SLASHINGS: uint64(s.MAX_PROPOSER_SLASHINGS), MAX_ATTESTER_SLASHINGS: uint64(s.MAX_ATTESTER_SLASHINGS), MAX_ATTESTATIONS: uint64(s.MAX_ATTESTATIONS), MAX_DEPOSITS: uint64(s.MAX_DEPOSITS), MAX_VOLUNTARY_EXITS: uint64(s.MAX_VOLUNTARY_EXITS),
		INACTIVITY_PENALTY_QUOTIENT_ALTAIR: uint64(s.INACTIVITY_PENALTY_QUOTIENT_ALTAIR), MIN_SLASHING_PENALTY_QUOTIENT_ALTAIR: uint64(s.MIN_SLASHING_PENALTY_QUOTIENT_ALTAIR), PROPORTIONAL_SLASHING_MULTIPLIER_ALTAIR: uint64(s.PROPORTIONAL_SLASHING_MULTIPLIER_ALTAIR),
		SYNC_COMMITTEE_SIZE: uint64(s.SYNC_COMMITTEE_SIZE), EPOCHS_PER_SYNC_COMMITTEE_PERIOD: uint64(s.EPOCHS_PER_SYNC_COMMITTEE_PERIOD),
		INACTIVITY_PENALTY_QUOTIENT_BELLATRIX: uint64(s.INACTIVITY_PENALTY_QUOTIENT_BELLATRIX), MIN_SLASHING_PENALTY_QUOTIENT_BELLATRIX: uint64(s.MIN_SLASHING_PENALTY_QUOTIENT_BELLATRIX),
		PROPORTIONAL_SLASHING_MULTIPLIER_BELLATRIX: uint64(s.PROPORTIONAL_SLASHING_MULTIPLIER_BELLATRIX),
		MAX_BYTES_PER_TRANSACTION:                  uint64(s.MAX_BYTES_PER_TRANSACTION), MAX_TRANSACTIONS_PER_PAYLOAD: uint64(s.MAX_TRANSACTIONS_PER_PAYLOAD), BYTES_PER_LOGS_BLOOM: uint64(s.BYTES_PER_LOGS_BLOOM), MAX_EXTRA_DATA_BYTES: uint64(s.MAX_EXTRA_DATA_BYTES),
		MAX_BLS_TO_EXECUTION_CHANGES: uint64(s.MAX_BLS_TO_EXECUTION_CHANGES), MAX_WITHDRAWALS_PER_PAYLOAD: uint64(s.MAX_WITHDRAWALS_PER_PAYLOAD), MAX_VALIDATORS_PER_WITHDRAWALS_SWEEP: uint64(s.MAX_VALIDATORS_PER_WITHDRAWALS_SWEEP),
		MAX_BLOB_COMMITMENTS_PER_BLOCK: uint64(s.MAX_BLOB_COMMITMENTS_PER_BLOCK), MAX_BLOBS_PER_BLOCK: uint64(s.MAX_BLOBS_PER_BLOCK),
		MIN_GENESIS_ACTIVE_VALIDATOR_COUNT: uint64(s.MIN_GENESIS_ACTIVE_VALIDATOR_COUNT), MIN_GENESIS_TIME: uint64(s.MIN_GENESIS_TIME), GENESIS_DELAY: uint64(s.GENESIS_DELAY),
		SECONDS_PER_SLOT: uint64(s.SECONDS_PER_SLOT), MIN_VALIDATOR_WITHDRAWABILITY_DELAY: uint64(s.MIN_VALIDATOR_WITHDRAWABILITY_DELAY), SHARD_COMMITTEE_PERIOD: uint64(s.SHARD_COMMITTEE_PERIOD),
		INACTIVITY_SCORE_BIAS: uint64(s.INACTIVITY_SCORE_BIAS), INACTIVITY_SCORE_RECOVERY_RATE: uint64(s.INACTIVITY_SCORE_RECOVERY_RATE), EJECTION_BALANCE: uint64(s.EJECTION_BALANCE),
		MIN_PER_EPOCH_CHURN_LIMIT: uint64(s.MIN_PER_EPOCH_CHURN_LIMIT), CHURN_LIMIT_QUOTIENT: uint64(s.CHURN_LIMIT_QUOTIENT), MAX_PER_EPOCH_ACTIVATION_CHURN_LIMIT: uint64(s.MAX_PER_EPOCH_ACTIVATION_CHURN_LIMIT),
	}
	p.ForkVersions = [5][4]byte{s.GENESIS_FORK_VERSION, s.ALTAIR_FORK_VERSION, s.BELLATRIX_FORK_VERSION, s.CAPELLA_FORK_VERSION, s.DENEB_FORK_VERSION}
	p.ForkEpochs = [5]uint64{0, uint64(s.ALTAIR_FORK_EPOCH), uint64(s.BELLATRIX_FORK_EPOCH), uint64(s.CAPELLA_FORK_EPOCH), uint64(s.DENEB_FORK_EPOCH)}
	return p
}

// ---------------------------------------------------------------------------------------
// plain types (field order = SSZ field order, so refssz.FromGo maps them positionally)

type Fork struct {
	PreviousVersion [4]byte
	CurrentVersion  [4]byte
	Epoch           uint64
}

type Checkpoint struct {
	Epoch uint64
	Root  Root
}

type Validator struct {
	Pubkey                     [48]byte
	WithdrawalCredentials      Root
	EffectiveBalance           uint64
	Slashed                    bool
	ActivationEligibilityEpoch uint64
	ActivationEpoch            uint64
	ExitEpoch                  uint64
	WithdrawableEpoch          uint64
}

type AttestationData struct {
	Slot            uint64
	Index           uint64
	BeaconBlockRoot Root
	Source          Checkpoint
	Target          Checkpoint
}

type IndexedAttestation struct {
	AttestingIndices []uint64
	Data             AttestationData
	Signature        [96]byte
}

type PendingAttestation struct {
	AggregationBits []bool
	Data            AttestationData
	InclusionDelay  uint64
	ProposerIndex   uint64
}

type Eth1Data struct {
	DepositRoot  Root
	DepositCount uint64
	BlockHash    Root
}

type DepositData struct {
	Pubkey                [48]byte
	WithdrawalCredentials Root
	Amount                uint64
	Signature             [96]byte
}

type DepositMessage struct {
	Pubkey                [48]byte
	WithdrawalCredentials Root
	Amount                uint64
}

type Header struct {
	Slot          uint64
	ProposerIndex uint64
	ParentRoot    Root
	StateRoot     Root
	BodyRoot      Root
}

type SignedHeader struct {
	Message   Header
	Signature [96]byte
}

type ProposerSlashing struct {
	SignedHeader1 SignedHeader
	SignedHeader2 SignedHeader
}

type AttesterSlashing struct {
	Attestation1 IndexedAttestation
	Attestation2 IndexedAttestation
}

type Attestation struct {
	AggregationBits []bool
	Data            AttestationData
	Signature       [96]byte
}

type Deposit struct {
	Proof [33]Root
	Data  DepositData
}

type VoluntaryExit struct {
	Epoch          uint64
	ValidatorIndex uint64
}

type SignedVoluntaryExit struct {
	Message   VoluntaryExit
	Signature [96]byte
}

type SyncAggregate struct {
	SyncCommitteeBits      []bool
	SyncCommitteeSignature [96]byte
}

type SyncCommittee struct {
	Pubkeys         [][48]byte
	AggregatePubkey [48]byte
}

type Withdrawal struct {
	Index          uint64
	ValidatorIndex uint64
	Address        [20]byte
	Amount         uint64
}

type BLSToExecutionChange struct {
	ValidatorIndex     uint64
	FromBLSPubkey      [48]byte
	ToExecutionAddress [20]byte
}

type SignedBLSToExecutionChange struct {
	Message   BLSToExecutionChange
	Signature [96]byte
}

type HistoricalSummary struct {
	BlockSummaryRoot Root
	StateSummaryRoot Root
}

// ExecutionPayload / header: unified over bellatrix..deneb.
type ExecutionPayload struct {
	ParentHash    Root
	FeeRecipient  [20]byte
	StateRoot     Root
	ReceiptsRoot  Root
	LogsBloom     []byte // BYTES_PER_LOGS_BLOOM
	PrevRandao    Root
	BlockNumber   uint64
	GasLimit      uint64
	GasUsed       uint64
	Timestamp     uint64
	ExtraData     []byte
	BaseFeePerGas [32]byte // uint256 little endian
	BlockHash     Root
	Transactions  [][]byte
	Withdrawals   []Withdrawal // capella+
	BlobGasUsed   uint64       // deneb+
	ExcessBlobGas uint64       // deneb+
}

type ExecutionPayloadHeader struct {
	ParentHash       Root
	FeeRecipient     [20]byte
	StateRoot        Root
	ReceiptsRoot     Root
	LogsBloom        []byte
	PrevRandao       Root
	BlockNumber      uint64
	GasLimit         uint64
	GasUsed          uint64
	Timestamp        uint64
	ExtraData        []byte
	BaseFeePerGas    [32]byte
	BlockHash        Root
	TransactionsRoot Root
	WithdrawalsRoot  Root   // capella+
	BlobGasUsed      uint64 // deneb+
	ExcessBlobGas    uint64 // deneb+
}

// Body: unified block body over all forks.
type Body struct {
	RandaoReveal          [96]byte
	Eth1Data              Eth1Data
	Graffiti              Root
	ProposerSlashings     []ProposerSlashing
	AttesterSlashings     []AttesterSlashing
	Attestations          []Attestation
	Deposits              []Deposit
	VoluntaryExits        []SignedVoluntaryExit
	SyncAggregate         SyncAggregate                // altair+
	ExecutionPayload      ExecutionPayload             // bellatrix+
	BLSToExecutionChanges []SignedBLSToExecutionChange // capella+
	BlobKZGCommitments    [][48]byte                   // deneb+
}

type Block struct {
	Fork          int
	Slot          uint64
	ProposerIndex uint64
	ParentRoot    Root
	StateRoot     Root
	Body          Body
}

type SignedBlock struct {
	Message   Block
	Signature [96]byte
}

// State: unified beacon state over all forks.
type State struct {
	Fork                  int
	GenesisTime           uint64
	GenesisValidatorsRoot Root
	Slot                  uint64
	ForkData              Fork
	LatestBlockHeader     Header
	BlockRoots            []Root
	StateRoots            []Root
	HistoricalRoots       []Root
	Eth1Data              Eth1Data
	Eth1DataVotes         []Eth1Data
	Eth1DepositIndex      uint64
	Validators            []Validator
	Balances              []uint64
	RandaoMixes           []Root
	Slashings             []uint64
	// phase0
	PreviousEpochAttestations []PendingAttestation
	CurrentEpochAttestations  []PendingAttestation
	// altair+
	PreviousEpochParticipation  []uint8
	CurrentEpochParticipation   []uint8
	JustificationBits           []bool // 4
	PreviousJustifiedCheckpoint Checkpoint
	CurrentJustifiedCheckpoint  Checkpoint
	FinalizedCheckpoint         Checkpoint
	InactivityScores            []uint64
	CurrentSyncCommittee        SyncCommittee
	NextSyncCommittee           SyncCommittee
	// bellatrix+
	LatestExecutionPayloadHeader ExecutionPayloadHeader
	// capella+
	NextWithdrawalIndex          uint64
	NextWithdrawalValidatorIndex uint64
	HistoricalSummaries          []HistoricalSummary
}

// ---------------------------------------------------------------------------------------
// schemas

type Schemas struct {
	P                                                                                       *P
	Fork, ForkData, Checkpoint, Validator, AttestationData, IndexedAttestation, Pending     *refssz.Schema
	Eth1Data, DepositData, DepositMessage, Header, SignedHeader, ProposerSlashing           *refssz.Schema
	AttesterSlashing, Attestation, Deposit, VoluntaryExit, SignedVoluntaryExit              *refssz.Schema
	SyncAggregate, SyncCommittee, Withdrawal, BLSChange, SignedBLSChange, HistoricalSummary *refssz.Schema
	SigningData, HistoricalBatch, DepositDataList                                           *refssz.Schema
	Payload, PayloadHeader, Body, Block, SignedBlock, State                                 [5]*refssz.Schema
}

func NewSchemas(p *P) *Schemas {
	s := &Schemas{P: p}
	F, C, U64, B32, B48, B96 := refssz.F, refssz.C, refssz.U64, refssz.B32, refssz.B48, refssz.B96
	s.Fork = C("Fork", F("previous_version", refssz.B4), F("current_version", refssz.B4), F("epoch", U64))
	s.ForkData = C("ForkData", F("current_version", refssz.B4), F("genesis_validators_root", B32))
	s.Checkpoint = C("Checkpoint", F("epoch", U64), F("root", B32))
	s.Validator = C("Validator", F("pubkey", B48), F("withdrawal_credentials", B32), F("effective_balance", U64), F("slashed", refssz.Boolean),
		F("activation_eligibility_epoch", U64), F("activation_epoch", U64), F("exit_epoch", U64), F("withdrawable_epoch", U64))
	s.AttestationData = C("AttestationData", F("slot", U64), F("index", U64), F("beacon_block_root", B32), F("source", s.Checkpoint), F("target", s.Checkpoint))
	s.IndexedAttestation = C("IndexedAttestation", F("attesting_indices", refssz.Lst(U64, p.MAX_VALIDATORS_PER_COMMITTEE)), F("data", s.AttestationData), F("signature", B96))
	s.Pending = C("PendingAttestation", F("aggregation_bits", refssz.BitLst(p.MAX_VALIDATORS_PER_COMMITTEE)), F("data", s.AttestationData), F("inclusion_delay", U64), F("proposer_index", U64))
	s.Eth1Data = C("Eth1Data", F("deposit_root", B32), F("deposit_count", U64), F("block_hash", B32))
	s.DepositData = C("DepositData", F("pubkey", B48), F("withdrawal_credentials", B32), F("amount", U64), F("signature", B96))
	s.DepositMessage = C("DepositMessage", F("pubkey", B48), F("withdrawal_credentials", B32), F("amount", U64))
	s.Header = C("BeaconBlockHeader", F("slot", U64), F("proposer_index", U64), F("parent_root", B32), F("state_root", B32), F("body_root", B32))
	s.SignedHeader = C("SignedBeaconBlockHeader", F("message", s.Header), F("signature", B96))
	s.ProposerSlashing = C("ProposerSlashing", F("signed_header_1", s.SignedHeader), F("signed_header_2", s.SignedHeader))
	s.AttesterSlashing = C("AttesterSlashing", F("attestation_1", s.IndexedAttestation), F("attestation_2", s.IndexedAttestation))
	s.Attestation = C("Attestation", F("aggregation_bits", refssz.BitLst(p.MAX_VALIDATORS_PER_COMMITTEE)), F("data", s.AttestationData), F("signature", B96))
	s.Deposit = C("Deposit", F("proof", refssz.Vec(B32, 33)), F("data", s.DepositData))
	s.VoluntaryExit = C("VoluntaryExit", F("epoch", U64), F("validator_index", U64))
	s.SignedVoluntaryExit = C("SignedVoluntaryExit", F("message", s.VoluntaryExit), F("signature", B96))
	s.SyncAggregate = C("SyncAggregate", F("sync_committee_bits", refssz.BitVec(p.SYNC_COMMITTEE_SIZE)), F("sync_committee_signature", B96))
	s.SyncCommittee = C("SyncCommittee", F("pubkeys", refssz.Vec(B48, p.SYNC_COMMITTEE_SIZE)), F("aggregate_pubkey", B48))
	s.Withdrawal = C("Withdrawal", F("index", U64), F("validator_index", U64), F("address", refssz.B20), F("amount", U64))
	s.BLSChange = C("BLSToExecutionChange", F("validator_index", U64), F("from_bls_pubkey", B48), F("to_execution_address", refssz.B20))
	s.SignedBLSChange = C("SignedBLSToExecutionChange", F("message", s.BLSChange), F("signature", B96))
	s.HistoricalSummary = C("HistoricalSummary", F("block_summary_root", B32), F("state_summary_root", B32))
	s.SigningData = C("SigningData", F("object_root", B32), F("domain", B32))
	s.HistoricalBatch = C("HistoricalBatch", F("block_roots", refssz.Vec(B32, p.SLOTS_PER_HISTORICAL_ROOT)), F("state_roots", refssz.Vec(B32, p.SLOTS_PER_HISTORICAL_ROOT)))
	s.DepositDataList = refssz.Lst(s.DepositData, 1<<32)

	for fork := Phase0; fork <= Deneb; fork++ {
		if fork >= Bellatrix {
			pf := []refssz.Field{F("parent_hash", B32), F("fee_recipient", refssz.B20), F("state_root", B32), F("receipts_root", B32), F("logs_bloom", refssz.B(p.BYTES_PER_LOGS_BLOOM)),
				F("prev_randao", B32), F("block_number", U64), F("gas_limit", U64), F("gas_used", U64), F("timestamp", U64), F("extra_data", refssz.BL(p.MAX_EXTRA_DATA_BYTES)),
				F("base_fee_per_gas", refssz.U256), F("block_hash", B32)}
			hf := append([]refssz.Field{}, pf...)
			pf = append(pf, F("transactions", refssz.Lst(refssz.BL(p.MAX_BYTES_PER_TRANSACTION), p.MAX_TRANSACTIONS_PER_PAYLOAD)))
			hf = append(hf, F("transactions_root", B32))
			if fork >= Capella {
				pf = append(pf, F("withdrawals", refssz.Lst(s.Withdrawal, p.MAX_WITHDRAWALS_PER_PAYLOAD)))
				hf = append(hf, F("withdrawals_root", B32))
			}
			if fork >= Deneb {
				pf = append(pf, F("blob_gas_used", U64), F("excess_blob_gas", U64))
				hf = append(hf, F("blob_gas_used", U64), F("excess_blob_gas", U64))
			}
			s.Payload[fork] = C("ExecutionPayload", pf...)
			s.PayloadHeader[fork] = C("ExecutionPayloadHeader", hf...)
		}
		bf := []refssz.Field{F("randao_reveal", B96), F("eth1_data", s.Eth1Data), F("graffiti", B32),
			F("proposer_slashings", refssz.Lst(s.ProposerSlashing, p.MAX_PROPOSER_SLASHINGS)), F("attester_slashings", refssz.Lst(s.AttesterSlashing, p.MAX_ATTESTER_SLASHINGS)),
			F("attestations", refssz.Lst(s.Attestation, p.MAX_ATTESTATIONS)), F("deposits", refssz.Lst(s.Deposit, p.MAX_DEPOSITS)), F("voluntary_exits", refssz.Lst(s.SignedVoluntaryExit, p.MAX_VOLUNTARY_EXITS))}
		if fork >= Altair {
			bf = append(bf, F("sync_aggregate", s.SyncAggregate))
		}
		if fork >= Bellatrix {
			bf = append(bf, F("execution_payload", s.Payload[fork]))
		}
		if fork >= Capella {
			bf = append(bf, F("bls_to_execution_changes", refssz.Lst(s.SignedBLSChange, p.MAX_BLS_TO_EXECUTION_CHANGES)))
		}
		if fork >= Deneb {
			bf = append(bf, F("blob_kzg_commitments", refssz.Lst(B48, p.MAX_BLOB_COMMITMENTS_PER_BLOCK)))
		}
		s.Body[fork] = C("BeaconBlockBody", bf...)
		s.Block[fork] = C("BeaconBlock", F("slot", U64), F("proposer_index", U64), F("parent_root", B32), F("state_root", B32), F("body", s.Body[fork]))
		s.SignedBlock[fork] = C("SignedBeaconBlock", F("message", s.Block[fork]), F("signature", B96))

		sf := []refssz.Field{F("genesis_time", U64), F("genesis_validators_root", B32), F("slot", U64), F("fork", s.Fork), F("latest_block_header", s.Header),
			F("block_roots", refssz.Vec(B32, p.SLOTS_PER_HISTORICAL_ROOT)), F("state_roots", refssz.Vec(B32, p.SLOTS_PER_HISTORICAL_ROOT)), F("historical_roots", refssz.Lst(B32, p.HISTORICAL_ROOTS_LIMIT)),
			F("eth1_data", s.Eth1Data), F("eth1_data_votes", refssz.Lst(s.Eth1Data, p.EPOCHS_PER_ETH1_VOTING_PERIOD*p.SLOTS_PER_EPOCH)), F("eth1_deposit_index", U64),
			F("validators", refssz.Lst(s.Validator, p.VALIDATOR_REGISTRY_LIMIT)), F("balances", refssz.Lst(U64, p.VALIDATOR_REGISTRY_LIMIT)),
			F("randao_mixes", refssz.Vec(B32, p.EPOCHS_PER_HISTORICAL_VECTOR)), F("slashings", refssz.Vec(U64, p.EPOCHS_PER_SLASHINGS_VECTOR))}
		if fork == Phase0 {
			sf = append(sf, F("previous_epoch_attestations", refssz.Lst(s.Pending, p.MAX_ATTESTATIONS*p.SLOTS_PER_EPOCH)), F("current_epoch_attestations", refssz.Lst(s.Pending, p.MAX_ATTESTATIONS*p.SLOTS_PER_EPOCH)))
		} else {
			sf = append(sf, F("previous_epoch_participation", refssz.Lst(refssz.U8, p.VALIDATOR_REGISTRY_LIMIT)), F("current_epoch_participation", refssz.Lst(refssz.U8, p.VALIDATOR_REGISTRY_LIMIT)))
		}
		sf = append(sf, F("justification_bits", refssz.BitVec(4)), F("previous_justified_checkpoint", s.Checkpoint), F("current_justified_checkpoint", s.Checkpoint), F("finalized_checkpoint", s.Checkpoint))
		if fork >= Altair {
			sf = append(sf, F("inactivity_scores", refssz.Lst(U64, p.VALIDATOR_REGISTRY_LIMIT)), F("current_sync_committee", s.SyncCommittee), F("next_sync_committee", s.SyncCommittee))
		}
		if fork >= Bellatrix {
			sf = append(sf, F("latest_execution_payload_header", s.PayloadHeader[fork]))
		}
		if fork >= Capella {
			sf = append(sf, F("next_withdrawal_index", U64), F("next_withdrawal_validator_index", U64), F("historical_summaries", refssz.Lst(s.HistoricalSummary, p.HISTORICAL_ROOTS_LIMIT)))
		}
		s.State[fork] = C("BeaconState", sf...)
	}
	return s
}

// ---------------------------------------------------------------------------------------
// unified values -> refssz values (field selection per fork)

func (s *Schemas) PayloadValue(fork int, x *ExecutionPayload) *refssz.Value {
	sc := s.Payload[fork]
	items := []any{x.ParentHash, x.FeeRecipient, x.StateRoot, x.ReceiptsRoot, x.LogsBloom, x.PrevRandao, x.BlockNumber, x.GasLimit, x.GasUsed, x.Timestamp, x.ExtraData, x.BaseFeePerGas, x.BlockHash, x.Transactions}
	if fork >= Capella {
		items = append(items, x.Withdrawals)
	}
	if fork >= Deneb {
		items = append(items, x.BlobGasUsed, x.ExcessBlobGas)
	}
	return pack(sc, items)
}

func (s *Schemas) PayloadHeaderValue(fork int, x *ExecutionPayloadHeader) *refssz.Value {
	sc := s.PayloadHeader[fork]
	items := []any{x.ParentHash, x.FeeRecipient, x.StateRoot, x.ReceiptsRoot, x.LogsBloom, x.PrevRandao, x.BlockNumber, x.GasLimit, x.GasUsed, x.Timestamp, x.ExtraData, x.BaseFeePerGas, x.BlockHash, x.TransactionsRoot}
	if fork >= Capella {
		items = append(items, x.WithdrawalsRoot)
	}
	if fork >= Deneb {
		items = append(items, x.BlobGasUsed, x.ExcessBlobGas)
	}
	return pack(sc, items)
}

func pack(sc *refssz.Schema, items []any) *refssz.Value {
	if len(items) != len(sc.Fields) {
		panic("refspec: field count mismatch for " + sc.Name)
	}
	v := &refssz.Value{Items: make([]*refssz.Value, len(items))}
	for i, it := range items {
		if pv, ok := it.(*refssz.Value); ok {
			v.Items[i] = pv
		} else {
			v.Items[i] = refssz.FromGo(sc.Fields[i].S, it)
		}
	}
	return v
}

func (s *Schemas) BodyValue(fork int, b *Body) *refssz.Value {
	items := []any{b.RandaoReveal, b.Eth1Data, b.Graffiti, b.ProposerSlashings, b.AttesterSlashings, b.Attestations, b.Deposits, b.VoluntaryExits}
	if fork >= Altair {
		items = append(items, b.SyncAggregate)
	}
	if fork >= Bellatrix {
		items = append(items, s.PayloadValue(fork, &b.ExecutionPayload))
	}
	if fork >= Capella {
		items = append(items, b.BLSToExecutionChanges)
	}
	if fork >= Deneb {
		items = append(items, b.BlobKZGCommitments)
	}
	return pack(s.Body[fork], items)
}

func (s *Schemas) BlockValue(b *Block) *refssz.Value {
	return pack(s.Block[b.Fork], []any{b.Slot, b.ProposerIndex, b.ParentRoot, b.StateRoot, s.BodyValue(b.Fork, &b.Body)})
}

func (s *Schemas) SignedBlockValue(b *SignedBlock) *refssz.Value {
	return pack(s.SignedBlock[b.Message.Fork], []any{s.BlockValue(&b.Message), b.Signature})
}

func (s *Schemas) BlockRoot(b *Block) Root {
	return refssz.HashTreeRoot(s.Block[b.Fork], s.BlockValue(b))
}

func (s *Schemas) BodyRoot(fork int, b *Body) Root {
	return refssz.HashTreeRoot(s.Body[fork], s.BodyValue(fork, b))
}

func (s *Schemas) SignedBlockBytes(b *SignedBlock) []byte {
	return refssz.Encode(s.SignedBlock[b.Message.Fork], s.SignedBlockValue(b))
}

func (s *Schemas) StateValue(st *State) *refssz.Value {
	f := st.Fork
	items := []any{st.GenesisTime, st.GenesisValidatorsRoot, st.Slot, st.ForkData, st.LatestBlockHeader, st.BlockRoots, st.StateRoots, st.HistoricalRoots,
		st.Eth1Data, st.Eth1DataVotes, st.Eth1DepositIndex, st.Validators, st.Balances, st.RandaoMixes, st.Slashings}
	if f == Phase0 {
		items = append(items, st.PreviousEpochAttestations, st.CurrentEpochAttestations)
	} else {
		items = append(items, st.PreviousEpochParticipation, st.CurrentEpochParticipation)
	}
	items = append(items, st.JustificationBits, st.PreviousJustifiedCheckpoint, st.CurrentJustifiedCheckpoint, st.FinalizedCheckpoint)
	if f >= Altair {
		items = append(items, st.InactivityScores, st.CurrentSyncCommittee, st.NextSyncCommittee)
	}
	if f >= Bellatrix {
		items = append(items, s.PayloadHeaderValue(f, &st.LatestExecutionPayloadHeader))
	}
	if f >= Capella {
		items = append(items, st.NextWithdrawalIndex, st.NextWithdrawalValidatorIndex, st.HistoricalSummaries)
	}
	return pack(s.State[f], items)
}

func (s *Schemas) StateRoot(st *State) Root {
	return refssz.HashTreeRoot(s.State[st.Fork], s.StateValue(st))
}

func (s *Schemas) StateBytes(st *State) []byte {
	return refssz.Encode(s.State[st.Fork], s.StateValue(st))
}
