package refspec

import (
	"sort"

	"verif/refssz"
)

// ---------------------------------------------------------------------------------------
// slots

func (sp *Spec) ProcessSlot(st *State) {
	prevStateRoot := sp.S.StateRoot(st)
	st.StateRoots[st.Slot%sp.SLOTS_PER_HISTORICAL_ROOT] = prevStateRoot
	if st.LatestBlockHeader.StateRoot == (Root{}) {
		st.LatestBlockHeader.StateRoot = prevStateRoot
	}
	prevBlockRoot := refssz.RootOf(sp.S.Header, st.LatestBlockHeader)
	st.BlockRoots[st.Slot%sp.SLOTS_PER_HISTORICAL_ROOT] = prevBlockRoot
}

// ProcessSlots = process_slots including the in-place fork upgrades at their configured epochs.
func (sp *Spec) ProcessSlots(st *State, slot uint64) error {
	if !(st.Slot < slot) {
		return reject("process_slots: state.slot %d >= slot %d", st.Slot, slot)
	}
	for st.Slot < slot {
		sp.ProcessSlot(st)
		if (st.Slot+1)%sp.SLOTS_PER_EPOCH == 0 {
			if err := sp.ProcessEpoch(st); err != nil {
				return err
			}
		}
		st.Slot++
		if st.Slot%sp.SLOTS_PER_EPOCH == 0 {
			epoch := sp.EpochAtSlot(st.Slot)
			for f := Altair; f <= Deneb; f++ {
				if st.Fork == f-1 && epoch == sp.ForkEpochs[f] {
					if err := sp.Upgrade(st, f); err != nil {
						return err
					}
				}
			}
		}
	}
	return nil
}

// ---------------------------------------------------------------------------------------
// epoch

func (sp *Spec) ProcessEpoch(st *State) error {
	if err := sp.processJustificationAndFinalization(st); err != nil {
		return err
	}
	if st.Fork >= Altair {
		sp.processInactivityUpdates(st)
	}
	if err := sp.processRewardsAndPenalties(st); err != nil {
		return err
	}
	sp.processRegistryUpdates(st)
	sp.processSlashings(st)
	sp.processEth1DataReset(st)
	sp.processEffectiveBalanceUpdates(st)
	sp.processSlashingsReset(st)
	sp.processRandaoMixesReset(st)
	sp.processHistoricalUpdate(st)
	if st.Fork == Phase0 {
		st.PreviousEpochAttestations = st.CurrentEpochAttestations
		st.CurrentEpochAttestations = nil
	} else {
		st.PreviousEpochParticipation = st.CurrentEpochParticipation
		st.CurrentEpochParticipation = make([]uint8, len(st.Validators))
		if err := sp.processSyncCommitteeUpdates(st); err != nil {
			return err
		}
	}
	return nil
}

// ---- phase0 attestation helpers

func (sp *Spec) matchingSourceAttestations(st *State, epoch uint64) []PendingAttestation {
	if epoch == sp.CurrentEpoch(st) {
		return st.CurrentEpochAttestations
	}
	return st.PreviousEpochAttestations
}

func (sp *Spec) matchingTargetAttestations(st *State, epoch uint64) ([]PendingAttestation, error) {
	root, err := sp.BlockRoot(st, epoch)
	if err != nil {
		return nil, err
	}
	var out []PendingAttestation
	for _, a := range sp.matchingSourceAttestations(st, epoch) {
		if a.Data.Target.Root == root {
			out = append(out, a)
		}
	}
	return out, nil
}

func (sp *Spec) matchingHeadAttestations(st *State, epoch uint64) ([]PendingAttestation, error) {
	target, err := sp.matchingTargetAttestations(st, epoch)
	if err != nil {
		return nil, err
	}
	var out []PendingAttestation
	for _, a := range target {
		r, err := sp.BlockRootAtSlot(st, a.Data.Slot)
		if err != nil {
			return nil, err
		}
		if a.Data.BeaconBlockRoot == r {
			out = append(out, a)
		}
	}
	return out, nil
}

func (sp *Spec) unslashedAttestingIndices(st *State, atts []PendingAttestation) map[uint64]bool {
	out := map[uint64]bool{}
	for i := range atts {
		for _, idx := range sp.AttestingIndices(st, &atts[i].Data, atts[i].AggregationBits) {
			if !st.Validators[idx].Slashed {
				out[idx] = true
			}
		}
	}
	return out
}

func setToList(s map[uint64]bool) []uint64 {
	out := make([]uint64, 0, len(s))
	for k := range s {
		out = append(out, k)
	}
	sort.Slice(out, func(i, j int) bool { return out[i] < out[j] })
	return out
}

func (sp *Spec) attestingBalance(st *State, atts []PendingAttestation) uint64 {
	return sp.TotalBalance(st, setToList(sp.unslashedAttestingIndices(st, atts)))
}

// ---- altair participation helper

func (sp *Spec) unslashedParticipatingIndices(st *State, flagIndex uint, epoch uint64) map[uint64]bool {
	part := st.PreviousEpochParticipation
	if epoch == sp.CurrentEpoch(st) {
		part = st.CurrentEpochParticipation
	}
	out := map[uint64]bool{}
	for _, i := range sp.ActiveIndices(st, epoch) {
		if part[i]&(1<<flagIndex) != 0 && !st.Validators[i].Slashed {
			out[i] = true
		}
	}
	return out
}

// ---- justification and finalization

func (sp *Spec) processJustificationAndFinalization(st *State) error {
	if sp.CurrentEpoch(st) <= 1 {
		return nil
	}
	prev, cur := sp.PreviousEpoch(st), sp.CurrentEpoch(st)
	total := sp.TotalActiveBalance(st)
	var prevTarget, curTarget uint64
	if st.Fork == Phase0 {
		pa, err := sp.matchingTargetAttestations(st, prev)
		if err != nil {
			return err
		}
		ca, err := sp.matchingTargetAttestations(st, cur)
		if err != nil {
			return err
		}
		prevTarget = sp.attestingBalance(st, pa)
		curTarget = sp.attestingBalance(st, ca)
	} else {
		prevTarget = sp.TotalBalance(st, setToList(sp.unslashedParticipatingIndices(st, TIMELY_TARGET_FLAG_INDEX, prev)))
		curTarget = sp.TotalBalance(st, setToList(sp.unslashedParticipatingIndices(st, TIMELY_TARGET_FLAG_INDEX, cur)))
	}
	return sp.weighJustificationAndFinalization(st, total, prevTarget, curTarget)
}

func (sp *Spec) weighJustificationAndFinalization(st *State, total, prevTarget, curTarget uint64) error {
	prev, cur := sp.PreviousEpoch(st), sp.CurrentEpoch(st)
	oldPrevJ := st.PreviousJustifiedCheckpoint
	oldCurJ := st.CurrentJustifiedCheckpoint
	st.PreviousJustifiedCheckpoint = st.CurrentJustifiedCheckpoint
	bits := append([]bool{false}, st.JustificationBits[:3]...)
	if prevTarget*3 >= total*2 {
		r, err := sp.BlockRoot(st, prev)
		if err != nil {
			return err
		}
		st.CurrentJustifiedCheckpoint = Checkpoint{Epoch: prev, Root: r}
		bits[1] = true
	}
	if curTarget*3 >= total*2 {
		r, err := sp.BlockRoot(st, cur)
		if err != nil {
			return err
		}
		st.CurrentJustifiedCheckpoint = Checkpoint{Epoch: cur, Root: r}
		bits[0] = true
	}
	st.JustificationBits = bits
	if bits[1] && bits[2] && bits[3] && oldPrevJ.Epoch+3 == cur {
		st.FinalizedCheckpoint = oldPrevJ
		sp.observe("finalize_rule_1_bits234_source4")
	}
	if bits[1] && bits[2] && oldPrevJ.Epoch+2 == cur {
		st.FinalizedCheckpoint = oldPrevJ
		sp.observe("finalize_rule_2_bits23_source3")
	}
	if bits[0] && bits[1] && bits[2] && oldCurJ.Epoch+2 == cur {
		st.FinalizedCheckpoint = oldCurJ
		if oldPrevJ.Epoch != oldCurJ.Epoch {
			sp.observe("finalize_rule_3_with_old_previous_ne_old_current")
		}
		sp.observe("finalize_rule_3_bits123_source3")
	}
	if bits[0] && bits[1] && oldCurJ.Epoch+1 == cur {
		sp.observe("finalize_rule_4_bits12_source2")
		st.FinalizedCheckpoint = oldCurJ
	}
	return nil
}

// ---- rewards and penalties

func (sp *Spec) finalityDelay(st *State) uint64 {
	return sp.PreviousEpoch(st) - st.FinalizedCheckpoint.Epoch
}

func (sp *Spec) isInInactivityLeak(st *State) bool {
	return sp.finalityDelay(st) > sp.MIN_EPOCHS_TO_INACTIVITY_PENALTY
}

func (sp *Spec) eligibleValidatorIndices(st *State) []uint64 {
	prev := sp.PreviousEpoch(st)
	var out []uint64
	for i := range st.Validators {
		v := &st.Validators[i]
		if IsActive(v, prev) || (v.Slashed && prev+1 < v.WithdrawableEpoch) {
			out = append(out, uint64(i))
		}
	}
	return out
}

func (sp *Spec) baseRewardPhase0(st *State, index uint64) uint64 {
	total := sp.TotalActiveBalance(st)
	return st.Validators[index].EffectiveBalance * sp.BASE_REWARD_FACTOR / IntegerSquareroot(total) / BASE_REWARDS_PER_EPOCH
}

func (sp *Spec) proposerRewardPhase0(st *State, index uint64) uint64 {
	return sp.baseRewardPhase0(st, index) / sp.PROPOSER_REWARD_QUOTIENT
}

func (sp *Spec) baseRewardPerIncrement(st *State) uint64 {
	return sp.EFFECTIVE_BALANCE_INCREMENT * sp.BASE_REWARD_FACTOR / IntegerSquareroot(sp.TotalActiveBalance(st))
}

func (sp *Spec) BaseRewardAltair(st *State, index uint64) uint64 {
	return st.Validators[index].EffectiveBalance / sp.EFFECTIVE_BALANCE_INCREMENT * sp.baseRewardPerIncrement(st)
}

func (sp *Spec) componentDeltas(st *State, atts []PendingAttestation, rewards, penalties []uint64) {
	total := sp.TotalActiveBalance(st)
	unslashed := sp.unslashedAttestingIndices(st, atts)
	attBal := sp.TotalBalance(st, setToList(unslashed))
	for _, index := range sp.eligibleValidatorIndices(st) {
		if unslashed[index] {
			incr := sp.EFFECTIVE_BALANCE_INCREMENT
			if sp.isInInactivityLeak(st) {
				rewards[index] += sp.baseRewardPhase0(st, index)
			} else {
				num := sp.baseRewardPhase0(st, index) * (attBal / incr)
				rewards[index] += num / (total / incr)
			}
		} else {
			penalties[index] += sp.baseRewardPhase0(st, index)
		}
	}
}

func (sp *Spec) attestationDeltasPhase0(st *State) ([]uint64, []uint64, error) {
	n := len(st.Validators)
	rewards, penalties := make([]uint64, n), make([]uint64, n)
	prev := sp.PreviousEpoch(st)
	src := sp.matchingSourceAttestations(st, prev)
	tgt, err := sp.matchingTargetAttestations(st, prev)
	if err != nil {
		return nil, nil, err
	}
	head, err := sp.matchingHeadAttestations(st, prev)
	if err != nil {
		return nil, nil, err
	}
	sp.componentDeltas(st, src, rewards, penalties)
	sp.componentDeltas(st, tgt, rewards, penalties)
	sp.componentDeltas(st, head, rewards, penalties)
	// inclusion delay
	for _, index := range setToList(sp.unslashedAttestingIndices(st, src)) {
		var best *PendingAttestation
		for i := range src {
			a := &src[i]
			in := false
			for _, x := range sp.AttestingIndices(st, &a.Data, a.AggregationBits) {
				if x == index {
					in = true
					break
				}
			}
			if in && (best == nil || a.InclusionDelay < best.InclusionDelay) {
				best = a
			}
		}
		rewards[best.ProposerIndex] += sp.proposerRewardPhase0(st, index)
		maxAttesterReward := sp.baseRewardPhase0(st, index) - sp.proposerRewardPhase0(st, index)
		rewards[index] += maxAttesterReward / best.InclusionDelay
	}
	// inactivity
	if sp.isInInactivityLeak(st) {
		tgtIdx := sp.unslashedAttestingIndices(st, tgt)
		for _, index := range sp.eligibleValidatorIndices(st) {
			base := sp.baseRewardPhase0(st, index)
			penalties[index] += BASE_REWARDS_PER_EPOCH*base - sp.proposerRewardPhase0(st, index)
			if !tgtIdx[index] {
				eff := st.Validators[index].EffectiveBalance
				penalties[index] += eff * sp.finalityDelay(st) / sp.INACTIVITY_PENALTY_QUOTIENT
			}
		}
	}
	return rewards, penalties, nil
}

func (sp *Spec) processInactivityUpdates(st *State) {
	if sp.CurrentEpoch(st) == 0 {
		return
	}
	target := sp.unslashedParticipatingIndices(st, TIMELY_TARGET_FLAG_INDEX, sp.PreviousEpoch(st))
	for _, index := range sp.eligibleValidatorIndices(st) {
		if target[index] {
			st.InactivityScores[index] -= min64(1, st.InactivityScores[index])
		} else {
			st.InactivityScores[index] += sp.INACTIVITY_SCORE_BIAS
		}
		if !sp.isInInactivityLeak(st) {
			st.InactivityScores[index] -= min64(sp.INACTIVITY_SCORE_RECOVERY_RATE, st.InactivityScores[index])
		}
	}
}

func (sp *Spec) processRewardsAndPenalties(st *State) error {
	if sp.CurrentEpoch(st) == 0 {
		return nil
	}
	if st.Fork == Phase0 {
		rewards, penalties, err := sp.attestationDeltasPhase0(st)
		if err != nil {
			return err
		}
		for i := range st.Validators {
			IncreaseBalance(st, uint64(i), rewards[i])
			DecreaseBalance(st, uint64(i), penalties[i])
		}
		return nil
	}
	n := len(st.Validators)
	prev := sp.PreviousEpoch(st)
	type deltas struct{ r, p []uint64 }
	var all []deltas
	for flag := uint(0); flag < 3; flag++ {
		d := deltas{make([]uint64, n), make([]uint64, n)}
		part := sp.unslashedParticipatingIndices(st, flag, prev)
		weight := PARTICIPATION_FLAG_WEIGHTS[flag]
		partIncr := sp.TotalBalance(st, setToList(part)) / sp.EFFECTIVE_BALANCE_INCREMENT
		activeIncr := sp.TotalActiveBalance(st) / sp.EFFECTIVE_BALANCE_INCREMENT
		for _, index := range sp.eligibleValidatorIndices(st) {
			base := sp.BaseRewardAltair(st, index)
			if part[index] {
				if !sp.isInInactivityLeak(st) {
					num := base * weight * partIncr
					d.r[index] += num / (activeIncr * WEIGHT_DENOMINATOR)
				}
			} else if flag != TIMELY_HEAD_FLAG_INDEX {
				d.p[index] += base * weight / WEIGHT_DENOMINATOR
			}
		}
		all = append(all, d)
	}
	// inactivity penalties
	d := deltas{make([]uint64, n), make([]uint64, n)}
	target := sp.unslashedParticipatingIndices(st, TIMELY_TARGET_FLAG_INDEX, prev)
	for _, index := range sp.eligibleValidatorIndices(st) {
		if !target[index] {
			num := st.Validators[index].EffectiveBalance * st.InactivityScores[index]
			den := sp.INACTIVITY_SCORE_BIAS * sp.inactivityPenaltyQuotient(st.Fork)
			d.p[index] += num / den
		}
	}
	all = append(all, d)
	for _, dd := range all {
		for i := 0; i < n; i++ {
			IncreaseBalance(st, uint64(i), dd.r[i])
			DecreaseBalance(st, uint64(i), dd.p[i])
		}
	}
	return nil
}

// ---- registry, slashings, resets

func (sp *Spec) processRegistryUpdates(st *State) {
	cur := sp.CurrentEpoch(st)
	ejected := uint64(0)
	for i := range st.Validators {
		v := &st.Validators[i]
		if v.ActivationEligibilityEpoch == FarFuture && v.EffectiveBalance == sp.MAX_EFFECTIVE_BALANCE {
			v.ActivationEligibilityEpoch = cur + 1
		}
		if IsActive(v, cur) && v.EffectiveBalance <= sp.EJECTION_BALANCE {
			if v.ExitEpoch == FarFuture {
				ejected++
			}
			sp.InitiateValidatorExit(st, uint64(i))
		}
	}
	if ejected > 0 {
		sp.observe("epochs_with_ejections")
		if ejected > sp.ChurnLimit(st) {
			sp.observe("epochs_with_more_ejections_than_churn_limit")
		}
		if st.Fork >= Deneb && ejected > sp.ActivationChurnLimit(st) && sp.ActivationChurnLimit(st) < sp.ChurnLimit(st) {
			sp.observe("deneb_epochs_with_more_ejections_than_the_activation_cap_below_churn_limit")
		}
	}
	var queue []uint64
	for i := range st.Validators {
		v := &st.Validators[i]
		if v.ActivationEligibilityEpoch <= st.FinalizedCheckpoint.Epoch && v.ActivationEpoch == FarFuture {
			queue = append(queue, uint64(i))
		}
	}
	sort.SliceStable(queue, func(a, b int) bool {
		va, vb := &st.Validators[queue[a]], &st.Validators[queue[b]]
		if va.ActivationEligibilityEpoch != vb.ActivationEligibilityEpoch {
			return va.ActivationEligibilityEpoch < vb.ActivationEligibilityEpoch
		}
		return queue[a] < queue[b]
	})
	limit := sp.ActivationChurnLimit(st)
	for k, index := range queue {
		if uint64(k) >= limit {
			break
		}
		st.Validators[index].ActivationEpoch = sp.ActivationExitEpoch(cur)
	}
}

func (sp *Spec) processSlashings(st *State) {
	epoch := sp.CurrentEpoch(st)
	total := sp.TotalActiveBalance(st)
	var sum uint64
	for _, s := range st.Slashings {
		sum += s
	}
	adjusted := min64(sum*sp.proportionalSlashingMultiplier(st.Fork), total)
	for i := range st.Validators {
		v := &st.Validators[i]
		if v.Slashed && epoch+sp.EPOCHS_PER_SLASHINGS_VECTOR/2 == v.WithdrawableEpoch {
			incr := sp.EFFECTIVE_BALANCE_INCREMENT
			num := v.EffectiveBalance / incr * adjusted
			penalty := num / total * incr
			DecreaseBalance(st, uint64(i), penalty)
		}
	}
}

func (sp *Spec) processEth1DataReset(st *State) {
	next := sp.CurrentEpoch(st) + 1
	if next%sp.EPOCHS_PER_ETH1_VOTING_PERIOD == 0 {
		st.Eth1DataVotes = nil
	}
}

func (sp *Spec) processEffectiveBalanceUpdates(st *State) {
	hyst := sp.EFFECTIVE_BALANCE_INCREMENT / sp.HYSTERESIS_QUOTIENT
	down := hyst * sp.HYSTERESIS_DOWNWARD_MULTIPLIER
	up := hyst * sp.HYSTERESIS_UPWARD_MULTIPLIER
	for i := range st.Validators {
		v := &st.Validators[i]
		bal := st.Balances[i]
		if bal+down < v.EffectiveBalance || v.EffectiveBalance+up < bal {
			v.EffectiveBalance = min64(bal-bal%sp.EFFECTIVE_BALANCE_INCREMENT, sp.MAX_EFFECTIVE_BALANCE)
		}
	}
}

func (sp *Spec) processSlashingsReset(st *State) {
	next := sp.CurrentEpoch(st) + 1
	st.Slashings[next%sp.EPOCHS_PER_SLASHINGS_VECTOR] = 0
}

func (sp *Spec) processRandaoMixesReset(st *State) {
	cur := sp.CurrentEpoch(st)
	next := cur + 1
	st.RandaoMixes[next%sp.EPOCHS_PER_HISTORICAL_VECTOR] = sp.RandaoMix(st, cur)
}

func (sp *Spec) processHistoricalUpdate(st *State) {
	next := sp.CurrentEpoch(st) + 1
	if next%(sp.SLOTS_PER_HISTORICAL_ROOT/sp.SLOTS_PER_EPOCH) != 0 {
		return
	}
	rootsSchema := refssz.Vec(refssz.B32, sp.SLOTS_PER_HISTORICAL_ROOT)
	if st.Fork >= Capella {
		st.HistoricalSummaries = append(st.HistoricalSummaries, HistoricalSummary{
			BlockSummaryRoot: refssz.RootOf(rootsSchema, st.BlockRoots),
			StateSummaryRoot: refssz.RootOf(rootsSchema, st.StateRoots),
		})
		return
	}
	batch := struct{ B, S []Root }{st.BlockRoots, st.StateRoots}
	st.HistoricalRoots = append(st.HistoricalRoots, refssz.RootOf(sp.S.HistoricalBatch, batch))
}

// ---- sync committees

func (sp *Spec) NextSyncCommitteeIndices(st *State) ([]uint64, error) {
	epoch := sp.CurrentEpoch(st) + 1
	active := sp.ActiveIndices(st, epoch)
	count := uint64(len(active))
	if count == 0 {
		return nil, reject("get_next_sync_committee_indices: no active validators")
	}
	seed := sp.Seed(st, epoch, DOMAIN_SYNC_COMMITTEE)
	var out []uint64
	for i := uint64(0); uint64(len(out)) < sp.SYNC_COMMITTEE_SIZE; i++ {
		shuffled := sp.ShuffledIndex(i%count, count, seed)
		candidate := active[shuffled]
		rb := Hash(append(append([]byte{}, seed[:]...), u64le(i/32)...))[i%32]
		eff := st.Validators[candidate].EffectiveBalance
		if eff*MAX_RANDOM_BYTE >= sp.MAX_EFFECTIVE_BALANCE*uint64(rb) {
			out = append(out, candidate)
		}
	}
	return out, nil
}

func (sp *Spec) NextSyncCommittee(st *State) (SyncCommittee, error) {
	indices, err := sp.NextSyncCommitteeIndices(st)
	if err != nil {
		return SyncCommittee{}, err
	}
	pks := make([][48]byte, len(indices))
	for i, idx := range indices {
		pks[i] = st.Validators[idx].Pubkey
	}
	agg, err := BLSAggregatePubkeys(pks)
	if err != nil {
		return SyncCommittee{}, err
	}
	return SyncCommittee{Pubkeys: pks, AggregatePubkey: agg}, nil
}

func (sp *Spec) processSyncCommitteeUpdates(st *State) error {
	next := sp.CurrentEpoch(st) + 1
	if next%sp.EPOCHS_PER_SYNC_COMMITTEE_PERIOD == 0 {
		st.CurrentSyncCommittee = st.NextSyncCommittee
		n, err := sp.NextSyncCommittee(st)
		if err != nil {
			return err
		}
		st.NextSyncCommittee = n
	}
	return nil
}
