package refspec

import (
	"bytes"
	"reflect"

	"verif/refssz"
)

// Engine is the execution engine as the specification sees it.
type Engine interface {
	// VerifyAndNotifyNewPayload returns the verdict; err models an engine/transport failure.
	VerifyAndNotifyNewPayload(fork int, payload *ExecutionPayload, versionedHashes []Root, parentBeaconBlockRoot Root) (bool, error)
}

// StateTransition = state_transition(state, signed_block, validate_result).
func (sp *Spec) StateTransition(st *State, sb *SignedBlock, engine Engine, validateResult bool) error {
	blk := &sb.Message
	if err := sp.ProcessSlots(st, blk.Slot); err != nil {
		return err
	}
	if validateResult {
		if !sp.VerifyBlockSignature(st, sb) {
			return reject("verify_block_signature")
		}
	}
	if err := sp.ProcessBlock(st, blk, engine); err != nil {
		return err
	}
	if validateResult {
		if blk.StateRoot != sp.S.StateRoot(st) {
			return reject("block.state_root != hash_tree_root(state)")
		}
	}
	return nil
}

func (sp *Spec) VerifyBlockSignature(st *State, sb *SignedBlock) bool {
	if sb.Message.ProposerIndex >= uint64(len(st.Validators)) {
		return false
	}
	if sb.Message.Fork != st.Fork {
		return false
	}
	proposer := &st.Validators[sb.Message.ProposerIndex]
	sr := sp.SigningRoot(sp.S.BlockRoot(&sb.Message), sp.Domain(st, DOMAIN_BEACON_PROPOSER, sp.CurrentEpoch(st)))
	return BLSVerify(proposer.Pubkey, sr, sb.Signature)
}

func (sp *Spec) ProcessBlock(st *State, blk *Block, engine Engine) error {
	if blk.Fork != st.Fork {
		return reject("block of fork %s on state of fork %s", ForkNames[blk.Fork], ForkNames[st.Fork])
	}
	if err := sp.processBlockHeader(st, blk); err != nil {
		return err
	}
	switch {
	case st.Fork >= Capella:
		if err := sp.processWithdrawals(st, &blk.Body.ExecutionPayload); err != nil {
			return err
		}
		if err := sp.processExecutionPayload(st, &blk.Body, engine); err != nil {
			return err
		}
	case st.Fork == Bellatrix:
		if sp.IsExecutionEnabled(st, &blk.Body) {
			if err := sp.processExecutionPayload(st, &blk.Body, engine); err != nil {
				return err
			}
		}
	}
	if err := sp.processRandao(st, &blk.Body); err != nil {
		return err
	}
	sp.processEth1Data(st, &blk.Body)
	if err := sp.processOperations(st, &blk.Body); err != nil {
		return err
	}
	if st.Fork >= Altair {
		if err := sp.processSyncAggregate(st, &blk.Body.SyncAggregate); err != nil {
			return err
		}
	}
	return nil
}

func (sp *Spec) processBlockHeader(st *State, blk *Block) error {
	if blk.Slot != st.Slot {
		return reject("block.slot == state.slot")
	}
	if !(blk.Slot > st.LatestBlockHeader.Slot) {
		return reject("block.slot > state.latest_block_header.slot")
	}
	proposer, err := sp.BeaconProposerIndex(st)
	if err != nil {
		return err
	}
	if blk.ProposerIndex != proposer {
		return reject("block.proposer_index == get_beacon_proposer_index(state)")
	}
	if blk.ParentRoot != refssz.RootOf(sp.S.Header, st.LatestBlockHeader) {
		return reject("block.parent_root == hash_tree_root(state.latest_block_header)")
	}
	st.LatestBlockHeader = Header{Slot: blk.Slot, ProposerIndex: blk.ProposerIndex, ParentRoot: blk.ParentRoot, BodyRoot: sp.S.BodyRoot(blk.Fork, &blk.Body)}
	if st.Validators[blk.ProposerIndex].Slashed {
		return reject("not proposer.slashed")
	}
	return nil
}

func (sp *Spec) processRandao(st *State, body *Body) error {
	epoch := sp.CurrentEpoch(st)
	proposer, err := sp.BeaconProposerIndex(st)
	if err != nil {
		return err
	}
	sr := sp.SigningRoot(U64Root(epoch), sp.Domain(st, DOMAIN_RANDAO, epoch))
	if !BLSVerify(st.Validators[proposer].Pubkey, sr, body.RandaoReveal) {
		return reject("randao reveal signature")
	}
	mix := sp.RandaoMix(st, epoch)
	h := Hash(body.RandaoReveal[:])
	for i := range mix {
		mix[i] ^= h[i]
	}
	st.RandaoMixes[epoch%sp.EPOCHS_PER_HISTORICAL_VECTOR] = mix
	return nil
}

func (sp *Spec) processEth1Data(st *State, body *Body) {
	st.Eth1DataVotes = append(st.Eth1DataVotes, body.Eth1Data)
	count := uint64(0)
	for _, v := range st.Eth1DataVotes {
		if v == body.Eth1Data {
			count++
		}
	}
	if count*2 > sp.EPOCHS_PER_ETH1_VOTING_PERIOD*sp.SLOTS_PER_EPOCH {
		st.Eth1Data = body.Eth1Data
	}
}

func (sp *Spec) processOperations(st *State, body *Body) error {
	// list limits are part of the SSZ type of the body: a body beyond them does not exist in the spec's type system
	if uint64(len(body.ProposerSlashings)) > sp.MAX_PROPOSER_SLASHINGS || uint64(len(body.AttesterSlashings)) > sp.MAX_ATTESTER_SLASHINGS ||
		uint64(len(body.Attestations)) > sp.MAX_ATTESTATIONS || uint64(len(body.Deposits)) > sp.MAX_DEPOSITS || uint64(len(body.VoluntaryExits)) > sp.MAX_VOLUNTARY_EXITS ||
		uint64(len(body.BLSToExecutionChanges)) > sp.MAX_BLS_TO_EXECUTION_CHANGES {
		return reject("operation list over its SSZ limit")
	}
	if uint64(len(body.Deposits)) != min64(sp.MAX_DEPOSITS, st.Eth1Data.DepositCount-st.Eth1DepositIndex) {
		return reject("len(body.deposits) == min(MAX_DEPOSITS, eth1_data.deposit_count - eth1_deposit_index)")
	}
	for i := range body.ProposerSlashings {
		if err := sp.ProcessProposerSlashing(st, &body.ProposerSlashings[i]); err != nil {
			return err
		}
	}
	for i := range body.AttesterSlashings {
		if err := sp.ProcessAttesterSlashing(st, &body.AttesterSlashings[i]); err != nil {
			return err
		}
	}
	for i := range body.Attestations {
		if err := sp.ProcessAttestation(st, &body.Attestations[i]); err != nil {
			return err
		}
	}
	for i := range body.Deposits {
		if err := sp.ProcessDeposit(st, &body.Deposits[i]); err != nil {
			return err
		}
	}
	for i := range body.VoluntaryExits {
		if err := sp.ProcessVoluntaryExit(st, &body.VoluntaryExits[i]); err != nil {
			return err
		}
	}
	if st.Fork >= Capella {
		for i := range body.BLSToExecutionChanges {
			if err := sp.ProcessBLSToExecutionChange(st, &body.BLSToExecutionChanges[i]); err != nil {
				return err
			}
		}
	}
	return nil
}

func (sp *Spec) ProcessProposerSlashing(st *State, ps *ProposerSlashing) error {
	h1, h2 := &ps.SignedHeader1.Message, &ps.SignedHeader2.Message
	if h1.Slot != h2.Slot {
		return reject("proposer slashing: header slots match")
	}
	if h1.ProposerIndex != h2.ProposerIndex {
		return reject("proposer slashing: proposer indices match")
	}
	if *h1 == *h2 {
		return reject("proposer slashing: headers are different")
	}
	if h1.ProposerIndex >= uint64(len(st.Validators)) {
		return reject("proposer slashing: proposer index in range")
	}
	proposer := &st.Validators[h1.ProposerIndex]
	if !IsSlashable(proposer, sp.CurrentEpoch(st)) {
		return reject("proposer slashing: proposer is slashable")
	}
	for _, sh := range []*SignedHeader{&ps.SignedHeader1, &ps.SignedHeader2} {
		domain := sp.Domain(st, DOMAIN_BEACON_PROPOSER, sp.EpochAtSlot(sh.Message.Slot))
		sr := sp.SigningRoot(refssz.RootOf(sp.S.Header, sh.Message), domain)
		if !BLSVerify(proposer.Pubkey, sr, sh.Signature) {
			return reject("proposer slashing: header signature")
		}
	}
	return sp.SlashValidator(st, h1.ProposerIndex)
}

func IsSlashableAttestationData(d1, d2 *AttestationData) bool {
	return (*d1 != *d2 && d1.Target.Epoch == d2.Target.Epoch) || (d1.Source.Epoch < d2.Source.Epoch && d2.Target.Epoch < d1.Target.Epoch)
}

func (sp *Spec) ProcessAttesterSlashing(st *State, as *AttesterSlashing) error {
	a1, a2 := &as.Attestation1, &as.Attestation2
	if !IsSlashableAttestationData(&a1.Data, &a2.Data) {
		return reject("attester slashing: is_slashable_attestation_data")
	}
	if !sp.IsValidIndexedAttestation(st, a1) {
		return reject("attester slashing: attestation_1 valid")
	}
	if !sp.IsValidIndexedAttestation(st, a2) {
		return reject("attester slashing: attestation_2 valid")
	}
	in2 := map[uint64]bool{}
	for _, i := range a2.AttestingIndices {
		in2[i] = true
	}
	slashedAny := false
	for _, i := range a1.AttestingIndices { // sorted (validated above)
		if in2[i] && IsSlashable(&st.Validators[i], sp.CurrentEpoch(st)) {
			if err := sp.SlashValidator(st, i); err != nil {
				return err
			}
			slashedAny = true
		}
	}
	if !slashedAny {
		return reject("attester slashing: slashed_any")
	}
	return nil
}

func (sp *Spec) participationFlagIndices(st *State, data *AttestationData, inclusionDelay uint64) ([]uint, error) {
	justified := st.PreviousJustifiedCheckpoint
	if data.Target.Epoch == sp.CurrentEpoch(st) {
		justified = st.CurrentJustifiedCheckpoint
	}
	matchingSource := data.Source == justified
	targetRoot, err := sp.BlockRoot(st, data.Target.Epoch)
	if err != nil {
		return nil, err
	}
	matchingTarget := matchingSource && data.Target.Root == targetRoot
	headRoot, err := sp.BlockRootAtSlot(st, data.Slot)
	if err != nil {
		return nil, err
	}
	matchingHead := matchingTarget && data.BeaconBlockRoot == headRoot
	if !matchingSource {
		return nil, reject("attestation: is_matching_source")
	}
	var flags []uint
	if matchingSource && inclusionDelay <= IntegerSquareroot(sp.SLOTS_PER_EPOCH) {
		flags = append(flags, TIMELY_SOURCE_FLAG_INDEX)
	}
	if st.Fork >= Deneb {
		if matchingTarget {
			flags = append(flags, TIMELY_TARGET_FLAG_INDEX)
		}
	} else if matchingTarget && inclusionDelay <= sp.SLOTS_PER_EPOCH {
		flags = append(flags, TIMELY_TARGET_FLAG_INDEX)
	}
	if matchingHead && inclusionDelay == sp.MIN_ATTESTATION_INCLUSION_DELAY {
		flags = append(flags, TIMELY_HEAD_FLAG_INDEX)
	}
	return flags, nil
}

func (sp *Spec) ProcessAttestation(st *State, att *Attestation) error {
	data := &att.Data
	cur, prev := sp.CurrentEpoch(st), sp.PreviousEpoch(st)
	if data.Target.Epoch != prev && data.Target.Epoch != cur {
		return reject("attestation: target epoch in (previous, current)")
	}
	if data.Target.Epoch != sp.EpochAtSlot(data.Slot) {
		return reject("attestation: target epoch == epoch(slot)")
	}
	if !(data.Slot+sp.MIN_ATTESTATION_INCLUSION_DELAY <= st.Slot) {
		return reject("attestation: slot + MIN_ATTESTATION_INCLUSION_DELAY <= state.slot")
	}
	if st.Fork < Deneb && !(st.Slot <= data.Slot+sp.SLOTS_PER_EPOCH) {
		return reject("attestation: state.slot <= slot + SLOTS_PER_EPOCH")
	}
	if st.Fork >= Deneb && st.Slot > data.Slot+sp.SLOTS_PER_EPOCH {
		sp.observe("deneb_attestations_included_more_than_one_epoch_late")
	}
	if !(data.Index < sp.CommitteeCountPerSlot(st, data.Target.Epoch)) {
		return reject("attestation: index < committee count")
	}
	committee := sp.BeaconCommittee(st, data.Slot, data.Index)
	if len(att.AggregationBits) != len(committee) {
		return reject("attestation: len(aggregation_bits) == len(committee)")
	}
	indexed := IndexedAttestation{AttestingIndices: sp.AttestingIndices(st, data, att.AggregationBits), Data: *data, Signature: att.Signature}
	if st.Fork == Phase0 {
		proposer, err := sp.BeaconProposerIndex(st)
		if err != nil {
			return err
		}
		pending := PendingAttestation{AggregationBits: append([]bool{}, att.AggregationBits...), Data: *data, InclusionDelay: st.Slot - data.Slot, ProposerIndex: proposer}
		if data.Target.Epoch == cur {
			if data.Source != st.CurrentJustifiedCheckpoint {
				return reject("attestation: source == current_justified_checkpoint")
			}
			st.CurrentEpochAttestations = append(st.CurrentEpochAttestations, pending)
		} else {
			if data.Source != st.PreviousJustifiedCheckpoint {
				return reject("attestation: source == previous_justified_checkpoint")
			}
			st.PreviousEpochAttestations = append(st.PreviousEpochAttestations, pending)
		}
		if !sp.IsValidIndexedAttestation(st, &indexed) {
			return reject("attestation: is_valid_indexed_attestation")
		}
		return nil
	}
	flags, err := sp.participationFlagIndices(st, data, st.Slot-data.Slot)
	if err != nil {
		return err
	}
	if !sp.IsValidIndexedAttestation(st, &indexed) {
		return reject("attestation: is_valid_indexed_attestation")
	}
	part := st.PreviousEpochParticipation
	if data.Target.Epoch == cur {
		part = st.CurrentEpochParticipation
	}
	var numerator uint64
	for _, index := range indexed.AttestingIndices {
		for flagIndex, weight := range PARTICIPATION_FLAG_WEIGHTS {
			has := false
			for _, f := range flags {
				if f == uint(flagIndex) {
					has = true
				}
			}
			if has && part[index]&(1<<uint(flagIndex)) == 0 {
				part[index] |= 1 << uint(flagIndex)
				numerator += sp.BaseRewardAltair(st, index) * weight
			}
		}
	}
	denominator := uint64((WEIGHT_DENOMINATOR - PROPOSER_WEIGHT) * WEIGHT_DENOMINATOR / PROPOSER_WEIGHT)
	proposer, err := sp.BeaconProposerIndex(st)
	if err != nil {
		return err
	}
	IncreaseBalance(st, proposer, numerator/denominator)
	return nil
}

func (sp *Spec) validatorFromDeposit(pubkey [48]byte, wc Root, amount uint64) Validator {
	return Validator{Pubkey: pubkey, WithdrawalCredentials: wc, ActivationEligibilityEpoch: FarFuture, ActivationEpoch: FarFuture, ExitEpoch: FarFuture, WithdrawableEpoch: FarFuture,
		EffectiveBalance: min64(amount-amount%sp.EFFECTIVE_BALANCE_INCREMENT, sp.MAX_EFFECTIVE_BALANCE)}
}

func (sp *Spec) ApplyDeposit(st *State, data *DepositData) {
	for i := range st.Validators {
		if st.Validators[i].Pubkey == data.Pubkey {
			IncreaseBalance(st, uint64(i), data.Amount)
			return
		}
	}
	msg := DepositMessage{Pubkey: data.Pubkey, WithdrawalCredentials: data.WithdrawalCredentials, Amount: data.Amount}
	domain := sp.ComputeDomain(DOMAIN_DEPOSIT, sp.ForkVersions[Phase0], Root{})
	sr := sp.SigningRoot(refssz.RootOf(sp.S.DepositMessage, msg), domain)
	if !sp.SkipDepositChecks && !BLSVerify(data.Pubkey, sr, data.Signature) {
		return
	}
	st.Validators = append(st.Validators, sp.validatorFromDeposit(data.Pubkey, data.WithdrawalCredentials, data.Amount))
	st.Balances = append(st.Balances, data.Amount)
	if st.Fork >= Altair {
		st.PreviousEpochParticipation = append(st.PreviousEpochParticipation, 0)
		st.CurrentEpochParticipation = append(st.CurrentEpochParticipation, 0)
		st.InactivityScores = append(st.InactivityScores, 0)
	}
}

func (sp *Spec) ProcessDeposit(st *State, dep *Deposit) error {
	leaf := refssz.RootOf(sp.S.DepositData, dep.Data)
	if !sp.SkipDepositChecks && !IsValidMerkleBranch(leaf, dep.Proof[:], DEPOSIT_CONTRACT_TREE_DEPTH+1, st.Eth1DepositIndex, st.Eth1Data.DepositRoot) {
		return reject("deposit: is_valid_merkle_branch")
	}
	st.Eth1DepositIndex++
	sp.ApplyDeposit(st, &dep.Data)
	return nil
}

func (sp *Spec) ProcessVoluntaryExit(st *State, se *SignedVoluntaryExit) error {
	exit := &se.Message
	if exit.ValidatorIndex >= uint64(len(st.Validators)) {
		return reject("exit: validator index in range")
	}
	v := &st.Validators[exit.ValidatorIndex]
	cur := sp.CurrentEpoch(st)
	if !IsActive(v, cur) {
		return reject("exit: validator is active")
	}
	if v.ExitEpoch != FarFuture {
		return reject("exit: exit not yet initiated")
	}
	if !(cur >= exit.Epoch) {
		return reject("exit: current_epoch >= exit.epoch")
	}
	if !(cur >= v.ActivationEpoch+sp.SHARD_COMMITTEE_PERIOD) {
		return reject("exit: current_epoch >= activation_epoch + SHARD_COMMITTEE_PERIOD")
	}
	var domain Root
	if st.Fork >= Deneb {
		domain = sp.ComputeDomain(DOMAIN_VOLUNTARY_EXIT, sp.ForkVersions[Capella], st.GenesisValidatorsRoot)
	} else {
		domain = sp.Domain(st, DOMAIN_VOLUNTARY_EXIT, exit.Epoch)
	}
	sr := sp.SigningRoot(refssz.RootOf(sp.S.VoluntaryExit, *exit), domain)
	if !BLSVerify(v.Pubkey, sr, se.Signature) {
		return reject("exit: signature")
	}
	sp.InitiateValidatorExit(st, exit.ValidatorIndex)
	return nil
}

func (sp *Spec) ProcessBLSToExecutionChange(st *State, sc *SignedBLSToExecutionChange) error {
	c := &sc.Message
	if !(c.ValidatorIndex < uint64(len(st.Validators))) {
		return reject("bls change: validator index in range")
	}
	v := &st.Validators[c.ValidatorIndex]
	if v.WithdrawalCredentials[0] != 0x00 {
		return reject("bls change: BLS_WITHDRAWAL_PREFIX")
	}
	h := Hash(c.FromBLSPubkey[:])
	if !bytes.Equal(v.WithdrawalCredentials[1:], h[1:]) {
		return reject("bls change: credentials match from_bls_pubkey")
	}
	domain := sp.ComputeDomain(DOMAIN_BLS_TO_EXECUTION_CHANGE, sp.ForkVersions[Phase0], st.GenesisValidatorsRoot)
	sr := sp.SigningRoot(refssz.RootOf(sp.S.BLSChange, *c), domain)
	if !BLSVerify(c.FromBLSPubkey, sr, sc.Signature) {
		return reject("bls change: signature")
	}
	var wc Root
	wc[0] = 0x01
	copy(wc[12:], c.ToExecutionAddress[:])
	v.WithdrawalCredentials = wc
	return nil
}

func (sp *Spec) processSyncAggregate(st *State, sa *SyncAggregate) error {
	if uint64(len(sa.SyncCommitteeBits)) != sp.SYNC_COMMITTEE_SIZE {
		return reject("sync aggregate: bitvector length")
	}
	var participants [][48]byte
	for i, pk := range st.CurrentSyncCommittee.Pubkeys {
		if sa.SyncCommitteeBits[i] {
			participants = append(participants, pk)
		}
	}
	prevSlot := max64(st.Slot, 1) - 1
	domain := sp.Domain(st, DOMAIN_SYNC_COMMITTEE, sp.EpochAtSlot(prevSlot))
	br, err := sp.BlockRootAtSlot(st, prevSlot)
	if err != nil {
		return err
	}
	sr := sp.SigningRoot(br, domain)
	if !BLSEthFastAggregateVerify(participants, sr, sa.SyncCommitteeSignature) {
		return reject("sync aggregate: eth_fast_aggregate_verify")
	}
	totalActiveIncrements := sp.TotalActiveBalance(st) / sp.EFFECTIVE_BALANCE_INCREMENT
	totalBaseRewards := sp.baseRewardPerIncrement(st) * totalActiveIncrements
	maxParticipantRewards := totalBaseRewards * SYNC_REWARD_WEIGHT / WEIGHT_DENOMINATOR / sp.SLOTS_PER_EPOCH
	participantReward := maxParticipantRewards / sp.SYNC_COMMITTEE_SIZE
	proposerReward := participantReward * PROPOSER_WEIGHT / (WEIGHT_DENOMINATOR - PROPOSER_WEIGHT)
	committeeIndices := make([]uint64, len(st.CurrentSyncCommittee.Pubkeys))
	for i, pk := range st.CurrentSyncCommittee.Pubkeys {
		found := false
		for j := range st.Validators {
			if st.Validators[j].Pubkey == pk {
				committeeIndices[i] = uint64(j)
				found = true
				break
			}
		}
		if !found {
			return reject("sync aggregate: committee pubkey not in registry")
		}
	}
	proposer, err := sp.BeaconProposerIndex(st)
	if err != nil {
		return err
	}
	for i, idx := range committeeIndices {
		if sa.SyncCommitteeBits[i] {
			IncreaseBalance(st, idx, participantReward)
			IncreaseBalance(st, proposer, proposerReward)
		} else {
			DecreaseBalance(st, idx, participantReward)
		}
	}
	return nil
}

// ---------------------------------------------------------------------------------------
// execution

func (sp *Spec) defaultPayloadHeader() ExecutionPayloadHeader {
	return ExecutionPayloadHeader{LogsBloom: make([]byte, sp.BYTES_PER_LOGS_BLOOM), ExtraData: []byte{}}
}

func (sp *Spec) IsMergeTransitionComplete(st *State) bool {
	a := sp.S.PayloadHeaderValue(st.Fork, &st.LatestExecutionPayloadHeader)
	d := sp.defaultPayloadHeader()
	b := sp.S.PayloadHeaderValue(st.Fork, &d)
	return !bytes.Equal(refssz.Encode(sp.S.PayloadHeader[st.Fork], a), refssz.Encode(sp.S.PayloadHeader[st.Fork], b))
}

func (sp *Spec) isDefaultPayload(fork int, p *ExecutionPayload) bool {
	d := ExecutionPayload{LogsBloom: make([]byte, sp.BYTES_PER_LOGS_BLOOM)}
	return bytes.Equal(refssz.Encode(sp.S.Payload[fork], sp.S.PayloadValue(fork, p)), refssz.Encode(sp.S.Payload[fork], sp.S.PayloadValue(fork, &d)))
}

func (sp *Spec) IsExecutionEnabled(st *State, body *Body) bool {
	complete := sp.IsMergeTransitionComplete(st)
	return complete || !sp.isDefaultPayload(st.Fork, &body.ExecutionPayload)
}

func (sp *Spec) TimestampAtSlot(st *State, slot uint64) uint64 {
	return st.GenesisTime + slot*sp.SECONDS_PER_SLOT
}

func VersionedHash(commitment [48]byte) Root {
	h := Hash(commitment[:])
	h[0] = 0x01
	return h
}

func (sp *Spec) processExecutionPayload(st *State, body *Body, engine Engine) error {
	payload := &body.ExecutionPayload
	if uint64(len(payload.LogsBloom)) != sp.BYTES_PER_LOGS_BLOOM || uint64(len(payload.ExtraData)) > sp.MAX_EXTRA_DATA_BYTES {
		return reject("payload: SSZ type limits")
	}
	if st.Fork >= Capella || sp.IsMergeTransitionComplete(st) {
		if payload.ParentHash != st.LatestExecutionPayloadHeader.BlockHash {
			return reject("payload: parent_hash == latest_execution_payload_header.block_hash")
		}
	}
	if payload.PrevRandao != sp.RandaoMix(st, sp.CurrentEpoch(st)) {
		return reject("payload: prev_randao == get_randao_mix")
	}
	if payload.Timestamp != sp.TimestampAtSlot(st, st.Slot) {
		return reject("payload: timestamp == compute_timestamp_at_slot")
	}
	var hashes []Root
	var parentBeaconRoot Root
	if st.Fork >= Deneb {
		if uint64(len(body.BlobKZGCommitments)) > sp.MAX_BLOBS_PER_BLOCK {
			return reject("payload: len(blob_kzg_commitments) <= MAX_BLOBS_PER_BLOCK")
		}
		hashes = []Root{}
		for _, c := range body.BlobKZGCommitments {
			hashes = append(hashes, VersionedHash(c))
		}
		parentBeaconRoot = st.LatestBlockHeader.ParentRoot
	}
	if engine == nil {
		return reject("payload: no execution engine")
	}
	ok, err := engine.VerifyAndNotifyNewPayload(st.Fork, payload, hashes, parentBeaconRoot)
	if err != nil {
		return reject("payload: engine error: %v", err)
	}
	if !ok {
		return reject("payload: execution_engine.verify_and_notify_new_payload")
	}
	txSchema := refssz.Lst(refssz.BL(sp.MAX_BYTES_PER_TRANSACTION), sp.MAX_TRANSACTIONS_PER_PAYLOAD)
	h := ExecutionPayloadHeader{ParentHash: payload.ParentHash, FeeRecipient: payload.FeeRecipient, StateRoot: payload.StateRoot, ReceiptsRoot: payload.ReceiptsRoot,
		LogsBloom: append([]byte{}, payload.LogsBloom...), PrevRandao: payload.PrevRandao, BlockNumber: payload.BlockNumber, GasLimit: payload.GasLimit, GasUsed: payload.GasUsed,
		Timestamp: payload.Timestamp, ExtraData: append([]byte{}, payload.ExtraData...), BaseFeePerGas: payload.BaseFeePerGas, BlockHash: payload.BlockHash,
		TransactionsRoot: refssz.RootOf(txSchema, payload.Transactions)}
	if st.Fork >= Capella {
		h.WithdrawalsRoot = refssz.RootOf(refssz.Lst(sp.S.Withdrawal, sp.MAX_WITHDRAWALS_PER_PAYLOAD), payload.Withdrawals)
	}
	if st.Fork >= Deneb {
		h.BlobGasUsed, h.ExcessBlobGas = payload.BlobGasUsed, payload.ExcessBlobGas
	}
	st.LatestExecutionPayloadHeader = h
	return nil
}

func hasEth1Credential(v *Validator) bool { return v.WithdrawalCredentials[0] == 0x01 }

func (sp *Spec) ExpectedWithdrawals(st *State) []Withdrawal {
	epoch := sp.CurrentEpoch(st)
	wIndex := st.NextWithdrawalIndex
	vIndex := st.NextWithdrawalValidatorIndex
	out := []Withdrawal{}
	bound := min64(uint64(len(st.Validators)), sp.MAX_VALIDATORS_PER_WITHDRAWALS_SWEEP)
	for k := uint64(0); k < bound; k++ {
		v := &st.Validators[vIndex]
		bal := st.Balances[vIndex]
		var addr [20]byte
		copy(addr[:], v.WithdrawalCredentials[12:])
		if hasEth1Credential(v) && v.WithdrawableEpoch <= epoch && bal > 0 {
			out = append(out, Withdrawal{Index: wIndex, ValidatorIndex: vIndex, Address: addr, Amount: bal})
			wIndex++
		} else if hasEth1Credential(v) && v.EffectiveBalance == sp.MAX_EFFECTIVE_BALANCE && bal > sp.MAX_EFFECTIVE_BALANCE {
			out = append(out, Withdrawal{Index: wIndex, ValidatorIndex: vIndex, Address: addr, Amount: bal - sp.MAX_EFFECTIVE_BALANCE})
			wIndex++
		}
		if uint64(len(out)) == sp.MAX_WITHDRAWALS_PER_PAYLOAD {
			break
		}
		vIndex = (vIndex + 1) % uint64(len(st.Validators))
	}
	if uint64(len(out)) < sp.MAX_WITHDRAWALS_PER_PAYLOAD && bound == sp.MAX_VALIDATORS_PER_WITHDRAWALS_SWEEP && bound < uint64(len(st.Validators)) {
		// the sweep stopped at its bound, not at the payload's capacity: the validator it stopped in front of is not looked at
		sp.observe("withdrawal_sweeps_that_ended_at_the_bound")
		v := &st.Validators[vIndex]
		bal := st.Balances[vIndex]
		if hasEth1Credential(v) && ((v.WithdrawableEpoch <= epoch && bal > 0) || (v.EffectiveBalance == sp.MAX_EFFECTIVE_BALANCE && bal > sp.MAX_EFFECTIVE_BALANCE)) {
			sp.observe("withdrawal_sweeps_that_ended_at_the_bound_in_front_of_a_withdrawable_validator")
		}
	}
	return out
}

func (sp *Spec) processWithdrawals(st *State, payload *ExecutionPayload) error {
	expected := sp.ExpectedWithdrawals(st)
	got := payload.Withdrawals
	if got == nil {
		got = []Withdrawal{}
	}
	if !reflect.DeepEqual(got, expected) {
		return reject("withdrawals: payload.withdrawals == expected_withdrawals")
	}
	for _, w := range expected {
		DecreaseBalance(st, w.ValidatorIndex, w.Amount)
	}
	if len(expected) != 0 {
		st.NextWithdrawalIndex = expected[len(expected)-1].Index + 1
	}
	if uint64(len(expected)) == sp.MAX_WITHDRAWALS_PER_PAYLOAD {
		st.NextWithdrawalValidatorIndex = (expected[len(expected)-1].ValidatorIndex + 1) % uint64(len(st.Validators))
	} else {
		st.NextWithdrawalValidatorIndex = (st.NextWithdrawalValidatorIndex + sp.MAX_VALIDATORS_PER_WITHDRAWALS_SWEEP) % uint64(len(st.Validators))
	}
	return nil
}

// ---------------------------------------------------------------------------------------
// fork upgrades

func (sp *Spec) Upgrade(st *State, to int) error {
	epoch := sp.CurrentEpoch(st)
	st.ForkData = Fork{PreviousVersion: st.ForkData.CurrentVersion, CurrentVersion: sp.ForkVersions[to], Epoch: epoch}
	switch to {
	case Altair:
		pending := st.PreviousEpochAttestations
		st.Fork = Altair
		st.PreviousEpochAttestations, st.CurrentEpochAttestations = nil, nil
		st.PreviousEpochParticipation = make([]uint8, len(st.Validators))
		st.CurrentEpochParticipation = make([]uint8, len(st.Validators))
		st.InactivityScores = make([]uint64, len(st.Validators))
		// translate_participation
		for i := range pending {
			a := &pending[i]
			flags, err := sp.participationFlagIndices(st, &a.Data, a.InclusionDelay)
			if err != nil {
				return err
			}
			for _, index := range sp.AttestingIndices(st, &a.Data, a.AggregationBits) {
				for _, f := range flags {
					st.PreviousEpochParticipation[index] |= 1 << f
				}
			}
		}
		sc, err := sp.NextSyncCommittee(st)
		if err != nil {
			return err
		}
		st.CurrentSyncCommittee = sc
		sc2, err := sp.NextSyncCommittee(st)
		if err != nil {
			return err
		}
		st.NextSyncCommittee = sc2
	case Bellatrix:
		st.Fork = Bellatrix
		st.LatestExecutionPayloadHeader = sp.defaultPayloadHeader()
	case Capella:
		st.Fork = Capella
		st.LatestExecutionPayloadHeader.WithdrawalsRoot = Root{}
		st.NextWithdrawalIndex, st.NextWithdrawalValidatorIndex = 0, 0
		st.HistoricalSummaries = nil
	case Deneb:
		st.Fork = Deneb
		st.LatestExecutionPayloadHeader.BlobGasUsed, st.LatestExecutionPayloadHeader.ExcessBlobGas = 0, 0
	}
	return nil
}

// ---------------------------------------------------------------------------------------
// genesis

func (sp *Spec) EmptyState() *State {
	st := &State{Fork: Phase0}
	st.BlockRoots = make([]Root, sp.SLOTS_PER_HISTORICAL_ROOT)
	st.StateRoots = make([]Root, sp.SLOTS_PER_HISTORICAL_ROOT)
	st.RandaoMixes = make([]Root, sp.EPOCHS_PER_HISTORICAL_VECTOR)
	st.Slashings = make([]uint64, sp.EPOCHS_PER_SLASHINGS_VECTOR)
	st.JustificationBits = make([]bool, 4)
	return st
}

func (sp *Spec) InitializeBeaconStateFromEth1(eth1BlockHash Root, eth1Timestamp uint64, deposits []Deposit) (*State, error) {
	st := sp.EmptyState()
	st.GenesisTime = eth1Timestamp + sp.GENESIS_DELAY
	st.ForkData = Fork{PreviousVersion: sp.ForkVersions[Phase0], CurrentVersion: sp.ForkVersions[Phase0], Epoch: 0}
	st.Eth1Data = Eth1Data{BlockHash: eth1BlockHash, DepositCount: uint64(len(deposits))}
	st.LatestBlockHeader = Header{BodyRoot: sp.S.BodyRoot(Phase0, &Body{})}
	for i := range st.RandaoMixes {
		st.RandaoMixes[i] = eth1BlockHash
	}
	var leaves []DepositData
	for i := range deposits {
		leaves = append(leaves, deposits[i].Data)
		st.Eth1Data.DepositRoot = refssz.RootOf(sp.S.DepositDataList, leaves)
		if err := sp.ProcessDeposit(st, &deposits[i]); err != nil {
			return nil, err
		}
	}
	for i := range st.Validators {
		v := &st.Validators[i]
		bal := st.Balances[i]
		v.EffectiveBalance = min64(bal-bal%sp.EFFECTIVE_BALANCE_INCREMENT, sp.MAX_EFFECTIVE_BALANCE)
		if v.EffectiveBalance == sp.MAX_EFFECTIVE_BALANCE {
			v.ActivationEligibilityEpoch = 0
			v.ActivationEpoch = 0
		}
	}
	st.GenesisValidatorsRoot = refssz.RootOf(refssz.Lst(sp.S.Validator, sp.VALIDATOR_REGISTRY_LIMIT), st.Validators)
	return st, nil
}

func (sp *Spec) IsValidGenesisState(st *State) bool {
	if st.GenesisTime < sp.MIN_GENESIS_TIME {
		return false
	}
	return uint64(len(sp.ActiveIndices(st, 0))) >= sp.MIN_GENESIS_ACTIVE_VALIDATOR_COUNT
}

// Copy makes a deep copy of a state.
func (st *State) Copy() *State {
	c := *st
	c.BlockRoots = append([]Root{}, st.BlockRoots...)
	c.StateRoots = append([]Root{}, st.StateRoots...)
	c.HistoricalRoots = append([]Root{}, st.HistoricalRoots...)
	c.Eth1DataVotes = append([]Eth1Data{}, st.Eth1DataVotes...)
	c.Validators = append([]Validator{}, st.Validators...)
	c.Balances = append([]uint64{}, st.Balances...)
	c.RandaoMixes = append([]Root{}, st.RandaoMixes...)
	c.Slashings = append([]uint64{}, st.Slashings...)
	c.PreviousEpochAttestations = copyPending(st.PreviousEpochAttestations)
	c.CurrentEpochAttestations = copyPending(st.CurrentEpochAttestations)
	c.PreviousEpochParticipation = append([]uint8{}, st.PreviousEpochParticipation...)
	c.CurrentEpochParticipation = append([]uint8{}, st.CurrentEpochParticipation...)
	c.JustificationBits = append([]bool{}, st.JustificationBits...)
	c.InactivityScores = append([]uint64{}, st.InactivityScores...)
	c.CurrentSyncCommittee.Pubkeys = append([][48]byte{}, st.CurrentSyncCommittee.Pubkeys...)
	c.NextSyncCommittee.Pubkeys = append([][48]byte{}, st.NextSyncCommittee.Pubkeys...)
	c.LatestExecutionPayloadHeader.LogsBloom = append([]byte{}, st.LatestExecutionPayloadHeader.LogsBloom...)
	c.LatestExecutionPayloadHeader.ExtraData = append([]byte{}, st.LatestExecutionPayloadHeader.ExtraData...)
	c.HistoricalSummaries = append([]HistoricalSummary{}, st.HistoricalSummaries...)
	return &c
}

func copyPending(in []PendingAttestation) []PendingAttestation {
	out := make([]PendingAttestation, len(in))
	for i, a := range in {
		out[i] = a
		out[i].AggregationBits = append([]bool{}, a.AggregationBits...)
	}
	return out
}
