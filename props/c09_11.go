package props

import (
	"time"

	"verif/fw"
)

const fcAssume = "fork-choice model (fcmodel): children = fork-choice-parent relation documented in proto_array.go (slot nodes chain from the block node; a block node hangs off its parent block's node, its transition parent is the slot node of its own slot); " +
	"viable = node justified/finalized epochs equal the store's (or the store's are 0); a vote is accepted iff its (root, slot) node exists and its epoch is later than the validator's latest accepted vote; ProcessAttestation's boolean is not judged"

func fcHistories(tier string, quickN, thoroughN int) int {
	if fw.Quick(tier) {
		return quickN / 16
	}
	return thoroughN / 16
}

func init() {
	fw.Register(&fw.Prop{
		ID:    "C09",
		Level: "exploration",
		Rule: "random histories (<=40 ops quick, <=120 thorough) over ProcessBlock/ProcessSlot/ProcessAttestation/SetPin/UpdateJustified on the real ProtoForkChoice and on a from-scratch model; block trees with forks, gap slots, late blocks, duplicates, refused blocks; " +
			"votes by up to 32 validators incl. stale-epoch, unknown-root, missing-slot-node and gap-slot votes; balances from {0,1,32} ETH to force ties; Head() and FindHead from random anchors compared after every mutation. " +
			"A case is one history; non-trivial when it contains >=1 fork; distinct by op-sequence hash",
		Assumptions:  []string{fcAssume, "ProcessSlot is only called for a known root and a slot after that root's first known slot (documented use)"},
		Batches:      func(tier string) int { return 16 },
		ChildTimeout: func(string) time.Duration { return 60 * time.Minute },
		Run: func(b *fw.B) {
			n := fcHistories(b.Tier, 20000, 400000)
			maxOps := 40
			if !fw.Quick(b.Tier) {
				maxOps = 120
			}
			for i := 0; i < n && !b.Stop(); i++ {
				b.Case("fc-history", "")
				runFcHistory(b, catHead, fcParams{maxOps: maxOps, withUpdates: i%2 == 0, sinkFaults: i%4 == 0}, i)
			}
		},
		Required: []string{"head_ok", "findhead_queries", "votes_accepted", "votes_stale_epoch", "votes_unknown_target", "histories_with_forks", "histories_with_gap_slot_votes", "histories_with_late_blocks", "updates_applied", "pins"},
	})
	fw.Register(&fw.Prop{
		ID:    "C10",
		Level: "fault_enumeration",
		Rule: "the C09 histories with justified/finalized updates drawn from {ahead with ancestor finalized, arbitrary candidate pair (conflicting, behind, justified<finalized), unknown root, equal/behind}, anchors on block nodes and gap-slot nodes, " +
			"prune sinks: recording, and failing at the k-th notification (k=1..6) followed by a retry with a healthy sink; after each update the notifications are compared with the model's prune set (each once, canonical flag), " +
			"and head + query batteries continue for the rest of the history. Blocking is observed as the Go runtime's deadlock report in the timer-free child process. A case is one history; non-trivial when it contains >=1 update; distinct by op-sequence hash",
		Assumptions:  []string{fcAssume, "prune = drop every node that is not a transition descendant-or-self of (finalized.root, start slot of finalized.epoch); canonical flag = ancestor of that node", "a wall-clock watchdog firing alone is inconclusive, not a violation"},
		Batches:      func(tier string) int { return 16 },
		ChildTimeout: func(string) time.Duration { return 60 * time.Minute },
		Run: func(b *fw.B) {
			n := fcHistories(b.Tier, 12000, 240000)
			maxOps := 40
			if !fw.Quick(b.Tier) {
				maxOps = 100
			}
			for i := 0; i < n && !b.Stop(); i++ {
				b.Case("fc-history", "")
				runFcHistory(b, catUpdate, fcParams{maxOps: maxOps, withUpdates: true, sinkFaults: true}, i)
			}
		},
		Required: []string{"updates_applied", "updates_refused", "updates_old_or_equal", "finalizations", "histories_with_prune", "prune_notifications_checked", "sink_failures_injected", "head_ok"},
	})
	fw.Register(&fw.Prop{
		ID:    "C11",
		Level: "exploration",
		Rule: "the C09/C10 histories; after every mutation a battery of GetSlot, InSubtree, ClosestToSlot, CanonAtSlot (with/without block), CanonicalChain and Search (by parent, by slot, both, heads) over known, pruned and never-inserted roots and slots " +
			"before the anchor, inside the tree and beyond the head, compared with direct walks of the inserted tree; full battery at the end of each history. A case is one history; non-trivial when it has >=1 fork; distinct by op-sequence hash",
		Assumptions: []string{fcAssume, "CanonAtSlot is judged for anchorSlot <= slot < head.Slot only (at and beyond the head its documented meaning is ambiguous); Search without filters is judged as: result inside the view and containing every leaf block",
			"ProcessBlock's ok result is compared with the documented contract"},
		Batches:      func(tier string) int { return 16 },
		ChildTimeout: func(string) time.Duration { return 60 * time.Minute },
		Run: func(b *fw.B) {
			n := fcHistories(b.Tier, 12000, 160000)
			maxOps := 40
			if !fw.Quick(b.Tier) {
				maxOps = 100
			}
			for i := 0; i < n && !b.Stop(); i++ {
				b.Case("fc-history", "")
				runFcHistory(b, catQuery, fcParams{maxOps: maxOps, withUpdates: i%4 != 0, sinkFaults: i%2 == 1}, i)
			}
		},
		Required: []string{"q_getslot", "q_insubtree", "q_closest", "q_canonatslot", "q_canonicalchain", "q_search", "q_unknown_root", "histories_with_forks", "histories_with_prune"},
	})
}
