package props

import (
	"context"
	"errors"
	"fmt"
	"sort"

	"github.com/protolambda/zrnt/eth2/beacon/common"
	"github.com/protolambda/zrnt/eth2/configs"
	"github.com/protolambda/zrnt/eth2/forkchoice"
	"github.com/protolambda/zrnt/eth2/forkchoice/proto"

	"verif/fcmodel"
	"verif/fw"
)

// Shared fork-choice history driver for C09 (head), C10 (justified/finalized updates, pruning) and
// C11 (graph queries). The real ProtoForkChoice and the from-scratch model (fcmodel) receive the same
// calls; after every mutation the batteries below compare every answer. Each property reports only the
// discrepancies of its own category.

type fcCat int

const (
	catHead fcCat = iota
	catUpdate
	catQuery
)

type fcSink struct {
	calls    []fcmodel.Pruned
	failAt   int // 1-based index of the call that fails (0 = never)
	n        int
	failures int
}

func (s *fcSink) OnPrunedNode(ctx context.Context, ref forkchoice.NodeRef, canonical bool) error {
	s.n++
	if s.failAt > 0 && s.n == s.failAt {
		s.failures++
		return errors.New("sink failure injected")
	}
	s.calls = append(s.calls, fcmodel.Pruned{Ref: ref, Canonical: canonical})
	return nil
}

type fcHarness struct {
	b     *fw.B
	cat   fcCat
	fc    forkchoice.Forkchoice
	graph *proto.ProtoArray
	m     *fcmodel.Model
	sink  *fcSink
	// crossCat: while non-empty, divergences of other categories are reported under this history's own category with this prefix
	crossCat string
	// retainedOnly: the query battery asks only about roots that are alive in the model
	retainedOnly bool
	trace        []string
	roots        []common.Root // every root ever used (known and unknown)
	dead         bool          // stop this history (violation found / panic)
	lastWords    bool          // the final query battery after a foreign-category divergence is running or done
	pruned       bool
	nv           int
	// taint: a known-finding class this history falls into (affects signatures), "" if none
	taint string
}

func (h *fcHarness) viol(cat fcCat, sig, what string) {
	if cat != h.cat && h.crossCat != "" {
		// an observation made for this property's own sake (e.g. the head right after a prune, for C10's "keeps the head")
		cat, sig = h.cat, h.crossCat+sig
	}
	if cat == h.cat {
		if h.taint != "" {
			sig = sig + "@" + h.taint
		}
		h.b.Violate(sig, what+" — history: "+fmt.Sprint(h.trace), map[string]any{"history": h.trace})
	} else if h.cat == catQuery && !h.lastWords && !h.dead {
		// A divergence that belongs to another property's category ends this history (model and library are out of step),
		// but not silently: whatever it left behind in the graph is first put to the full query battery, whose answers are
		// this property's business (e.g. nodes that should have been pruned and still answer).
		h.lastWords = true
		h.b.Inc("histories_ended_by_another_category_after_a_last_query_battery")
		h.queryBattery(true)
	} else if h.cat == catHead && !h.lastWords && !h.dead {
		// likewise for the head: an update the library silently dropped or mis-applied shows in the head it computes next
		h.lastWords = true
		h.b.Inc("histories_ended_by_another_category_after_a_last_head_battery")
		h.headBattery()
	}
	h.dead = true
}

func (h *fcHarness) step(desc string) {
	h.trace = append(h.trace, desc)
	h.b.LogStep("%s", desc)
}

func (h *fcHarness) guard(cat fcCat, name string, f func()) bool {
	p, st := fw.Guard(f)
	if p != nil {
		if cat == h.cat || true {
			// a panic is a violation for whichever property's history triggered it through its own API category
			if cat == h.cat || h.crossCat != "" {
				sig := h.crossCat + name + "/panic"
				if h.taint != "" {
					sig += "@" + h.taint
				}
				h.b.Violate(sig, fmt.Sprintf("%s panicked: %v — history: %v", name, p, h.trace), map[string]any{"history": h.trace, "stack": st})
			}
		}
		h.dead = true
		return false
	}
	return true
}

func refStr(r common.NodeRef) string { return fmt.Sprintf("%x@%d", r.Root[:2], r.Slot) }

func sameRefSet(a, b []common.NodeRef) bool {
	if len(a) != len(b) {
		return false
	}
	x := append([]common.NodeRef{}, a...)
	y := append([]common.NodeRef{}, b...)
	fcmodel.SortRefs(x)
	fcmodel.SortRefs(y)
	for i := range x {
		if x[i] != y[i] {
			return false
		}
	}
	return true
}

func subset(a, b []common.NodeRef) bool {
	set := map[common.NodeRef]bool{}
	for _, r := range b {
		set[r] = true
	}
	for _, r := range a {
		if !set[r] {
			return false
		}
	}
	return true
}

// headBattery compares Head() and FindHead from several anchors.
func (h *fcHarness) headBattery() {
	if h.dead {
		return
	}
	var got common.NodeRef
	var err error
	if !h.guard(catHead, "Head", func() { got, err = h.fc.Head() }) {
		return
	}
	want, werr := h.m.Head()
	h.b.Inc("head_queries")
	if (err != nil) != (werr != nil) {
		h.viol(catHead, "Head/error-mismatch", fmt.Sprintf("Head() err=%v, model err=%v (model head %s)", err, werr, refStr(want)))
		return
	}
	if err == nil && got != want {
		h.viol(catHead, "Head/wrong", fmt.Sprintf("Head()=%s, LMD-GHOST walk from scratch gives %s", refStr(got), refStr(want)))
		return
	}
	if err == nil {
		h.b.Inc("head_ok")
		if hn := h.m.Get(want); hn != nil && h.m.Finalized.Epoch > 0 {
			// head inside the finalized subtree
			if unknown, in := h.m.InSubtree(h.m.Finalized.Root, want.Root); !unknown && !in {
				h.b.Inc("model_head_outside_finalized_unjudged")
			}
		}
	} else {
		h.b.Inc("head_err_both")
	}
	// FindHead from a few alive anchors
	alive := h.m.AliveRefs()
	for k := 0; k < 3 && len(alive) > 0; k++ {
		a := alive[h.b.Rng.IntN(len(alive))]
		var g common.NodeRef
		var e error
		if !h.guard(catHead, "FindHead", func() { g, e = h.fc.FindHead(a.Root, a.Slot) }) {
			return
		}
		w, we := h.m.FindHead(a.Root, a.Slot)
		h.b.Inc("findhead_queries")
		if (e != nil) != (we != nil) {
			h.viol(catHead, "FindHead/error-mismatch", fmt.Sprintf("FindHead(%s) err=%v, model err=%v", refStr(a), e, we))
			return
		}
		if e == nil && g != w {
			h.viol(catHead, "FindHead/wrong", fmt.Sprintf("FindHead(%s)=%s, model %s", refStr(a), refStr(g), refStr(w)))
			return
		}
	}
}

// queryBattery compares the navigation queries.
func (h *fcHarness) queryBattery(full bool) {
	if h.dead {
		return
	}
	alive := h.m.AliveRefs()
	// roots to ask about: known, pruned, never inserted
	var roots []common.Root
	seen := map[common.Root]bool{}
	for _, r := range h.roots {
		if !seen[r] {
			seen[r] = true
			roots = append(roots, r)
		}
	}
	if h.retainedOnly {
		roots, seen = nil, map[common.Root]bool{}
		for _, a := range alive {
			if !seen[a.Root] {
				seen[a.Root] = true
				roots = append(roots, a.Root)
			}
		}
	}
	nr := len(roots)
	if nr == 0 {
		return
	}
	pick := func() common.Root { return roots[h.b.Rng.IntN(nr)] }
	nq := 6
	if full {
		nq = 3 * nr
	}
	var maxSlot common.Slot
	for _, a := range alive {
		if a.Slot > maxSlot {
			maxSlot = a.Slot
		}
	}
	for q := 0; q < nq && !h.dead; q++ {
		r1, r2 := pick(), pick()
		if full {
			r1 = roots[q%nr]
		}
		// GetSlot
		var gs common.Slot
		var ok bool
		if !h.guard(catQuery, "GetSlot", func() { gs, ok = h.fc.GetSlot(r1) }) {
			return
		}
		ws, wok := h.m.GetSlot(r1)
		h.b.Inc("q_getslot")
		if ok != wok || (ok && gs != ws) {
			h.viol(catQuery, "GetSlot/wrong", fmt.Sprintf("GetSlot(%x)=%d,%v model %d,%v", r1[:2], gs, ok, ws, wok))
			return
		}
		h.b.CountIf(!wok, "q_unknown_root")
		// InSubtree
		var unk, in bool
		if !h.guard(catQuery, "InSubtree", func() { unk, in = h.fc.InSubtree(r1, r2) }) {
			return
		}
		wunk, win := h.m.InSubtree(r1, r2)
		h.b.Inc("q_insubtree")
		if unk != wunk || in != win {
			h.viol(catQuery, "InSubtree/wrong", fmt.Sprintf("InSubtree(anchor=%x, root=%x)=(unknown %v, in %v), tree walk says (%v, %v)", r1[:2], r2[:2], unk, in, wunk, win))
			return
		}
		// ClosestToSlot
		slot := common.Slot(h.b.Rng.IntN(int(maxSlot) + 4))
		var cr common.NodeRef
		var cerr error
		if !h.guard(catQuery, "ClosestToSlot", func() { cr, cerr = h.fc.ClosestToSlot(r1, slot) }) {
			return
		}
		wr, werr := h.m.ClosestToSlot(r1, slot)
		h.b.Inc("q_closest")
		if (cerr != nil) != (werr != nil) || (cerr == nil && cr != wr) {
			h.viol(catQuery, "ClosestToSlot/wrong", fmt.Sprintf("ClosestToSlot(%x, %d)=%s,%v model %s,%v", r1[:2], slot, refStr(cr), cerr, refStr(wr), werr))
			return
		}
		// CanonAtSlot
		for _, wb := range []bool{false, true} {
			var ar common.NodeRef
			var aerr error
			if !h.guard(catQuery, "CanonAtSlot", func() { ar, aerr = h.fc.CanonAtSlot(r1, slot, wb) }) {
				return
			}
			mr, merr, judged := h.m.CanonAtSlot(r1, slot, wb)
			if !judged {
				h.b.Inc("q_canonatslot_unjudged")
				continue
			}
			h.b.Inc("q_canonatslot")
			if (aerr != nil) != (merr != nil) || (aerr == nil && ar != mr) {
				h.viol(catQuery, "CanonAtSlot/wrong", fmt.Sprintf("CanonAtSlot(%x, %d, withBlock=%v)=%s,%v model %s,%v", r1[:2], slot, wb, refStr(ar), aerr, refStr(mr), merr))
				return
			}
		}
	}
	if h.dead || len(alive) == 0 {
		return
	}
	// CanonicalChain and Search from a few anchors
	na := 2
	if full {
		na = 5
	}
	for k := 0; k < na && !h.dead; k++ {
		a := alive[h.b.Rng.IntN(len(alive))]
		var chain []common.ExtendedNodeRef
		var err error
		if !h.guard(catQuery, "CanonicalChain", func() { chain, err = h.fc.CanonicalChain(a.Root, a.Slot) }) {
			return
		}
		wchain, werr := h.m.CanonicalChain(a.Root, a.Slot)
		h.b.Inc("q_canonicalchain")
		if (err != nil) != (werr != nil) {
			h.viol(catQuery, "CanonicalChain/error-mismatch", fmt.Sprintf("CanonicalChain(%s) err=%v model err=%v", refStr(a), err, werr))
			return
		}
		if err == nil {
			okc := len(chain) == len(wchain)
			for i := 0; okc && i < len(chain); i++ {
				okc = chain[i] == wchain[i]
			}
			if !okc {
				h.viol(catQuery, "CanonicalChain/wrong", fmt.Sprintf("CanonicalChain(%s) has %d entries, walk from head to anchor has %d (or entries differ)", refStr(a), len(chain), len(wchain)))
				return
			}
		}
		// Search: by parent, by slot, both, heads
		type sopt struct {
			p *common.Root
			s *common.Slot
		}
		pr := pick()
		sl := common.Slot(h.b.Rng.IntN(int(maxSlot) + 2))
		for _, o := range []sopt{{&pr, nil}, {nil, &sl}, {&pr, &sl}, {nil, nil}} {
			var nc, c []common.NodeRef
			var serr error
			if !h.guard(catQuery, "Search", func() { nc, c, serr = h.fc.Search(a, o.p, o.s) }) {
				return
			}
			wnc, wc, must, werr := h.m.Search(a, o.p, o.s)
			h.b.Inc("q_search")
			if (serr != nil) != (werr != nil) {
				h.viol(catQuery, "Search/error-mismatch", fmt.Sprintf("Search(%s) err=%v model err=%v", refStr(a), serr, werr))
				return
			}
			if serr != nil {
				continue
			}
			if o.p == nil && o.s == nil {
				all := append(append([]common.NodeRef{}, wnc...), wc...)
				got := append(append([]common.NodeRef{}, nc...), c...)
				if !subset(got, all) || !subset(must, got) || !subset(c, wc) || !subset(nc, wnc) {
					h.viol(catQuery, "Search/heads-wrong", fmt.Sprintf("Search(%s, heads): got canon %d nonCanon %d; every leaf block in view must be returned (%d) and nothing outside the view", refStr(a), len(c), len(nc), len(must)))
					return
				}
			} else if !sameRefSet(nc, wnc) || !sameRefSet(c, wc) {
				h.viol(catQuery, "Search/wrong", fmt.Sprintf("Search(%s, parent=%v, slot=%v): canon %d/nonCanon %d, tree walk says %d/%d", refStr(a), o.p != nil, o.s != nil, len(c), len(nc), len(wc), len(wnc)))
				return
			}
		}
	}
}

type fcParams struct {
	maxOps      int
	withUpdates bool
	sinkFaults  bool
}

func newRoot(b *fw.B) (r common.Root) {
	for i := range r {
		r[i] = byte(b.Rng.Uint32())
	}
	if r == (common.Root{}) {
		r[0] = 1
	}
	return
}

// runFcHistory executes one random history.
func runFcHistory(b *fw.B, cat fcCat, p fcParams, hNo int) {
	spec := configs.Minimal
	spe := uint64(spec.SLOTS_PER_EPOCH)
	h := &fcHarness{b: b, cat: cat}
	// initial anchor
	e0 := common.Epoch(b.Rng.IntN(3))
	anchorSlot := common.Slot(uint64(e0) * spe)
	anchorRoot := newRoot(b)
	anchorParent := common.Root{}
	if e0 > 0 || b.Rng.IntN(2) == 0 {
		anchorParent = newRoot(b)
	}
	nVals := 4 + b.Rng.IntN(28)
	mkBalances := func(n int) []common.Gwei {
		out := make([]common.Gwei, n)
		for i := range out {
			switch b.Rng.IntN(4) {
			case 0:
				out[i] = 0
			case 1:
				out[i] = 1_000_000_000
			default:
				out[i] = 32_000_000_000
			}
		}
		return out
	}
	bal := mkBalances(nVals)
	cp := common.Checkpoint{Epoch: e0, Root: anchorRoot}
	h.sink = &fcSink{}
	if p.sinkFaults && b.Rng.IntN(2) == 0 {
		h.sink.failAt = 1 + b.Rng.IntN(6)
	}
	h.graph = proto.NewProtoArray(anchorParent, anchorRoot, anchorSlot, cp.Epoch, cp.Epoch, h.sink)
	var err error
	h.step(fmt.Sprintf("New(anchor=%s parent=%x vals=%d bal=%s)", refStr(common.NodeRef{Root: anchorRoot, Slot: anchorSlot}), anchorParent[:2], nVals, balStr(bal)))
	if !h.guard(cat, "NewForkChoice", func() {
		h.fc, err = forkchoice.NewForkChoice(spec, cp, cp, anchorRoot, anchorSlot, h.graph, proto.NewProtoVoteStore(spec), append([]common.Gwei{}, bal...))
	}) {
		return
	}
	if err != nil {
		h.viol(cat, "NewForkChoice/error", fmt.Sprintf("constructor failed: %v", err))
		return
	}
	h.m = fcmodel.New(spe, cp, cp, anchorRoot, anchorSlot, anchorParent, bal)
	h.roots = []common.Root{anchorRoot, anchorParent, newRoot(b)}
	type epochs struct{ je, fe common.Epoch }
	nodeEpochs := map[common.Root]epochs{anchorRoot: {e0, e0}}
	blockOf := map[common.Root]struct {
		parent common.Root
		slot   common.Slot
	}{anchorRoot: {anchorParent, anchorSlot}} // the anchor block too can only come again as itself (after it was pruned)
	nOps := 5 + b.Rng.IntN(p.maxOps)
	lastBlock := anchorRoot
	forks, gapVotes, lateBlocks, updates := 0, 0, 0, 0
	// in 2 of 5 histories heads and queries are computed only now and then, so that votes and blocks pile up between two head computations
	// 1 history in 4 grows one long chain and updates its checkpoints often: repeated finalizations, also onto gap-slot anchors
	finalityHeavy := hNo%4 == 1
	b.CountIf(finalityHeavy && p.withUpdates, "histories_finality_heavy")
	sparseHeads := b.Rng.IntN(5) < 2
	b.CountIf(sparseHeads, "histories_with_sparse_head_computations")
	var lastVoter common.ValidatorIndex
	haveVoter, headSinceVote := false, true
	for op := 0; op < nOps && !h.dead && !b.Stop(); op++ {
		alive := h.m.AliveRefs()
		var knownRoots []common.Root
		for r := range h.m.FirstSlot {
			knownRoots = append(knownRoots, r)
		}
		sort.Slice(knownRoots, func(i, j int) bool { return string(knownRoots[i][:]) < string(knownRoots[j][:]) })
		if len(knownRoots) == 0 {
			break
		}
		r := b.Rng.IntN(100)
		if finalityHeavy && p.withUpdates && r >= 34 && r < 80 && b.Rng.IntN(2) == 0 {
			r = 85 // finality-heavy history: half of the non-block operations become checkpoint updates
		}
		mutated := true
		switch {
		case r < 34: // ProcessBlock
			parent := knownRoots[b.Rng.IntN(len(knownRoots))]
			if _, ok := h.m.GetSlot(lastBlock); ok && (b.Rng.IntN(10) < 5 || (finalityHeavy && b.Rng.IntN(10) < 8)) {
				parent = lastBlock // grow a long chain so that several epoch boundaries (checkpoints) exist
			}
			if b.Rng.IntN(20) == 0 {
				parent = h.roots[b.Rng.IntN(len(h.roots))] // maybe unknown / pruned
			}
			ps, _ := h.m.GetSlot(parent)
			slot := ps + 1 + common.Slot(b.Rng.IntN(4))
			switch b.Rng.IntN(12) {
			case 0:
				slot = ps + common.Slot(b.Rng.IntN(2*int(spe)))
			case 1:
				if ps > 0 {
					slot = ps - common.Slot(b.Rng.IntN(2)) // at or before the parent: must be refused
				}
			}
			root := newRoot(b)
			if b.Rng.IntN(15) == 0 {
				// a root seen before: a block root commits to its parent and slot, so a known block can only come again as itself
				// (duplicate delivery, or re-delivery after it was pruned); the anchor's parent root cannot become a descendant
				root = h.roots[b.Rng.IntN(len(h.roots))]
				if was, ok := blockOf[root]; ok {
					parent, slot = was.parent, was.slot
					b.Inc("blocks_delivered_again")
				} else if root == anchorParent {
					root = newRoot(b)
				}
			}
			if _, ok := blockOf[root]; !ok {
				blockOf[root] = struct {
					parent common.Root
					slot   common.Slot
				}{parent, slot}
			}
			pe := nodeEpochs[parent]
			ne := pe
			if b.Rng.IntN(6) == 0 {
				ne.je++
			}
			if b.Rng.IntN(10) == 0 && ne.fe < ne.je {
				ne.fe++
			}
			// is there already a child block of this parent? then this is a fork
			for _, a := range alive {
				if n := h.m.Get(a); n != nil && n.IsBlock() && n.ParentRoot == parent {
					forks++
					break
				}
			}
			for _, a := range alive {
				if a.Slot > slot {
					lateBlocks++
					break
				}
			}
			h.step(fmt.Sprintf("ProcessBlock(parent=%x root=%x slot=%d je=%d fe=%d)", parent[:2], root[:2], slot, ne.je, ne.fe))
			var ok bool
			if !h.guard(cat, "ProcessBlock", func() { ok = h.fc.ProcessBlock(parent, root, slot, ne.je, ne.fe) }) {
				return
			}
			wok := h.m.ProcessBlock(parent, root, slot, ne.je, ne.fe)
			h.roots = append(h.roots, root)
			if ok != wok {
				h.viol(catQuery, "ProcessBlock/ok-mismatch", fmt.Sprintf("ProcessBlock returned %v, documented contract gives %v", ok, wok))
				if cat != catQuery {
					h.dead = true
				}
				return
			}
			if wok {
				if _, have := nodeEpochs[root]; !have {
					nodeEpochs[root] = ne
					lastBlock = root
				}
			}
			b.CountIf(wok, "blocks_inserted")
		case r < 44: // ProcessSlot on a known root
			parent := knownRoots[b.Rng.IntN(len(knownRoots))]
			ps, _ := h.m.GetSlot(parent)
			slot := ps + 1 + common.Slot(b.Rng.IntN(5))
			pe := nodeEpochs[parent]
			h.step(fmt.Sprintf("ProcessSlot(parent=%x slot=%d)", parent[:2], slot))
			if !h.guard(cat, "ProcessSlot", func() { h.fc.ProcessSlot(parent, slot, pe.je, pe.fe) }) {
				return
			}
			h.m.ProcessSlot(parent, slot, pe.je, pe.fe)
			b.Inc("slots_inserted")
		case r < 74: // ProcessAttestation
			v := common.ValidatorIndex(b.Rng.IntN(nVals + 2))
			if haveVoter && b.Rng.IntN(3) == 0 {
				v = lastVoter // the same validator again, possibly before any head was computed in between
				b.CountIf(!headSinceVote, "votes_by_the_previous_voter_with_no_head_computed_in_between")
			}
			lastVoter, haveVoter, headSinceVote = v, true, false
			var ref common.NodeRef
			switch b.Rng.IntN(10) {
			case 0: // unknown root
				ref = common.NodeRef{Root: h.roots[b.Rng.IntN(len(h.roots))], Slot: common.Slot(b.Rng.IntN(30))}
			case 1: // known root, slot node that may not exist
				a := alive[b.Rng.IntN(len(alive))]
				ref = common.NodeRef{Root: a.Root, Slot: a.Slot + common.Slot(b.Rng.IntN(4))}
				if a.Slot > 0 && b.Rng.IntN(2) == 0 {
					ref.Slot = a.Slot - 1
				}
			default:
				ref = alive[b.Rng.IntN(len(alive))]
			}
			if n := h.m.Get(ref); n != nil && !n.IsBlock() {
				gapVotes++
			}
			h.step(fmt.Sprintf("ProcessAttestation(v=%d %s)", v, refStr(ref)))
			if !h.guard(cat, "ProcessAttestation", func() { h.fc.ProcessAttestation(v, ref.Root, ref.Slot) }) {
				return
			}
			acc, known := h.m.ProcessAttestation(v, ref.Root, ref.Slot)
			b.CountIf(acc, "votes_accepted")
			b.CountIf(known && !acc, "votes_stale_epoch")
			b.CountIf(!known, "votes_unknown_target")
		case r < 80: // SetPin
			var ref common.NodeRef
			if b.Rng.IntN(4) == 0 {
				ref = common.NodeRef{Root: h.roots[b.Rng.IntN(len(h.roots))], Slot: common.Slot(b.Rng.IntN(30))}
			} else {
				ref = alive[b.Rng.IntN(len(alive))]
			}
			h.step(fmt.Sprintf("SetPin(%s)", refStr(ref)))
			var perr error
			if !h.guard(cat, "SetPin", func() { perr = h.fc.SetPin(ref.Root, ref.Slot) }) {
				return
			}
			werr := h.m.SetPin(ref.Root, ref.Slot)
			if (perr != nil) != (werr != nil) {
				h.viol(catHead, "SetPin/error-mismatch", fmt.Sprintf("SetPin(%s) err=%v, node exists in model: %v", refStr(ref), perr, werr == nil))
				return
			}
			b.Inc("pins")
		case r < 92 && p.withUpdates: // UpdateJustified
			updates++
			h.doUpdate(nVals, mkBalances, spe)
		default:
			mutated = false
		}
		if h.dead {
			break
		}
		if sparseHeads {
			mutated = mutated && b.Rng.IntN(4) == 0
		}
		if mutated || (op%4 == 0 && !sparseHeads) {
			headSinceVote = true
			h.headBattery()
			if cat == catQuery || op%3 == 0 {
				h.queryBattery(false)
			}
		}
	}
	if !h.dead {
		h.headBattery()
		h.queryBattery(cat == catQuery)
	}
	if forks > 0 {
		b.Inc("histories_with_forks")
	}
	if gapVotes > 0 {
		b.Inc("histories_with_gap_slot_votes")
	}
	if lateBlocks > 0 {
		b.Inc("histories_with_late_blocks")
	}
	if h.pruned {
		b.Inc("histories_with_prune")
	}
	nontrivial := forks > 0
	if cat == catUpdate {
		nontrivial = updates > 0
	}
	if nontrivial {
		b.Nontrivial(fmt.Sprint(h.trace))
	}
	if hNo < 2 {
		b.Sample(map[string]any{"history": h.trace})
	}
}

func (h *fcHarness) doUpdate(nVals int, mkBalances func(int) []common.Gwei, spe uint64) {
	b := h.b
	alive := h.m.AliveRefs()
	// candidate checkpoints: alive nodes sitting at an epoch start slot
	type cand struct {
		cp   common.Checkpoint
		node *fcmodel.Node
	}
	var cands []cand
	for _, a := range alive {
		if uint64(a.Slot)%spe == 0 {
			cands = append(cands, cand{common.Checkpoint{Epoch: common.Epoch(uint64(a.Slot) / spe), Root: a.Root}, h.m.Get(a)})
		}
	}
	just, fin := h.m.Justified, h.m.Finalized
	kind := b.Rng.IntN(11)
	switch {
	case kind == 10 && len(cands) > 0 && fin.Epoch > 0:
		// mixed: justified ahead, finalized BEHIND the current one by epoch while its root is still inside the finalized subtree
		// (the same root, or a descendant): must be refused, finality never regresses
		var ahead []cand
		for _, c := range cands {
			if c.cp.Epoch > just.Epoch {
				ahead = append(ahead, c)
			}
		}
		if len(ahead) > 0 {
			just = ahead[b.Rng.IntN(len(ahead))].cp
		} else {
			just.Epoch++
		}
		fin.Epoch -= 1 + common.Epoch(b.Rng.IntN(int(fin.Epoch)))
		if b.Rng.IntN(2) == 0 {
			fin.Root = cands[b.Rng.IntN(len(cands))].cp.Root
		}
		b.Inc("updates_with_justified_ahead_and_finalized_behind")
	case kind < 6 && len(cands) > 0: // plausible: justified ahead, finalized an ancestor of it (maybe unchanged)
		j := cands[b.Rng.IntN(len(cands))]
		var ahead []cand
		for _, c := range cands {
			if c.cp.Epoch > just.Epoch {
				ahead = append(ahead, c)
			}
		}
		if len(ahead) > 0 {
			j = ahead[b.Rng.IntN(len(ahead))]
		}
		just = j.cp
		if b.Rng.IntN(3) != 0 {
			// finalized: an ancestor checkpoint of j, ahead of the current one
			var anc []cand
			for _, c := range cands {
				if c.node != j.node && c.cp.Epoch > fin.Epoch && h.m.InTSubtree(c.node, j.node) {
					anc = append(anc, c)
				}
			}
			if len(anc) > 0 {
				fin = anc[b.Rng.IntN(len(anc))].cp
			} else if b.Rng.IntN(3) == 0 {
				fin = j.cp
			}
		}
	case kind < 8 && len(cands) > 0: // arbitrary pair from candidates: conflicting / behind / justified<finalized
		just = cands[b.Rng.IntN(len(cands))].cp
		fin = cands[b.Rng.IntN(len(cands))].cp
	case kind == 8: // unknown root
		just = common.Checkpoint{Epoch: just.Epoch + 1, Root: h.roots[b.Rng.IntN(len(h.roots))]}
		if b.Rng.IntN(2) == 0 {
			fin = common.Checkpoint{Epoch: fin.Epoch + 1, Root: h.roots[b.Rng.IntN(len(h.roots))]}
		}
	default: // equal / behind
		if just.Epoch > 0 && b.Rng.IntN(2) == 0 {
			just.Epoch--
		}
	}
	trigger := just.Root
	if b.Rng.IntN(3) == 0 && len(alive) > 0 {
		trigger = alive[b.Rng.IntN(len(alive))].Root
	}
	nb := mkBalances(nVals + b.Rng.IntN(3) - 1)
	if b.Rng.IntN(3) == 0 {
		nb = append([]common.Gwei{}, h.m.Balances...)
	}
	// Is this history inside the domain where array-prefix pruning equals ancestry pruning?
	h.step(fmt.Sprintf("UpdateJustified(trigger=%x just=%d:%x fin=%d:%x nbal=%d bal=%s)", trigger[:2], just.Epoch, just.Root[:2], fin.Epoch, fin.Root[:2], len(nb), balStr(nb)))
	before := len(h.sink.calls)
	var err error
	if !h.guard(catUpdate, "UpdateJustified", func() {
		err = h.fc.UpdateJustified(context.Background(), trigger, just, fin, func() ([]common.Gwei, error) { return append([]common.Gwei{}, nb...), nil })
	}) {
		return
	}
	prevFin := h.m.Finalized
	changed, pruned, werr := h.m.UpdateJustified(trigger, just, fin, nb)
	b.Inc("updates")
	b.CountIf(changed, "updates_applied")
	b.CountIf(werr != nil, "updates_refused")
	b.CountIf(!changed && werr == nil, "updates_old_or_equal")
	sinkFailed := h.sink.failures > 0 && h.sink.failAt > 0 && h.sink.n >= h.sink.failAt
	if werr != nil {
		if err == nil {
			h.viol(catUpdate, "UpdateJustified/accepted-invalid", fmt.Sprintf("UpdateJustified accepted a checkpoint pair the contract refuses (model: %v)", werr))
		}
		return
	}
	if err != nil && !(sinkFailed && len(pruned) > 0) {
		h.viol(catUpdate, "UpdateJustified/refused-valid", fmt.Sprintf("UpdateJustified returned %v for a valid update", err))
		return
	}
	if !changed {
		if len(h.sink.calls) != before {
			h.viol(catUpdate, "UpdateJustified/old-checkpoint-pruned", "an older or equal checkpoint pair caused prune notifications")
		}
		return
	}
	if prevFin != fin {
		b.Inc("finalizations")
	}
	if len(pruned) > 0 {
		h.pruned = true
		b.Count("nodes_pruned_expected", int64(len(pruned)))
	}
	got := h.sink.calls[before:]
	if err != nil && sinkFailed {
		b.Inc("sink_failures_injected")
		// Between the failed prune and its retry "the nodes that were reported successfully are pruned, the remainder is left for a next call":
		// every retained node must answer as after the complete prune. Judged when the new anchor is a block node (then no left-over node
		// shares a root with a retained one, so questions about retained roots cannot legitimately touch a left-over).
		anchorIsBlock := false
		if an := h.m.Get(common.NodeRef{Root: fin.Root, Slot: h.m.StartSlot(fin.Epoch)}); an != nil && an.IsBlock() {
			anchorIsBlock = true
		}
		headFrom := common.NodeRef{Root: h.m.Justified.Root, Slot: h.m.StartSlot(h.m.Justified.Epoch)}
		if h.m.Pin != nil {
			headFrom = *h.m.Pin
		}
		if h.m.Get(headFrom) == nil {
			anchorIsBlock = false // the node the head is computed from is itself among the nodes to drop: until the retry the library still has it
		}
		if len(got) > 0 && h.cat != catQuery && anchorIsBlock {
			// the head is computed from the justified node downwards: what was left over for the next prune is not below it
			// (with a gap-slot anchor the blocks built on the finalized root hang below its not yet removed block node until the retry)
			if h.cat == catUpdate {
				h.crossCat = "between-failed-prune-and-retry/"
			}
			h.headBattery()
			h.crossCat = ""
			b.Inc("head_batteries_between_a_failed_prune_and_its_retry")
			if h.dead {
				return
			}
		}
		if an := h.m.Get(common.NodeRef{Root: fin.Root, Slot: h.m.StartSlot(fin.Epoch)}); an != nil && an.IsBlock() && len(got) > 0 && h.cat != catHead {
			h.retainedOnly = true
			if h.cat == catUpdate {
				h.crossCat = "between-failed-prune-and-retry/"
			}
			h.queryBattery(true)
			h.retainedOnly, h.crossCat = false, ""
			b.Inc("query_batteries_between_a_failed_prune_and_its_retry")
			if h.dead {
				return
			}
		}
		// part-way failure: what was reported must be a subset of the expected set, each once; then retry with a healthy sink
		h.sink.failAt = 0
		var rerr error
		if !h.guard(catUpdate, "OnPrune-retry", func() {
			rerr = h.graph.OnPrune(context.Background(), fin.Root, h.m.StartSlot(fin.Epoch))
		}) {
			return
		}
		if rerr != nil {
			h.viol(catUpdate, "OnPrune/retry-failed", fmt.Sprintf("retrying the prune with a healthy sink failed: %v", rerr))
			return
		}
		got = h.sink.calls[before:]
	}
	// compare notifications with the expected set
	exp := map[common.NodeRef]bool{}
	for _, pn := range pruned {
		exp[pn.Ref] = pn.Canonical
	}
	seen := map[common.NodeRef]int{}
	for _, g := range got {
		seen[g.Ref]++
		want, ok := exp[g.Ref]
		if !ok {
			h.viol(catUpdate, "prune/descendant-dropped", fmt.Sprintf("node %s was reported as pruned but it descends from the new finalized node", refStr(g.Ref)))
			return
		}
		if seen[g.Ref] > 1 {
			h.viol(catUpdate, "prune/reported-twice", fmt.Sprintf("node %s was reported to the prune sink twice", refStr(g.Ref)))
			return
		}
		if want != g.Canonical {
			h.viol(catUpdate, "prune/canonical-flag", fmt.Sprintf("node %s reported with canonical=%v, it is %v that it is an ancestor of the finalized node", refStr(g.Ref), g.Canonical, want))
			return
		}
	}
	for _, pn := range pruned {
		if seen[pn.Ref] == 0 {
			h.viol(catUpdate, "prune/non-descendant-retained", fmt.Sprintf("node %s does not descend from the new finalized node but was not reported as pruned", refStr(pn.Ref)))
			return
		}
	}
	b.Count("prune_notifications_checked", int64(len(got)))
	// exactly the dropped nodes are gone: every root that lost all its nodes is unknown now, every retained root still known
	roots := map[common.Root]bool{}
	for _, pn := range pruned {
		roots[pn.Ref.Root] = true
	}
	for r := range roots {
		var gs common.Slot
		var ok bool
		if !h.guard(catUpdate, "GetSlot", func() { gs, ok = h.fc.GetSlot(r) }) {
			return
		}
		ws, wok := h.m.GetSlot(r)
		b.Inc("pruned_roots_queried")
		if ok != wok || (ok && gs != ws) {
			if h.cat == catQuery {
				// the same observation is a wrong query answer (C11) and an inexact prune (C10)
				h.viol(catQuery, "GetSlot/wrong", fmt.Sprintf("GetSlot(%x)=%d,%v model %d,%v (right after a prune)", r[:2], gs, ok, ws, wok))
			} else {
				h.viol(catUpdate, "prune/root-still-known", fmt.Sprintf("after the prune GetSlot(%x)=%d,%v; the tree that remains says %d,%v", r[:2], gs, ok, ws, wok))
			}
			return
		}
	}
	// "every retained node answers all queries as before ... and the head stays inside the finalized subtree": asked right after the
	// prune, before any other operation can repair what the prune left behind
	if h.cat == catUpdate && len(pruned) > 0 && !h.dead {
		h.crossCat = "after-prune/"
		h.headBattery()
		h.queryBattery(false)
		h.crossCat = ""
		b.Inc("head_and_queries_right_after_a_prune")
	}
}

// balStr renders a balance vector compactly: one character per validator (0 = zero, 1 = 1 ETH, 3 = 32 ETH, ? = other).
func balStr(b []common.Gwei) string {
	out := make([]byte, len(b))
	for i, x := range b {
		switch x {
		case 0:
			out[i] = '0'
		case 1_000_000_000:
			out[i] = '1'
		case 32_000_000_000:
			out[i] = '3'
		default:
			out[i] = '?'
		}
	}
	return string(out)
}
