package props

import (
	"fmt"
	"time"

	"github.com/protolambda/zrnt/eth2/beacon/common"
	"github.com/protolambda/zrnt/eth2/beacon/phase0"
	"github.com/protolambda/ztyp/view"

	"verif/fw"
	"verif/refspec"
	"verif/refssz"
	"verif/sim"
)

// C13 — genesis state construction equals the spec's initialize_beacon_state_from_eth1.

func init() {
	fw.Register(&fw.Prop{
		ID:    "C13",
		Level: "exploration",
		Rule: "deposit lists of 0..300 entries (quick <=90) mixing valid deposits, bad proofs of possession, undecodable signatures, invalid (off-curve / infinity) pubkeys, repeated pubkeys (top-ups before and after reaching the cap), amounts {1 ETH..33 ETH, increment +-1 gwei}, " +
			"with real incremental deposit-tree proofs; presets minimal/custom/mainnet; genesis parameters (MIN_GENESIS_TIME, MIN_GENESIS_ACTIVE_VALIDATOR_COUNT, eth1 timestamp) on both sides of validity. GenesisFromEth1(state bytes, root, returned context), IsValidGenesisState and KickStartState " +
			"are compared with the reference initialize_beacon_state_from_eth1 / is_valid_genesis_state. A case is one deposit list; non-trivial when it mixes >=3 deposit kinds; distinct by list hash",
		Assumptions: append(append([]string{}, chainAssume...), "zrnt's documented refusal of registries smaller than SLOTS_PER_EPOCH (and of lists without any active validator: it cannot build a context) is outside the domain: counted, not judged",
			"KickStartState is compared with the reference run with signature and proof checking off and the given genesis time"),
		Batches:      func(tier string) int { return 16 },
		ChildTimeout: func(string) time.Duration { return 30 * time.Minute },
		Run:          runC13,
		Required:     []string{"genesis_compared", "genesis_built_while_others_are_built", "kickstart_compared", "kickstart_with_signatures_compared", "kickstart_wrong_key_refused", "validity_true", "validity_false", "deposit_valid_new", "deposit_bad_pop", "deposit_topup", "deposit_invalid_pubkey", "deposit_undecodable_sig", "deposit_over_cap", "deposit_below_max", "invalid_proof_rejected", "refused_small_registry_not_judged"},
	})
}

func runC13(b *fw.B) {
	quick := fw.Quick(b.Tier)
	n := 60 / 16
	if !quick {
		n = 3000 / 16
	}
	if n < 4 {
		n = 4
	}
	keys := sim.GetKeys()
	type keptGenesis struct {
		zspec    *common.Spec
		hash     common.Root
		eth1Time common.Timestamp
		deps     []common.Deposit
		bytes    string
		root     refspec.Root
		desc     string
	}
	var keptGen []keptGenesis
	defer func() {
		// the genesis states that were compared one by one are built again, 6 at the same time on goroutines of their own,
		// each from its own copy of the deposits: every build must still give the bytes and the root it gave alone
		if len(keptGen) == 0 {
			return
		}
		b.Case("genesis-overlapped", fmt.Sprintf("%d retained deposit lists built on 6 goroutines", len(keptGen)))
		msgs := overlapped(6, 2, func(w, i int) string {
			k := keptGen[(w+i)%len(keptGen)]
			deps := append([]common.Deposit{}, k.deps...)
			zst, _, err := phase0.GenesisFromEth1(k.zspec, k.hash, k.eth1Time, deps, false)
			if err != nil {
				return fmt.Sprintf("GenesisFromEth1 failed when other genesis states are built at the same time (%s): %v", k.desc, err)
			}
			zb, _ := sim.ZrntStateBytes(zst)
			if string(zb) != k.bytes {
				return fmt.Sprintf("genesis state built while other genesis states are built at the same time differs from the one built alone (%s)", k.desc)
			}
			if refspec.Root(sim.ZrntStateRoot(zst)) != k.root {
				return fmt.Sprintf("root of the genesis state built while other genesis states are built at the same time differs from initialize_beacon_state_from_eth1's (%s)", k.desc)
			}
			return ""
		})
		b.Count("genesis_built_while_others_are_built", 6*2)
		for _, m := range msgs {
			b.Violate("GenesisFromEth1/overlapping-builds", m, nil)
		}
	}()
	for i := 0; i < n && !b.Stop(); i++ {
		rng := b.Rng
		sc := scenario{Preset: []string{"minimal", "minimal", "custom", "mainnet"}[rng.IntN(4)], ForkEpochs: [4]uint64{ff, ff, ff, ff}}
		zspec := specFor(sc)
		if sc.Preset == "custom" && rng.IntN(2) == 0 {
			// an increment that does not divide the maximum effective balance: round down first, then cap (32 ETH needs a balance of 33)
			zspec.EFFECTIVE_BALANCE_INCREMENT = 3_000_000_000
			b.Inc("cases_with_an_increment_that_does_not_divide_the_maximum")
		}
		// genesis parameters around validity
		zspec.MIN_GENESIS_ACTIVE_VALIDATOR_COUNT = view.Uint64View(1 + rng.IntN(40))
		eth1Time := uint64(1_500_000_000 + rng.IntN(1000))
		switch rng.IntN(3) {
		case 0:
			zspec.MIN_GENESIS_TIME = common.Timestamp(eth1Time + uint64(zspec.GENESIS_DELAY)) // exactly at the boundary
		case 1:
			zspec.MIN_GENESIS_TIME = common.Timestamp(eth1Time + uint64(zspec.GENESIS_DELAY) + 1)
		default:
			zspec.MIN_GENESIS_TIME = common.Timestamp(eth1Time)
		}
		p := refspec.FromSpec(zspec)
		sp := refspec.NewSpec(p)
		c := &sim.Chain{ZSpec: zspec, Sp: sp, Keys: keys, Rng: rng, KeyOf: map[[48]byte]int{}}
		dc := sim.NewDepositContract(sp)
		maxN := 300
		if quick {
			maxN = 90
		}
		nDeps := rng.IntN(maxN + 1)
		switch rng.IntN(8) {
		case 0:
			nDeps = rng.IntN(int(p.SLOTS_PER_EPOCH) + 2) // around the refusal threshold
		case 1:
			nDeps = 0
		}
		kinds := map[string]int{}
		clean := (b.Batch+i)%4 == 3
		nextKey := 0
		incr := p.EFFECTIVE_BALANCE_INCREMENT
		for d := 0; d < nDeps; d++ {
			amounts := []uint64{p.MAX_EFFECTIVE_BALANCE, p.MAX_EFFECTIVE_BALANCE, p.MAX_EFFECTIVE_BALANCE, p.MAX_EFFECTIVE_BALANCE + incr, p.MAX_EFFECTIVE_BALANCE - 1, p.MAX_EFFECTIVE_BALANCE + 1,
				p.MAX_EFFECTIVE_BALANCE - incr, p.MAX_EFFECTIVE_BALANCE / 2, incr, incr - 1, 2*incr + 1}
			amt := amounts[rng.IntN(len(amounts))]
			k := rng.IntN(14)
			if clean {
				// a list of full, valid, distinct deposits only: every validator of the registry is active at genesis
				amt, k = amounts[rng.IntN(4)], 0
			}
			switch {
			case k < 7 && nextKey < sim.MaxKeys:
				dc.Add(c.MakeDepositData(nextKey, amt, rng.IntN(2) == 0, true))
				nextKey++
				kinds["deposit_valid_new"]++
				if amt > p.MAX_EFFECTIVE_BALANCE {
					kinds["deposit_over_cap"]++
				}
				if amt < p.MAX_EFFECTIVE_BALANCE {
					kinds["deposit_below_max"]++
				}
			case k < 9 && nextKey < sim.MaxKeys:
				dc.Add(c.MakeDepositData(nextKey, amt, false, false)) // bad proof of possession; key may return later with a valid one
				if rng.IntN(2) == 0 {
					nextKey++
				}
				kinds["deposit_bad_pop"]++
			case k < 11 && nextKey > 0:
				ki := rng.IntN(nextKey)
				dd := c.MakeDepositData(ki, []uint64{incr, incr / 2, 3 * incr, p.MAX_EFFECTIVE_BALANCE}[rng.IntN(4)], false, rng.IntN(2) == 0)
				if rng.IntN(2) == 0 {
					dd.Signature = [96]byte{} // undecodable: irrelevant for a top-up
				}
				dc.Add(dd)
				kinds["deposit_topup"]++
			case k == 11:
				dd := c.MakeDepositData(0, amt, false, true)
				switch rng.IntN(3) {
				case 0:
					for j := range dd.Pubkey { // random bytes: almost surely not a curve point
						dd.Pubkey[j] = byte(rng.Uint32())
					}
				case 1:
					dd.Pubkey = [48]byte{0xc0} // point at infinity
				default:
					dd.Pubkey[5] ^= 0x40 // corrupt a valid encoding
				}
				dc.Add(dd)
				kinds["deposit_invalid_pubkey"]++
			default:
				if nextKey < sim.MaxKeys {
					dd := c.MakeDepositData(nextKey, amt, false, true)
					if rng.IntN(2) == 0 {
						dd.Signature = [96]byte{}
					} else {
						for j := range dd.Signature {
							dd.Signature[j] = byte(rng.Uint32())
						}
					}
					dc.Add(dd)
					kinds["deposit_undecodable_sig"]++
				}
			}
		}
		total := len(dc.Leaves)
		var refDeps []refspec.Deposit
		var zDeps []common.Deposit
		for j := 0; j < total; j++ {
			proof := dc.Proof(uint64(j), uint64(j+1))
			refDeps = append(refDeps, refspec.Deposit{Proof: proof, Data: dc.Leaves[j]})
			zd := common.Deposit{Data: common.DepositData{Pubkey: common.BLSPubkey(dc.Leaves[j].Pubkey), WithdrawalCredentials: common.Root(dc.Leaves[j].WithdrawalCredentials), Amount: common.Gwei(dc.Leaves[j].Amount), Signature: common.BLSSignature(dc.Leaves[j].Signature)}}
			for q := range proof {
				zd.Proof[q] = common.Root(proof[q])
			}
			zDeps = append(zDeps, zd)
		}
		desc := fmt.Sprintf("%s preset, %d deposits %v", sc.Preset, total, kinds)
		b.Case("genesis", desc)
		for k, v := range kinds {
			b.Count(k, int64(v))
		}
		if len(kinds) >= 3 {
			b.Nontrivial(desc, i, b.Batch)
		}
		if i == 0 && b.Batch < 2 {
			b.Sample(map[string]any{"deposit_list": desc})
		}
		hash := refspec.Root{0x77, byte(i)}
		refSt, refErr := sp.InitializeBeaconStateFromEth1(hash, eth1Time, refDeps)
		if refErr != nil {
			b.Note("reference genesis failed: %v", refErr)
			continue
		}
		var zst *phase0.BeaconStateView
		var epc *common.EpochsContext
		var zerr error
		if !b.NoPanic("GenesisFromEth1/panic", func() {
			zst, epc, zerr = phase0.GenesisFromEth1(zspec, common.Root(hash), common.Timestamp(eth1Time), zDeps, false)
		}) {
			continue
		}
		active := len(sp.ActiveIndices(refSt, 0))
		if uint64(len(refSt.Validators)) < p.SLOTS_PER_EPOCH || active == 0 {
			b.Inc("refused_small_registry_not_judged")
			if zerr == nil {
				b.Inc("small_registry_accepted")
			}
		} else if zerr != nil {
			b.Violate("GenesisFromEth1/error", fmt.Sprintf("GenesisFromEth1 failed on a deposit list the specification accepts (%s): %v", desc, zerr), nil)
			continue
		}
		if zerr == nil {
			zb, _ := sim.ZrntStateBytes(zst)
			rb := sp.S.StateBytes(refSt)
			if string(zb) != string(rb) {
				diff := diffStates(sp, refSt.Fork, rb, zb)
				sig := "GenesisFromEth1/state-mismatch"
				if len(diff) > 0 {
					sig += "/" + diffPathClass(diff[0])
				}
				b.Violate(sig, fmt.Sprintf("genesis state differs from initialize_beacon_state_from_eth1 (reference != zrnt) for %s: %v", desc, diff), map[string]any{"diff": diff})
				continue
			}
			if rr := sp.S.StateRoot(refSt); refspec.Root(sim.ZrntStateRoot(zst)) != rr {
				b.Violate("GenesisFromEth1/root-mismatch", "genesis state bytes equal, roots differ", nil)
				continue
			}
			b.Inc("genesis_compared")
			if len(keptGen) < 6 {
				zs := *zspec
				keptGen = append(keptGen, keptGenesis{&zs, common.Root(hash), common.Timestamp(eth1Time), append([]common.Deposit{}, zDeps...), string(rb), sp.S.StateRoot(refSt), desc})
			}
			// the returned context
			fresh, ferr := common.NewEpochsContext(zspec, zst)
			if ferr != nil {
				b.Violate("GenesisFromEth1/fresh-context", fmt.Sprint(ferr), nil)
				continue
			}
			if d := epcDiff(epc, fresh, len(refSt.Validators)); d != "" {
				b.Violate("GenesisFromEth1/context/"+firstWord(d), fmt.Sprintf("the context returned by GenesisFromEth1 differs from a fresh one: %s (%s)", d, desc), nil)
				continue
			}
			if d := pubkeyLookupsDiff(epc, refSt); d != "" {
				b.Violate("GenesisFromEth1/context/pubkey-cache", d, nil)
				continue
			}
			compareAssignments(b, func(sig, what string) { b.Violate("GenesisFromEth1/"+sig, what, nil) }, zspec, sp, refSt, zst, epc, "genesis "+desc)
			// validity predicate
			wantValid := sp.IsValidGenesisState(refSt)
			gotValid, verr := phase0.IsValidGenesisState(zspec, zst)
			if verr != nil || gotValid != wantValid {
				b.Violate("IsValidGenesisState/wrong", fmt.Sprintf("IsValidGenesisState=%v (err %v), is_valid_genesis_state=%v: genesis_time %d vs MIN_GENESIS_TIME %d, active %d vs MIN_GENESIS_ACTIVE_VALIDATOR_COUNT %d", gotValid, verr, wantValid, refSt.GenesisTime, p.MIN_GENESIS_TIME, active, p.MIN_GENESIS_ACTIVE_VALIDATOR_COUNT), nil)
				continue
			}
			b.CountIf(wantValid, "validity_true")
			b.CountIf(!wantValid, "validity_false")
			// the same state under thresholds just below, at and just above what it has (both parameters)
			for _, dc := range []int64{-1, 0, 1} {
				for _, dt := range []int64{-1, 0, 1} {
					if int64(active)+dc < 0 {
						continue
					}
					vz := *zspec
					vz.MIN_GENESIS_ACTIVE_VALIDATOR_COUNT = view.Uint64View(uint64(int64(active) + dc))
					vz.MIN_GENESIS_TIME = common.Timestamp(uint64(int64(refSt.GenesisTime) + dt))
					vp := *sp.P
					vp.MIN_GENESIS_ACTIVE_VALIDATOR_COUNT = uint64(vz.MIN_GENESIS_ACTIVE_VALIDATOR_COUNT)
					vp.MIN_GENESIS_TIME = uint64(vz.MIN_GENESIS_TIME)
					want := (&refspec.Spec{P: &vp, S: sp.S}).IsValidGenesisState(refSt)
					got, verr := phase0.IsValidGenesisState(&vz, zst)
					b.Inc("validity_boundary_checks")
					b.CountIf(dc == 0 && len(refSt.Validators) == int(active), "validity_at_exact_count_with_every_validator_active")
					if verr != nil || got != want {
						b.Violate("IsValidGenesisState/wrong", fmt.Sprintf("IsValidGenesisState=%v (err %v), is_valid_genesis_state=%v: genesis_time %d vs MIN_GENESIS_TIME %d, active %d of %d validators vs MIN_GENESIS_ACTIVE_VALIDATOR_COUNT %d", got, verr, want, refSt.GenesisTime, vp.MIN_GENESIS_TIME, active, len(refSt.Validators), vp.MIN_GENESIS_ACTIVE_VALIDATOR_COUNT), nil)
					}
				}
			}
		}
		// one corrupted proof: both must refuse
		if total > 0 && i%3 == 0 {
			bad := append([]common.Deposit{}, zDeps...)
			k := rng.IntN(total)
			bad[k].Proof[rng.IntN(33)][rng.IntN(32)] ^= 1
			var err error
			if b.NoPanic("GenesisFromEth1/panic", func() {
				_, _, err = phase0.GenesisFromEth1(zspec, common.Root(hash), common.Timestamp(eth1Time), bad, false)
			}) {
				if err == nil {
					b.Violate("GenesisFromEth1/invalid-proof-accepted", fmt.Sprintf("a deposit list with a corrupted Merkle proof at deposit %d was accepted", k), nil)
				} else {
					b.Inc("invalid_proof_rejected")
				}
			}
		}
		// KickStartState vs the reference with checks off
		if total > 0 {
			var kv []phase0.KickstartValidatorData
			var kd []refspec.Deposit
			for j := 0; j < total; j++ {
				if _, known := c.KeyOf[dc.Leaves[j].Pubkey]; !known {
					continue // KickStartState takes validator data with real keys; undecodable keys are not its domain
				}
				kv = append(kv, phase0.KickstartValidatorData{Pubkey: common.BLSPubkey(dc.Leaves[j].Pubkey), WithdrawalCredentials: common.Root(dc.Leaves[j].WithdrawalCredentials), Balance: common.Gwei(dc.Leaves[j].Amount)})
			}
			// the reference sees the deposits zrnt synthesises: same data with its placeholder signature; the signature is not checked and not stored
			spk := refspec.NewSpec(p)
			spk.SkipDepositChecks = true
			for j := 0; j < total; j++ {
				if _, known := c.KeyOf[dc.Leaves[j].Pubkey]; !known {
					continue
				}
				d := dc.Leaves[j]
				d.Signature = kickstartPlaceholderSig
				kd = append(kd, refspec.Deposit{Data: d})
			}
			if len(kd) == 0 {
				continue
			}
			kref, kerr := spk.InitializeBeaconStateFromEth1(hash, 0, kd)
			if kerr != nil {
				continue
			}
			kref.GenesisTime = 12345
			var kst *phase0.BeaconStateView
			var kzerr error
			if !b.NoPanic("KickStartState/panic", func() { kst, _, kzerr = phase0.KickStartState(zspec, common.Root(hash), 12345, kv) }) {
				continue
			}
			if uint64(len(kref.Validators)) < p.SLOTS_PER_EPOCH || len(spk.ActiveIndices(kref, 0)) == 0 {
				continue
			}
			if kzerr != nil {
				b.Violate("KickStartState/error", fmt.Sprintf("KickStartState failed: %v (%s)", kzerr, desc), nil)
				continue
			}
			zb, _ := sim.ZrntStateBytes(kst)
			rb := spk.S.StateBytes(kref)
			if string(zb) != string(rb) {
				diff := diffStates(spk, kref.Fork, rb, zb)
				sig := "KickStartState/state-mismatch"
				if len(diff) > 0 {
					sig += "/" + diffPathClass(diff[0])
				}
				b.Violate(sig, fmt.Sprintf("KickStartState differs from the reference genesis with checks off (reference != zrnt) for %s: %v", desc, diff), nil)
				continue
			}
			b.Inc("kickstart_compared")
			// KickStartStateWithSignatures: the same validator data plus the secret keys must give the same state;
			// a key that does not belong to its pubkey must be refused
			if len(kv) <= 64 || i%4 == 0 {
				sks := make([][32]byte, len(kv))
				for j := range kv {
					sks[j] = keys.SK[c.KeyOf[[48]byte(kv[j].Pubkey)]].Serialize()
				}
				var kst2 *phase0.BeaconStateView
				if !b.NoPanic("KickStartStateWithSignatures/panic", func() { kst2, _, kzerr = phase0.KickStartStateWithSignatures(zspec, common.Root(hash), 12345, kv, sks) }) {
					continue
				}
				if kzerr != nil {
					b.Violate("KickStartStateWithSignatures/error", fmt.Sprintf("KickStartStateWithSignatures failed: %v (%s)", kzerr, desc), nil)
					continue
				}
				// the reference sees the same validator data with the signatures this function is documented to make
				// (the deposit root commits to them)
				kd2 := make([]refspec.Deposit, len(kd))
				for j := range kd {
					d := kd[j].Data
					msg := refspec.DepositMessage{Pubkey: d.Pubkey, WithdrawalCredentials: d.WithdrawalCredentials, Amount: d.Amount}
					d.Signature = sim.Sign(keys.SK[c.KeyOf[d.Pubkey]], spk.SigningRoot(refssz.RootOf(spk.S.DepositMessage, msg), spk.ComputeDomain(refspec.DOMAIN_DEPOSIT, spk.ForkVersions[refspec.Phase0], refspec.Root{})))
					kd2[j] = refspec.Deposit{Data: d}
				}
				kref2, kerr2 := spk.InitializeBeaconStateFromEth1(hash, 0, kd2)
				if kerr2 != nil {
					continue
				}
				kref2.GenesisTime = 12345
				rb := spk.S.StateBytes(kref2)
				if zb2, _ := sim.ZrntStateBytes(kst2); string(zb2) != string(rb) {
					diff := diffStates(spk, kref.Fork, rb, zb2)
					b.Violate("KickStartStateWithSignatures/state-mismatch", fmt.Sprintf("KickStartStateWithSignatures differs from the reference genesis (reference != zrnt) for %s: %v", desc, diff), nil)
					continue
				}
				b.Inc("kickstart_with_signatures_compared")
				if len(kv) >= 2 && kv[0].Pubkey != kv[1].Pubkey {
					sks[0], sks[1] = sks[1], sks[0]
					var werr error
					if b.NoPanic("KickStartStateWithSignatures/panic", func() { _, _, werr = phase0.KickStartStateWithSignatures(zspec, common.Root(hash), 12345, kv, sks) }) {
						if werr == nil {
							b.Violate("KickStartStateWithSignatures/wrong-key-accepted", "secret keys that do not belong to the validators' pubkeys were accepted", nil)
						} else {
							b.Inc("kickstart_wrong_key_refused")
						}
					}
				}
			}
		}
	}
}
