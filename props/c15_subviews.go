package props

import (
	"encoding/binary"
	"fmt"
	"reflect"

	"github.com/protolambda/zrnt/eth2/beacon/bellatrix"
	"github.com/protolambda/zrnt/eth2/beacon/capella"
	"github.com/protolambda/zrnt/eth2/beacon/common"
	"github.com/protolambda/zrnt/eth2/beacon/deneb"
	"github.com/protolambda/ztyp/view"

	rs "verif/refssz"
)

// Typed sub-views (C15: "typed sub-views read and write the element they name").
// The container field is fetched by the position the spec schema gives it, wrapped in the library's typed view,
// and every field getter of that view is compared with the model value of the field it names.

type fieldGetter struct {
	method string
	item   int // index of the field in the spec container
}

// resultBytes turns a getter result (uint64 kinds, byte arrays, pointers to them, uint256) into comparable form.
func resultBytes(v reflect.Value) (u uint64, b []byte, isU bool, ok bool) {
	for v.Kind() == reflect.Ptr {
		if v.IsNil() {
			return 0, nil, false, false
		}
		v = v.Elem()
	}
	switch v.Kind() {
	case reflect.Uint64, reflect.Uint32, reflect.Uint16, reflect.Uint8:
		return v.Uint(), nil, true, true
	case reflect.Bool:
		if v.Bool() {
			return 1, nil, true, true
		}
		return 0, nil, true, true
	case reflect.Array:
		switch v.Type().Elem().Kind() {
		case reflect.Uint8:
			out := make([]byte, v.Len())
			for i := range out {
				out[i] = byte(v.Index(i).Uint())
			}
			return 0, out, false, true
		case reflect.Uint64: // uint256 as four little-endian limbs
			out := make([]byte, 8*v.Len())
			for i := 0; i < v.Len(); i++ {
				binary.LittleEndian.PutUint64(out[8*i:], v.Index(i).Uint())
			}
			return 0, out, false, true
		}
	case reflect.Slice:
		if v.Type().Elem().Kind() == reflect.Uint8 {
			return 0, append([]byte{}, v.Bytes()...), false, true
		}
	}
	return 0, nil, false, false
}

func (a *accCtx) checkFieldGetters(viewName string, obj any, model *rs.Value, getters []fieldGetter, viol func(sig, what string)) {
	rv := reflect.ValueOf(obj)
	for _, g := range getters {
		m := rv.MethodByName(g.method)
		if !m.IsValid() {
			continue // this fork's view does not have the getter
		}
		out := m.Call(nil)
		op := viewName + "." + g.method
		if len(out) == 2 && !out[1].IsNil() {
			viol("accessor-error/"+op, fmt.Sprintf("%s on a %s state returned an error: %v", op, a.fork, out[1].Interface()))
			continue
		}
		u, b, isU, ok := resultBytes(out[0])
		if !ok || g.item >= len(model.Items) {
			continue
		}
		a.b.Inc("getter_checks")
		a.b.Inc("subview_getter_checks")
		a.b.SetAdd("subview_getters", op)
		want := model.Items[g.item]
		if isU {
			if want.B != nil || u != want.U {
				viol("getter/"+op, fmt.Sprintf("%s on a %s state returned %d, the stored value of that field is %d (%x)", op, a.fork, u, want.U, want.B))
			}
		} else if string(b) != string(want.B) {
			viol("getter/"+op, fmt.Sprintf("%s on a %s state returned %x, the stored value of that field is %x", op, a.fork, b[:min(len(b), 40)], want.B[:min(len(want.B), 40)]))
		}
	}
}

// subViews runs the battery on s; setters of the sub-views update the model.
func (a *accCtx) subViews(s *accState, viol func(sig, what string)) string {
	c, ok := s.st.(interface {
		Get(i uint64) (view.View, error)
	})
	if !ok {
		return ""
	}
	m := s.model
	rng := a.b.Rng
	check := func(op string, err error) bool {
		if err != nil {
			viol("accessor-error/"+op, fmt.Sprintf("%s on a %s state returned an error: %v", op, a.fork, err))
			return false
		}
		return true
	}
	for _, name := range []string{"previous_justified_checkpoint", "current_justified_checkpoint", "finalized_checkpoint"} {
		i := a.idx(name)
		if i < 0 {
			continue
		}
		cv, err := common.AsCheckPoint(c.Get(uint64(i)))
		if !check("AsCheckPoint("+name+")", err) {
			continue
		}
		a.checkFieldGetters("CheckpointView", cv, m.Items[i], []fieldGetter{{"Epoch", 0}, {"Root", 1}}, viol)
		if rng.IntN(3) == 0 {
			cp := common.Checkpoint{Epoch: common.Epoch(rng.Uint64() >> uint(rng.IntN(64))), Root: a.randRoot()}
			if check("CheckpointView.Set", cv.Set(&cp)) {
				m.Items[i] = &rs.Value{Items: []*rs.Value{u64v(uint64(cp.Epoch)), rootv(cp.Root)}}
			}
			cp.Epoch++ // the caller's struct is its own
			cp.Root[3] ^= 0xff
		}
	}
	if i := a.idx("fork"); i >= 0 {
		if fv, err := common.AsFork(c.Get(uint64(i))); check("AsFork", err) {
			a.checkFieldGetters("ForkView", fv, m.Items[i], []fieldGetter{{"PreviousVersion", 0}, {"CurrentVersion", 1}, {"Epoch", 2}}, viol)
		}
	}
	if i := a.idx("latest_block_header"); i >= 0 {
		if hv, err := common.AsBeaconBlockHeader(c.Get(uint64(i))); check("AsBeaconBlockHeader", err) {
			a.checkFieldGetters("BeaconBlockHeaderView", hv, m.Items[i], []fieldGetter{{"Slot", 0}, {"ProposerIndex", 1}, {"ParentRoot", 2}, {"StateRoot", 3}, {"BodyRoot", 4}}, viol)
			if rng.IntN(3) == 0 {
				r := a.randRoot()
				if check("BeaconBlockHeaderView.SetStateRoot", hv.SetStateRoot(r)) {
					m.Items[i].Items[3] = rootv(r)
				}
			}
		}
	}
	if i := a.idx("eth1_data"); i >= 0 {
		if ev, err := common.AsEth1Data(c.Get(uint64(i))); check("AsEth1Data", err) {
			a.checkFieldGetters("Eth1DataView", ev, m.Items[i], []fieldGetter{{"DepositRoot", 0}, {"DepositCount", 1}, {"BlockHash", 2}}, viol)
			if rng.IntN(3) == 0 {
				r := a.randRoot()
				if check("Eth1DataView.SetDepositRoot", ev.SetDepositRoot(r)) {
					m.Items[i].Items[0] = rootv(r)
				}
			}
		}
	}
	for _, name := range []string{"current_sync_committee", "next_sync_committee"} {
		i := a.idx(name)
		if i < 0 {
			continue
		}
		scv, err := common.AsSyncCommittee(c.Get(uint64(i)))
		if !check("AsSyncCommittee("+name+")", err) {
			continue
		}
		a.checkFieldGetters("SyncCommitteeView", scv, m.Items[i], []fieldGetter{{"AggregatePubkey", 1}}, viol)
		pv, err := scv.Pubkeys()
		if !check("SyncCommitteeView.Pubkeys", err) {
			continue
		}
		flat, err := pv.Flatten()
		if !check("SyncCommitteePubkeysView.Flatten", err) {
			continue
		}
		a.b.Inc("subview_getter_checks")
		a.b.SetAdd("subview_getters", "SyncCommitteeView.Pubkeys.Flatten")
		want := m.Items[i].Items[0].Items
		if len(flat) != len(want) {
			viol("getter/SyncCommitteeView.Pubkeys", fmt.Sprintf("Pubkeys().Flatten() of %s on a %s state has %d keys, stored %d", name, a.fork, len(flat), len(want)))
			continue
		}
		for k := range flat {
			if string(flat[k][:]) != string(want[k].B) {
				viol("getter/SyncCommitteeView.Pubkeys", fmt.Sprintf("Pubkeys().Flatten()[%d] of %s on a %s state is %x, stored %x", k, name, a.fork, flat[k][:8], want[k].B[:8]))
				break
			}
		}
	}
	if i := a.idx("latest_execution_payload_header"); i >= 0 {
		getters := []fieldGetter{{"ParentHash", 0}, {"FeeRecipient", 1}, {"StateRoot", 2}, {"ReceiptRoot", 3}, {"LogsBloom", 4}, {"Random", 5}, {"BlockNumber", 6}, {"GasLimit", 7}, {"GasUsed", 8},
			{"Timestamp", 9}, {"ExtraData", 10}, {"BaseFeePerGas", 11}, {"BlockHash", 12}, {"TransactionsRoot", 13}, {"WithdrawalsRoot", 14}, {"BlobGasUsed", 15}, {"ExcessBlobGas", 16}}
		var hv any
		var err error
		switch a.fork {
		case "bellatrix":
			hv, err = bellatrix.AsExecutionPayloadHeader(c.Get(uint64(i)))
		case "capella":
			hv, err = capella.AsExecutionPayloadHeader(c.Get(uint64(i)))
		default:
			hv, err = deneb.AsExecutionPayloadHeader(c.Get(uint64(i)))
		}
		if check("AsExecutionPayloadHeader", err) {
			a.checkFieldGetters("ExecutionPayloadHeaderView", hv, m.Items[i], getters, viol)
		}
	}
	a.b.Inc("op_SubViews")
	return "SubViews"
}
