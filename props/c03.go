package props

import (
	"context"
	"errors"
	"fmt"
	"os"
	"path/filepath"
	"reflect"
	"regexp"
	"sort"
	"strings"
	"time"

	blsu "github.com/protolambda/bls12-381-util"
	"github.com/protolambda/zrnt/eth2/beacon"
	"github.com/protolambda/zrnt/eth2/beacon/common"

	"verif/fw"
	"verif/refspec"
	"verif/refssz"
	"verif/sim"
)

// C03 — every block or operation the spec rejects is rejected, without panicking.

func deepCopy[T any](x T) T {
	return deepCopyValue(reflect.ValueOf(x)).Interface().(T)
}

func deepCopyValue(v reflect.Value) reflect.Value {
	switch v.Kind() {
	case reflect.Slice:
		if v.IsNil() {
			return v
		}
		out := reflect.MakeSlice(v.Type(), v.Len(), v.Len())
		for i := 0; i < v.Len(); i++ {
			out.Index(i).Set(deepCopyValue(v.Index(i)))
		}
		return out
	case reflect.Struct:
		out := reflect.New(v.Type()).Elem()
		for i := 0; i < v.NumField(); i++ {
			out.Field(i).Set(deepCopyValue(v.Field(i)))
		}
		return out
	case reflect.Array:
		out := reflect.New(v.Type()).Elem()
		reflect.Copy(out, v)
		return out
	}
	return v
}

type mutCtx struct {
	c     *sim.Chain
	sp    *refspec.Spec
	pre   *refspec.State // advanced to the valid block's slot
	valid *refspec.SignedBlock
	b     *fw.B
	// oldSync: the sync committee of an earlier period of this chain that differs from the current one (nil if there is none yet)
	oldSync *refspec.SyncCommittee
}

// a mutator edits the block in place; outer mutators are judged with signature and state-root validation on
type mutator struct {
	name  string
	outer bool
	apply func(m *mutCtx, blk *refspec.SignedBlock) bool
}

func (m *mutCtx) resign(blk *refspec.SignedBlock, version *[4]byte, domType [4]byte, gvr *refspec.Root, keyOf uint64) {
	sp := m.sp
	v := m.pre.ForkData.CurrentVersion
	if version != nil {
		v = *version
	}
	g := m.pre.GenesisValidatorsRoot
	if gvr != nil {
		g = *gvr
	}
	dom := sp.ComputeDomain(domType, v, g)
	sr := sp.SigningRoot(sp.S.BlockRoot(&blk.Message), dom)
	blk.Signature = sim.Sign(m.c.Keys.SK[m.c.KeyOf[m.pre.Validators[keyOf].Pubkey]], sr)
}

func (m *mutCtx) sk(v uint64) *blsu.SecretKey {
	return m.c.Keys.SK[m.c.KeyOf[m.pre.Validators[v].Pubkey]]
}

func c03Mutators() []mutator {
	flip := func(r *refspec.Root) { r[3] ^= 0x10 }
	otherVersion := func(m *mutCtx) [4]byte {
		// previous fork version if there is one, else the next one
		if m.pre.Fork > 0 {
			return m.sp.ForkVersions[m.pre.Fork-1]
		}
		return m.sp.ForkVersions[1]
	}
	muts := []mutator{
		// ---- header / outer
		{"header/slot+1", false, func(m *mutCtx, b *refspec.SignedBlock) bool { b.Message.Slot++; return true }},
		{"header/slot<=latest", false, func(m *mutCtx, b *refspec.SignedBlock) bool {
			b.Message.Slot = m.c.Ref.LatestBlockHeader.Slot
			return true
		}},
		{"header/parent-root", false, func(m *mutCtx, b *refspec.SignedBlock) bool { flip(&b.Message.ParentRoot); return true }},
		{"header/proposer-other", false, func(m *mutCtx, b *refspec.SignedBlock) bool {
			b.Message.ProposerIndex = (b.Message.ProposerIndex + 1) % uint64(len(m.pre.Validators))
			return true
		}},
		{"header/proposer-out-of-range", false, func(m *mutCtx, b *refspec.SignedBlock) bool {
			b.Message.ProposerIndex = uint64(len(m.pre.Validators)) + uint64(m.b.Rng.IntN(3))
			return true
		}},
		{"outer/state-root", true, func(m *mutCtx, b *refspec.SignedBlock) bool {
			flip(&b.Message.StateRoot)
			m.resign(b, nil, refspec.DOMAIN_BEACON_PROPOSER, nil, b.Message.ProposerIndex)
			return true
		}},
		{"outer/signature-flipped", true, func(m *mutCtx, b *refspec.SignedBlock) bool { b.Signature[40] ^= 1; return true }},
		{"outer/signature-zero", true, func(m *mutCtx, b *refspec.SignedBlock) bool { b.Signature = [96]byte{}; return true }},
		{"outer/signature-other-key", true, func(m *mutCtx, b *refspec.SignedBlock) bool {
			m.resign(b, nil, refspec.DOMAIN_BEACON_PROPOSER, nil, (b.Message.ProposerIndex+1)%uint64(len(m.pre.Validators)))
			return true
		}},
		{"outer/signature-other-domain-type", true, func(m *mutCtx, b *refspec.SignedBlock) bool {
			m.resign(b, nil, refspec.DOMAIN_BEACON_ATTESTER, nil, b.Message.ProposerIndex)
			return true
		}},
		{"outer/signature-other-fork-version", true, func(m *mutCtx, b *refspec.SignedBlock) bool {
			v := otherVersion(m)
			m.resign(b, &v, refspec.DOMAIN_BEACON_PROPOSER, nil, b.Message.ProposerIndex)
			return true
		}},
		{"outer/signature-other-chain", true, func(m *mutCtx, b *refspec.SignedBlock) bool {
			g := m.pre.GenesisValidatorsRoot
			g[0] ^= 1
			m.resign(b, nil, refspec.DOMAIN_BEACON_PROPOSER, &g, b.Message.ProposerIndex)
			return true
		}},
		{"outer/block-of-the-previous-fork-type", true, func(m *mutCtx, b *refspec.SignedBlock) bool {
			// the same content encoded and signed as a block of the previous fork (fields the older body lacks are dropped)
			if b.Message.Fork == 0 || b.Message.Fork != m.pre.Fork {
				return false
			}
			b.Message.Fork--
			m.resign(b, nil, refspec.DOMAIN_BEACON_PROPOSER, nil, b.Message.ProposerIndex)
			return true
		}},
		// ---- randao
		{"randao/other-epoch", false, func(m *mutCtx, b *refspec.SignedBlock) bool {
			ep := m.sp.CurrentEpoch(m.pre) + 1
			b.Message.Body.RandaoReveal = sim.Sign(m.sk(b.Message.ProposerIndex), m.sp.SigningRoot(refspec.U64Root(ep), m.sp.Domain(m.pre, refspec.DOMAIN_RANDAO, ep)))
			return true
		}},
		{"randao/other-key", false, func(m *mutCtx, b *refspec.SignedBlock) bool {
			ep := m.sp.CurrentEpoch(m.pre)
			b.Message.Body.RandaoReveal = sim.Sign(m.sk((b.Message.ProposerIndex+1)%uint64(len(m.pre.Validators))), m.sp.SigningRoot(refspec.U64Root(ep), m.sp.Domain(m.pre, refspec.DOMAIN_RANDAO, ep)))
			return true
		}},
		{"randao/other-domain", false, func(m *mutCtx, b *refspec.SignedBlock) bool {
			ep := m.sp.CurrentEpoch(m.pre)
			b.Message.Body.RandaoReveal = sim.Sign(m.sk(b.Message.ProposerIndex), m.sp.SigningRoot(refspec.U64Root(ep), m.sp.Domain(m.pre, refspec.DOMAIN_BEACON_PROPOSER, ep)))
			return true
		}},
		{"randao/undecodable", false, func(m *mutCtx, b *refspec.SignedBlock) bool {
			b.Message.Body.RandaoReveal = [96]byte{1, 2, 3}
			return true
		}},
	}
	// ---- attestations
	att := func(name string, f func(m *mutCtx, a *refspec.Attestation, b *refspec.SignedBlock) bool) mutator {
		return mutator{"attestation/" + name, false, func(m *mutCtx, b *refspec.SignedBlock) bool {
			if len(b.Message.Body.Attestations) == 0 {
				return false
			}
			return f(m, &b.Message.Body.Attestations[m.b.Rng.IntN(len(b.Message.Body.Attestations))], b)
		}}
	}
	resignAtt := func(m *mutCtx, a *refspec.Attestation, version *[4]byte, domType [4]byte) {
		sp := m.sp
		var sks []*blsu.SecretKey
		for _, v := range sp.AttestingIndices(m.pre, &a.Data, a.AggregationBits) {
			sks = append(sks, m.sk(v))
		}
		dom := sp.Domain(m.pre, domType, a.Data.Target.Epoch)
		if version != nil {
			dom = sp.ComputeDomain(domType, *version, m.pre.GenesisValidatorsRoot)
		}
		a.Signature = sim.AggSign(sks, sp.SigningRoot(refssz.RootOf(sp.S.AttestationData, a.Data), dom))
	}
	muts = append(muts,
		att("target-epoch+1", func(m *mutCtx, a *refspec.Attestation, b *refspec.SignedBlock) bool {
			a.Data.Target.Epoch++
			resignAtt(m, a, nil, refspec.DOMAIN_BEACON_ATTESTER)
			return true
		}),
		att("target-epoch-1", func(m *mutCtx, a *refspec.Attestation, b *refspec.SignedBlock) bool {
			if a.Data.Target.Epoch == 0 {
				return false
			}
			a.Data.Target.Epoch--
			resignAtt(m, a, nil, refspec.DOMAIN_BEACON_ATTESTER)
			return true
		}),
		att("slot-too-new", func(m *mutCtx, a *refspec.Attestation, b *refspec.SignedBlock) bool {
			a.Data.Slot = m.pre.Slot
			a.Data.Target.Epoch = m.sp.EpochAtSlot(a.Data.Slot)
			return true
		}),
		att("older-than-one-epoch-but-previous-epoch-target", func(m *mutCtx, a *refspec.Attestation, b *refspec.SignedBlock) bool {
			// a fully valid aggregate of the previous epoch, SLOTS_PER_EPOCH+1 slots old: refused before deneb, accepted since (EIP-7045)
			spe := m.sp.SLOTS_PER_EPOCH
			if m.pre.Slot < spe+1 || m.pre.Slot%spe == 0 {
				return false
			}
			old, ok := m.c.MakeAttestation(m.pre, m.pre.Slot-spe-1, 0, sim.Plan{Participation: 1})
			if !ok {
				return false
			}
			*a = old
			return true
		}),
		att("previous-epoch-target-with-the-current-justified-source", func(m *mutCtx, a *refspec.Attestation, b *refspec.SignedBlock) bool {
			if m.pre.PreviousJustifiedCheckpoint == m.pre.CurrentJustifiedCheckpoint {
				return false
			}
			for i := range b.Message.Body.Attestations {
				x := &b.Message.Body.Attestations[i]
				if x.Data.Target.Epoch == m.sp.PreviousEpoch(m.pre) && x.Data.Target.Epoch != m.sp.CurrentEpoch(m.pre) {
					x.Data.Source = m.pre.CurrentJustifiedCheckpoint
					resignAtt(m, x, nil, refspec.DOMAIN_BEACON_ATTESTER)
					return true
				}
			}
			return false
		}),
		att("slot-too-old", func(m *mutCtx, a *refspec.Attestation, b *refspec.SignedBlock) bool {
			if m.pre.Slot < 2*m.sp.SLOTS_PER_EPOCH+2 {
				return false
			}
			a.Data.Slot = m.pre.Slot - 2*m.sp.SLOTS_PER_EPOCH - 1
			a.Data.Target.Epoch = m.sp.EpochAtSlot(a.Data.Slot)
			return true
		}),
		att("committee-index-out-of-range", func(m *mutCtx, a *refspec.Attestation, b *refspec.SignedBlock) bool {
			a.Data.Index = m.sp.CommitteeCountPerSlot(m.pre, a.Data.Target.Epoch) + uint64(m.b.Rng.IntN(2))
			return true
		}),
		att("bits-longer", func(m *mutCtx, a *refspec.Attestation, b *refspec.SignedBlock) bool {
			a.AggregationBits = append(a.AggregationBits, false)
			return true
		}),
		att("bits-shorter", func(m *mutCtx, a *refspec.Attestation, b *refspec.SignedBlock) bool {
			if len(a.AggregationBits) < 2 {
				return false
			}
			a.AggregationBits = a.AggregationBits[:len(a.AggregationBits)-1]
			return true
		}),
		att("bits-empty", func(m *mutCtx, a *refspec.Attestation, b *refspec.SignedBlock) bool {
			for i := range a.AggregationBits {
				a.AggregationBits[i] = false
			}
			return true
		}),
		att("extra-bit-without-signature", func(m *mutCtx, a *refspec.Attestation, b *refspec.SignedBlock) bool {
			for i := range a.AggregationBits {
				if !a.AggregationBits[i] {
					a.AggregationBits[i] = true
					return true
				}
			}
			return false
		}),
		att("removed-bit", func(m *mutCtx, a *refspec.Attestation, b *refspec.SignedBlock) bool {
			n := 0
			for _, x := range a.AggregationBits {
				if x {
					n++
				}
			}
			if n < 2 {
				return false
			}
			for i := range a.AggregationBits {
				if a.AggregationBits[i] {
					a.AggregationBits[i] = false
					return true
				}
			}
			return false
		}),
		att("wrong-source", func(m *mutCtx, a *refspec.Attestation, b *refspec.SignedBlock) bool {
			a.Data.Source.Root[0] ^= 1
			resignAtt(m, a, nil, refspec.DOMAIN_BEACON_ATTESTER)
			return true
		}),
		att("wrong-source-epoch", func(m *mutCtx, a *refspec.Attestation, b *refspec.SignedBlock) bool {
			a.Data.Source.Epoch++
			resignAtt(m, a, nil, refspec.DOMAIN_BEACON_ATTESTER)
			return true
		}),
		att("signature-other-domain", func(m *mutCtx, a *refspec.Attestation, b *refspec.SignedBlock) bool {
			resignAtt(m, a, nil, refspec.DOMAIN_BEACON_PROPOSER)
			return true
		}),
		att("signature-other-fork-version", func(m *mutCtx, a *refspec.Attestation, b *refspec.SignedBlock) bool {
			v := otherVersion(m)
			resignAtt(m, a, &v, refspec.DOMAIN_BEACON_ATTESTER)
			return true
		}),
		att("signature-flipped", func(m *mutCtx, a *refspec.Attestation, b *refspec.SignedBlock) bool {
			a.Signature[50] ^= 4
			return true
		}),
		att("duplicated-in-block", func(m *mutCtx, a *refspec.Attestation, b *refspec.SignedBlock) bool {
			b.Message.Body.Attestations = append(b.Message.Body.Attestations, deepCopy(*a))
			return true
		}),
	)
	// ---- slashings
	muts = append(muts,
		mutator{"proposer-slashing/different-slots", false, func(m *mutCtx, b *refspec.SignedBlock) bool {
			if len(b.Message.Body.ProposerSlashings) == 0 {
				return false
			}
			b.Message.Body.ProposerSlashings[0].SignedHeader2.Message.Slot++
			return true
		}},
		mutator{"proposer-slashing/different-proposers", false, func(m *mutCtx, b *refspec.SignedBlock) bool {
			if len(b.Message.Body.ProposerSlashings) == 0 {
				return false
			}
			b.Message.Body.ProposerSlashings[0].SignedHeader2.Message.ProposerIndex++
			return true
		}},
		mutator{"proposer-slashing/identical-headers", false, func(m *mutCtx, b *refspec.SignedBlock) bool {
			if len(b.Message.Body.ProposerSlashings) == 0 {
				return false
			}
			ps := &b.Message.Body.ProposerSlashings[0]
			ps.SignedHeader2 = ps.SignedHeader1
			return true
		}},
		mutator{"proposer-slashing/signature", false, func(m *mutCtx, b *refspec.SignedBlock) bool {
			if len(b.Message.Body.ProposerSlashings) == 0 {
				return false
			}
			b.Message.Body.ProposerSlashings[0].SignedHeader2.Signature[9] ^= 2
			return true
		}},
		mutator{"proposer-slashing/duplicated", false, func(m *mutCtx, b *refspec.SignedBlock) bool {
			if len(b.Message.Body.ProposerSlashings) == 0 {
				return false
			}
			b.Message.Body.ProposerSlashings = append(b.Message.Body.ProposerSlashings, deepCopy(b.Message.Body.ProposerSlashings[0]))
			return true
		}},
		mutator{"proposer-slashing/out-of-range", false, func(m *mutCtx, b *refspec.SignedBlock) bool {
			if len(b.Message.Body.ProposerSlashings) == 0 {
				return false
			}
			ps := &b.Message.Body.ProposerSlashings[0]
			ps.SignedHeader1.Message.ProposerIndex = uint64(len(m.pre.Validators))
			ps.SignedHeader2.Message.ProposerIndex = uint64(len(m.pre.Validators))
			return true
		}},
		mutator{"attester-slashing/identical-data", false, func(m *mutCtx, b *refspec.SignedBlock) bool {
			if len(b.Message.Body.AttesterSlashings) == 0 {
				return false
			}
			as := &b.Message.Body.AttesterSlashings[0]
			as.Attestation2 = deepCopy(as.Attestation1)
			return true
		}},
		mutator{"attester-slashing/unsorted-indices", false, func(m *mutCtx, b *refspec.SignedBlock) bool {
			if len(b.Message.Body.AttesterSlashings) == 0 || len(b.Message.Body.AttesterSlashings[0].Attestation1.AttestingIndices) < 2 {
				return false
			}
			idx := b.Message.Body.AttesterSlashings[0].Attestation1.AttestingIndices
			idx[0], idx[1] = idx[1], idx[0]
			return true
		}},
		mutator{"attester-slashing/duplicate-index", false, func(m *mutCtx, b *refspec.SignedBlock) bool {
			if len(b.Message.Body.AttesterSlashings) == 0 {
				return false
			}
			a := &b.Message.Body.AttesterSlashings[0].Attestation1
			a.AttestingIndices = append(a.AttestingIndices, a.AttestingIndices[len(a.AttestingIndices)-1])
			return true
		}},
		mutator{"attester-slashing/index-out-of-range", false, func(m *mutCtx, b *refspec.SignedBlock) bool {
			if len(b.Message.Body.AttesterSlashings) == 0 {
				return false
			}
			a := &b.Message.Body.AttesterSlashings[0].Attestation1
			a.AttestingIndices = append(a.AttestingIndices, uint64(len(m.pre.Validators))+5)
			return true
		}},
		mutator{"attester-slashing/empty-indices", false, func(m *mutCtx, b *refspec.SignedBlock) bool {
			if len(b.Message.Body.AttesterSlashings) == 0 {
				return false
			}
			b.Message.Body.AttesterSlashings[0].Attestation2.AttestingIndices = nil
			return true
		}},
		mutator{"attester-slashing/not-slashable-targets", false, func(m *mutCtx, b *refspec.SignedBlock) bool {
			if len(b.Message.Body.AttesterSlashings) == 0 {
				return false
			}
			b.Message.Body.AttesterSlashings[0].Attestation2.Data.Target.Epoch += 5
			return true
		}},
		mutator{"attester-slashing/surround-pair-in-the-wrong-order", false, func(m *mutCtx, b *refspec.SignedBlock) bool {
			// is_slashable_attestation_data only accepts "attestation_1 surrounds attestation_2"
			for i := range b.Message.Body.AttesterSlashings {
				as := &b.Message.Body.AttesterSlashings[i]
				d1, d2 := as.Attestation1.Data, as.Attestation2.Data
				if d1.Source.Epoch < d2.Source.Epoch && d2.Target.Epoch < d1.Target.Epoch {
					as.Attestation1, as.Attestation2 = as.Attestation2, as.Attestation1
					return true
				}
			}
			return false
		}},
		mutator{"attester-slashing/signature", false, func(m *mutCtx, b *refspec.SignedBlock) bool {
			if len(b.Message.Body.AttesterSlashings) == 0 {
				return false
			}
			b.Message.Body.AttesterSlashings[0].Attestation1.Signature[70] ^= 8
			return true
		}},
		mutator{"attester-slashing/duplicated", false, func(m *mutCtx, b *refspec.SignedBlock) bool {
			if len(b.Message.Body.AttesterSlashings) == 0 {
				return false
			}
			b.Message.Body.AttesterSlashings = append(b.Message.Body.AttesterSlashings, deepCopy(b.Message.Body.AttesterSlashings[0]))
			return true
		}},
	)
	// ---- correctly signed slashings of validators outside the slashability window [activation_epoch, withdrawable_epoch), or slashed already
	notSlashable := func(m *mutCtx) (uint64, bool) {
		cur := m.sp.CurrentEpoch(m.pre)
		best, rank := uint64(0), 0
		for i := range m.pre.Validators {
			v := &m.pre.Validators[i]
			if refspec.IsSlashable(v, cur) {
				continue
			}
			r := 1
			switch {
			case !v.Slashed && v.WithdrawableEpoch == cur: // the first epoch in which it is no longer slashable
				r = 4
			case !v.Slashed && v.ActivationEpoch > cur:
				r = 3
			case !v.Slashed:
				r = 2
			}
			if r > rank {
				best, rank = uint64(i), r
			}
		}
		if rank == 4 {
			m.b.Inc("slashing_mutants_of_a_validator_in_its_withdrawable_epoch")
		}
		return best, rank > 0
	}
	muts = append(muts,
		mutator{"proposer-slashing/added-for-a-validator-that-is-not-slashable", false, func(m *mutCtx, b *refspec.SignedBlock) bool {
			if uint64(len(b.Message.Body.ProposerSlashings)) >= m.sp.MAX_PROPOSER_SLASHINGS {
				return false
			}
			v, ok := notSlashable(m)
			if !ok {
				return false
			}
			b.Message.Body.ProposerSlashings = append(b.Message.Body.ProposerSlashings, m.c.MakeProposerSlashingOf(m.pre, v))
			return true
		}},
		mutator{"attester-slashing/added-whose-only-attester-is-not-slashable", false, func(m *mutCtx, b *refspec.SignedBlock) bool {
			if uint64(len(b.Message.Body.AttesterSlashings)) >= m.sp.MAX_ATTESTER_SLASHINGS {
				return false
			}
			v, ok := notSlashable(m)
			if !ok {
				return false
			}
			b.Message.Body.AttesterSlashings = append(b.Message.Body.AttesterSlashings, m.c.MakeAttesterSlashingOf(m.pre, []uint64{v}))
			return true
		}},
	)
	// ---- deposits
	muts = append(muts,
		mutator{"deposit/dropped", false, func(m *mutCtx, b *refspec.SignedBlock) bool {
			if len(b.Message.Body.Deposits) == 0 {
				return false
			}
			b.Message.Body.Deposits = b.Message.Body.Deposits[:len(b.Message.Body.Deposits)-1]
			return true
		}},
		mutator{"deposit/none-on-the-block-whose-eth1-vote-makes-them-due", false, func(m *mutCtx, b *refspec.SignedBlock) bool {
			// process_eth1_data runs before the operations: the block whose vote tips the majority must already carry the deposits
			if len(b.Message.Body.Deposits) == 0 || m.pre.Eth1Data.DepositCount != m.pre.Eth1DepositIndex {
				return false
			}
			b.Message.Body.Deposits = nil
			return true
		}},
		mutator{"deposit/extra", false, func(m *mutCtx, b *refspec.SignedBlock) bool {
			var d refspec.Deposit
			if len(b.Message.Body.Deposits) > 0 {
				d = deepCopy(b.Message.Body.Deposits[0])
			} else if len(m.c.DC.Leaves) > 0 {
				d = refspec.Deposit{Proof: m.c.DC.Proof(0, uint64(len(m.c.DC.Leaves))), Data: m.c.DC.Leaves[0]}
			} else {
				return false
			}
			b.Message.Body.Deposits = append(b.Message.Body.Deposits, d)
			return true
		}},
		mutator{"deposit/bad-branch", false, func(m *mutCtx, b *refspec.SignedBlock) bool {
			if len(b.Message.Body.Deposits) == 0 {
				return false
			}
			b.Message.Body.Deposits[0].Proof[m.b.Rng.IntN(33)][7] ^= 1
			return true
		}},
		mutator{"deposit/swapped-order", false, func(m *mutCtx, b *refspec.SignedBlock) bool {
			d := b.Message.Body.Deposits
			if len(d) < 2 {
				return false
			}
			d[0], d[1] = d[1], d[0]
			return true
		}},
		mutator{"deposit/amount-changed", false, func(m *mutCtx, b *refspec.SignedBlock) bool {
			if len(b.Message.Body.Deposits) == 0 {
				return false
			}
			b.Message.Body.Deposits[0].Data.Amount++
			return true
		}},
	)
	// ---- exits
	resignExit := func(m *mutCtx, e *refspec.SignedVoluntaryExit, dom refspec.Root) {
		e.Signature = sim.Sign(m.sk(e.Message.ValidatorIndex), m.sp.SigningRoot(refssz.RootOf(m.sp.S.VoluntaryExit, e.Message), dom))
	}
	exitDomain := func(m *mutCtx, epoch uint64) refspec.Root {
		if m.pre.Fork >= refspec.Deneb {
			return m.sp.ComputeDomain(refspec.DOMAIN_VOLUNTARY_EXIT, m.sp.ForkVersions[refspec.Capella], m.pre.GenesisValidatorsRoot)
		}
		return m.sp.Domain(m.pre, refspec.DOMAIN_VOLUNTARY_EXIT, epoch)
	}
	exit := func(name string, f func(m *mutCtx, e *refspec.SignedVoluntaryExit, b *refspec.SignedBlock) bool) mutator {
		return mutator{"exit/" + name, false, func(m *mutCtx, b *refspec.SignedBlock) bool {
			if len(b.Message.Body.VoluntaryExits) == 0 {
				return false
			}
			return f(m, &b.Message.Body.VoluntaryExits[0], b)
		}}
	}
	muts = append(muts,
		exit("future-epoch", func(m *mutCtx, e *refspec.SignedVoluntaryExit, b *refspec.SignedBlock) bool {
			e.Message.Epoch = m.sp.CurrentEpoch(m.pre) + 1
			resignExit(m, e, exitDomain(m, e.Message.Epoch))
			return true
		}),
		exit("validator-out-of-range", func(m *mutCtx, e *refspec.SignedVoluntaryExit, b *refspec.SignedBlock) bool {
			e.Message.ValidatorIndex = uint64(len(m.pre.Validators)) + 1
			return true
		}),
		exit("duplicate-in-block", func(m *mutCtx, e *refspec.SignedVoluntaryExit, b *refspec.SignedBlock) bool {
			b.Message.Body.VoluntaryExits = append(b.Message.Body.VoluntaryExits, deepCopy(*e))
			return true
		}),
		exit("wrong-key", func(m *mutCtx, e *refspec.SignedVoluntaryExit, b *refspec.SignedBlock) bool {
			other := (e.Message.ValidatorIndex + 1) % uint64(len(m.pre.Validators))
			e.Signature = sim.Sign(m.sk(other), m.sp.SigningRoot(refssz.RootOf(m.sp.S.VoluntaryExit, e.Message), exitDomain(m, e.Message.Epoch)))
			return true
		}),
		exit("wrong-domain-type", func(m *mutCtx, e *refspec.SignedVoluntaryExit, b *refspec.SignedBlock) bool {
			resignExit(m, e, m.sp.Domain(m.pre, refspec.DOMAIN_BEACON_PROPOSER, e.Message.Epoch))
			return true
		}),
		exit("current-fork-version-domain", func(m *mutCtx, e *refspec.SignedVoluntaryExit, b *refspec.SignedBlock) bool {
			// signed under the state's current version at the current epoch: wrong in deneb (must be the capella version) and
			// wrong before deneb when the exit epoch lies before the fork epoch (must be the previous version)
			if m.pre.Fork < refspec.Deneb && !(e.Message.Epoch < m.pre.ForkData.Epoch) {
				return false
			}
			resignExit(m, e, m.sp.ComputeDomain(refspec.DOMAIN_VOLUNTARY_EXIT, m.pre.ForkData.CurrentVersion, m.pre.GenesisValidatorsRoot))
			return true
		}),
	)
	muts = append(muts, mutator{"exit/added-for-a-validator-not-active-long-enough", false, func(m *mutCtx, b *refspec.SignedBlock) bool {
		// an otherwise valid, correctly signed exit of a validator younger than SHARD_COMMITTEE_PERIOD, appended to the block
		cur := m.sp.CurrentEpoch(m.pre)
		if uint64(len(b.Message.Body.VoluntaryExits)) >= m.sp.MAX_VOLUNTARY_EXITS {
			return false
		}
		for i := range m.pre.Validators {
			v := &m.pre.Validators[i]
			if refspec.IsActive(v, cur) && v.ExitEpoch == refspec.FarFuture && cur < v.ActivationEpoch+m.sp.SHARD_COMMITTEE_PERIOD {
				e := refspec.SignedVoluntaryExit{Message: refspec.VoluntaryExit{Epoch: cur, ValidatorIndex: uint64(i)}}
				resignExit(m, &e, exitDomain(m, cur))
				b.Message.Body.VoluntaryExits = append(b.Message.Body.VoluntaryExits, e)
				return true
			}
		}
		return false
	}})
	// ---- bls changes
	muts = append(muts,
		mutator{"bls-change/wrong-from-key", false, func(m *mutCtx, b *refspec.SignedBlock) bool {
			if len(b.Message.Body.BLSToExecutionChanges) == 0 {
				return false
			}
			b.Message.Body.BLSToExecutionChanges[0].Message.FromBLSPubkey = m.c.Keys.WPK[(m.b.Rng.IntN(sim.MaxKeys))]
			return true
		}},
		mutator{"bls-change/duplicate", false, func(m *mutCtx, b *refspec.SignedBlock) bool {
			if len(b.Message.Body.BLSToExecutionChanges) == 0 {
				return false
			}
			b.Message.Body.BLSToExecutionChanges = append(b.Message.Body.BLSToExecutionChanges, deepCopy(b.Message.Body.BLSToExecutionChanges[0]))
			return true
		}},
		mutator{"bls-change/signature", false, func(m *mutCtx, b *refspec.SignedBlock) bool {
			if len(b.Message.Body.BLSToExecutionChanges) == 0 {
				return false
			}
			b.Message.Body.BLSToExecutionChanges[0].Signature[33] ^= 1
			return true
		}},
		mutator{"bls-change/address-changed", false, func(m *mutCtx, b *refspec.SignedBlock) bool {
			if len(b.Message.Body.BLSToExecutionChanges) == 0 {
				return false
			}
			b.Message.Body.BLSToExecutionChanges[0].Message.ToExecutionAddress[3] ^= 1
			return true
		}},
		mutator{"bls-change/validator-out-of-range", false, func(m *mutCtx, b *refspec.SignedBlock) bool {
			if len(b.Message.Body.BLSToExecutionChanges) == 0 {
				return false
			}
			b.Message.Body.BLSToExecutionChanges[0].Message.ValidatorIndex = uint64(len(m.pre.Validators))
			return true
		}},
	)
	// ---- sync aggregate
	muts = append(muts,
		mutator{"sync/bit-added", false, func(m *mutCtx, b *refspec.SignedBlock) bool {
			if m.pre.Fork < refspec.Altair {
				return false
			}
			for i, x := range b.Message.Body.SyncAggregate.SyncCommitteeBits {
				if !x {
					b.Message.Body.SyncAggregate.SyncCommitteeBits[i] = true
					return true
				}
			}
			return false
		}},
		mutator{"sync/bit-removed", false, func(m *mutCtx, b *refspec.SignedBlock) bool {
			if m.pre.Fork < refspec.Altair {
				return false
			}
			for i, x := range b.Message.Body.SyncAggregate.SyncCommitteeBits {
				if x {
					b.Message.Body.SyncAggregate.SyncCommitteeBits[i] = false
					return true
				}
			}
			return false
		}},
		mutator{"sync/infinity-signature-with-bits", false, func(m *mutCtx, b *refspec.SignedBlock) bool {
			if m.pre.Fork < refspec.Altair {
				return false
			}
			any := false
			for _, x := range b.Message.Body.SyncAggregate.SyncCommitteeBits {
				any = any || x
			}
			if !any {
				return false
			}
			b.Message.Body.SyncAggregate.SyncCommitteeSignature = [96]byte{0xc0}
			return true
		}},
		mutator{"sync/no-participants-with-a-signature-that-is-not-infinity", false, func(m *mutCtx, b *refspec.SignedBlock) bool {
			// eth_fast_aggregate_verify accepts an empty key list only together with the point at infinity
			if m.pre.Fork < refspec.Altair {
				return false
			}
			sa := &b.Message.Body.SyncAggregate
			had := false
			for i := range sa.SyncCommitteeBits {
				had = had || sa.SyncCommitteeBits[i]
				sa.SyncCommitteeBits[i] = false
			}
			if !had {
				sa.SyncCommitteeSignature = b.Message.Body.RandaoReveal // any well-formed G2 point
			}
			return true
		}},
		mutator{"sync/signed-by-the-committee-of-an-earlier-period", false, func(m *mutCtx, b *refspec.SignedBlock) bool {
			// the right message, the right bits, but the keys of the committee that served an earlier period (what a stale cache would hold)
			if m.pre.Fork < refspec.Altair || m.oldSync == nil {
				return false
			}
			var sks []*blsu.SecretKey
			differs := false
			for i, pk := range m.oldSync.Pubkeys {
				if b.Message.Body.SyncAggregate.SyncCommitteeBits[i] {
					sks = append(sks, m.c.Keys.SK[m.c.KeyOf[pk]])
					differs = differs || pk != m.pre.CurrentSyncCommittee.Pubkeys[i]
				}
			}
			if len(sks) == 0 || !differs {
				return false
			}
			prev := m.pre.Slot - 1
			root, err := m.sp.BlockRootAtSlot(m.pre, prev)
			if err != nil {
				return false
			}
			sr := m.sp.SigningRoot(root, m.sp.Domain(m.pre, refspec.DOMAIN_SYNC_COMMITTEE, m.sp.EpochAtSlot(prev)))
			b.Message.Body.SyncAggregate.SyncCommitteeSignature = sim.AggSign(sks, sr)
			return true
		}},
		mutator{"sync/signature-over-other-root", false, func(m *mutCtx, b *refspec.SignedBlock) bool {
			if m.pre.Fork < refspec.Altair {
				return false
			}
			var sks []*blsu.SecretKey
			for i, pk := range m.pre.CurrentSyncCommittee.Pubkeys {
				if b.Message.Body.SyncAggregate.SyncCommitteeBits[i] {
					sks = append(sks, m.c.Keys.SK[m.c.KeyOf[pk]])
				}
			}
			if len(sks) == 0 {
				return false
			}
			prev := m.pre.Slot - 1
			sr := m.sp.SigningRoot(refspec.Root{0x99}, m.sp.Domain(m.pre, refspec.DOMAIN_SYNC_COMMITTEE, m.sp.EpochAtSlot(prev)))
			b.Message.Body.SyncAggregate.SyncCommitteeSignature = sim.AggSign(sks, sr)
			return true
		}},
	)
	// ---- payload
	pay := func(name string, minFork int, f func(m *mutCtx, p *refspec.ExecutionPayload, b *refspec.SignedBlock) bool) mutator {
		return mutator{"payload/" + name, false, func(m *mutCtx, b *refspec.SignedBlock) bool {
			if m.pre.Fork < minFork {
				return false
			}
			return f(m, &b.Message.Body.ExecutionPayload, b)
		}}
	}
	muts = append(muts,
		pay("parent-hash", refspec.Bellatrix, func(m *mutCtx, p *refspec.ExecutionPayload, b *refspec.SignedBlock) bool {
			p.ParentHash[1] ^= 1
			return true
		}),
		pay("prev-randao", refspec.Bellatrix, func(m *mutCtx, p *refspec.ExecutionPayload, b *refspec.SignedBlock) bool {
			p.PrevRandao[1] ^= 1
			return true
		}),
		pay("timestamp", refspec.Bellatrix, func(m *mutCtx, p *refspec.ExecutionPayload, b *refspec.SignedBlock) bool { p.Timestamp++; return true }),
		pay("withdrawal-dropped", refspec.Capella, func(m *mutCtx, p *refspec.ExecutionPayload, b *refspec.SignedBlock) bool {
			if len(p.Withdrawals) == 0 {
				return false
			}
			p.Withdrawals = p.Withdrawals[:len(p.Withdrawals)-1]
			return true
		}),
		pay("withdrawal-extra", refspec.Capella, func(m *mutCtx, p *refspec.ExecutionPayload, b *refspec.SignedBlock) bool {
			p.Withdrawals = append(p.Withdrawals, refspec.Withdrawal{Index: 999, ValidatorIndex: 0, Amount: 1})
			return true
		}),
		pay("withdrawal-amount", refspec.Capella, func(m *mutCtx, p *refspec.ExecutionPayload, b *refspec.SignedBlock) bool {
			if len(p.Withdrawals) == 0 {
				return false
			}
			p.Withdrawals[0].Amount++
			return true
		}),
		pay("withdrawal-address", refspec.Capella, func(m *mutCtx, p *refspec.ExecutionPayload, b *refspec.SignedBlock) bool {
			if len(p.Withdrawals) == 0 {
				return false
			}
			p.Withdrawals[0].Address[0] ^= 1
			return true
		}),
		pay("withdrawal-index", refspec.Capella, func(m *mutCtx, p *refspec.ExecutionPayload, b *refspec.SignedBlock) bool {
			if len(p.Withdrawals) == 0 {
				return false
			}
			p.Withdrawals[len(p.Withdrawals)-1].Index++
			return true
		}),
		pay("withdrawal-validator", refspec.Capella, func(m *mutCtx, p *refspec.ExecutionPayload, b *refspec.SignedBlock) bool {
			if len(p.Withdrawals) == 0 {
				return false
			}
			p.Withdrawals[0].ValidatorIndex = (p.Withdrawals[0].ValidatorIndex + 1) % uint64(len(m.pre.Validators))
			return true
		}),
		pay("too-many-blob-commitments", refspec.Deneb, func(m *mutCtx, p *refspec.ExecutionPayload, b *refspec.SignedBlock) bool {
			for uint64(len(b.Message.Body.BlobKZGCommitments)) <= m.sp.MAX_BLOBS_PER_BLOCK {
				b.Message.Body.BlobKZGCommitments = append(b.Message.Body.BlobKZGCommitments, [48]byte{0xc1, byte(len(b.Message.Body.BlobKZGCommitments))})
			}
			return true
		}),
	)
	// ---- operation lists at MAX+1
	muts = append(muts,
		mutator{"limits/exits-max+1", false, func(m *mutCtx, b *refspec.SignedBlock) bool {
			e := refspec.SignedVoluntaryExit{}
			if len(b.Message.Body.VoluntaryExits) > 0 {
				e = b.Message.Body.VoluntaryExits[0]
			}
			for uint64(len(b.Message.Body.VoluntaryExits)) <= m.sp.MAX_VOLUNTARY_EXITS {
				b.Message.Body.VoluntaryExits = append(b.Message.Body.VoluntaryExits, e)
			}
			return true
		}},
		mutator{"limits/attester-slashings-max+1", false, func(m *mutCtx, b *refspec.SignedBlock) bool {
			if len(b.Message.Body.AttesterSlashings) == 0 {
				return false
			}
			for uint64(len(b.Message.Body.AttesterSlashings)) <= m.sp.MAX_ATTESTER_SLASHINGS {
				b.Message.Body.AttesterSlashings = append(b.Message.Body.AttesterSlashings, deepCopy(b.Message.Body.AttesterSlashings[0]))
			}
			return true
		}},
		mutator{"limits/attestations-max+1", false, func(m *mutCtx, b *refspec.SignedBlock) bool {
			if len(b.Message.Body.Attestations) == 0 {
				return false
			}
			for uint64(len(b.Message.Body.Attestations)) <= m.sp.MAX_ATTESTATIONS {
				b.Message.Body.Attestations = append(b.Message.Body.Attestations, deepCopy(b.Message.Body.Attestations[0]))
			}
			return true
		}},
		mutator{"reorder/attestations-swapped", false, func(m *mutCtx, b *refspec.SignedBlock) bool {
			a := b.Message.Body.Attestations
			if len(a) < 2 {
				return false
			}
			a[0], a[len(a)-1] = a[len(a)-1], a[0]
			return true
		}},
	)
	return muts
}

func init() {
	var req []string
	for _, m := range c03Mutators() {
		if m.name != "reorder/attestations-swapped" && m.name != "attestation/duplicated-in-block" {
			req = append(req, "rejected_"+m.name)
		}
	}
	req = append(req, "byte_mutants", "mutants_accepted_by_reference", "bases")
	fw.Register(&fw.Prop{
		ID:    "C03",
		Level: "exploration",
		Rule: "for (state, valid block) bases sampled along simulator chains of every fork: each applicable mutator of a library of ~85 ('a valid block with exactly one thing wrong': header, proposer signature incl. cross-domain/cross-fork/cross-chain, randao, every attestation rule, indexed attestations, both slashing kinds, deposits, exits incl. the deneb domain rule, BLS changes, sync aggregate, payload/withdrawals/blob limits, lists at MAX+1, duplicated/reordered operations) " +
			"is applied to a copy; the reference decides; zrnt must return an error without panicking whenever the reference rejects, and must accept with an identical post-state whenever the reference accepts; plus byte-level mutants of the block's SSZ (bit flips, splices) run under recover(). " +
			"A case is one mutated block; non-trivial when the reference rejects it; distinct by (base, mutator)",
		Assumptions: append(append([]string{}, chainAssume...), "inner mutants are judged at the process_block level (validateResult=false: no proposer-signature and state-root check, which every mutation would trip); outer mutants with validateResult=true",
			"a byte-level mutant changes the signed message or the signature, so the specification rejects it (2^-128): zrnt must refuse to decode it or return an error"),
		Batches:      func(tier string) int { return 16 },
		ChildTimeout: func(string) time.Duration { return 90 * time.Minute },
		Finish:       finishC03,
		Run:          runC03,
		RequiredFor: func(tier string) []string {
			if tier == "thorough" {
				return req
			}
			return []string{"byte_mutants", "mutants_accepted_by_reference", "bases", "rejected_outer/signature-other-fork-version", "rejected_attestation/wrong-source", "rejected_payload/timestamp", "rejected_exit/wrong-key", "rejected_deposit/bad-branch", "rejected_sync/bit-added"}
		},
	})
}

func runC03(b *fw.B) {
	quick := fw.Quick(b.Tier)
	ctx := context.Background()
	muts := c03Mutators()
	n := 1
	if !quick {
		n = 4
	}
	fams := []string{"churn", "capella", "custom", "ragged", "sweep", "churn", "steady", "custom"}
	basesPerChain := 3
	if !quick {
		basesPerChain = 4
	}
	for k := 0; k < n && !b.Stop(); k++ {
		fam := fams[(b.Batch+k)%len(fams)]
		sc := drawScenario(b.Rng, fam, quick, (b.Batch+k)%5 == 0)
		sc.POps = 0.8
		if fam == "churn" || fam == "custom" || fam == "capella" {
			sc.PDeposits = 0.6
		}
		if quick {
			sc.Epochs = min(sc.Epochs, 9)
		}
		if (b.Batch+k)%2 == 0 {
			sc.WithdrawDelay = 1 // an exit of epoch 2 is withdrawable in epoch 8: the chain reaches the end of a slashability window
		}
		var wdMuts []mutator
		for _, mu := range muts {
			if strings.Contains(mu.name, "not-slashable") && strings.Contains(mu.name, "added") {
				wdMuts = append(wdMuts, mu)
			}
		}
		wdSpecials := 0
		b.Case("chain-"+fam, sc.String())
		bases := 0
		perFork := map[int]int{}
		specials := 0
		var committees []refspec.SyncCommittee // the distinct current sync committees this chain has had, in order
		syncSpecials := 0
		hooks := chainHooks{beforeBlock: func(c *sim.Chain, built *sim.Built) bool {
			fork := built.Signed.Message.Fork
			rich := len(built.Ops) >= 4
			var oldSync *refspec.SyncCommittee
			if built.Pre.Fork >= refspec.Altair {
				cur := built.Pre.CurrentSyncCommittee
				if len(committees) == 0 || !reflect.DeepEqual(committees[len(committees)-1].Pubkeys, cur.Pubkeys) {
					committees = append(committees, cur)
				}
				if len(committees) >= 2 {
					oldSync = &committees[len(committees)-2]
				}
			}
			if wdSpecials < 2 {
				// always taken, for the two mutators concerned: a block in the epoch that is the withdrawable epoch of a validator that was
				// never slashed (the first epoch in which a slashing of it must be refused)
				cur := c.Sp.CurrentEpoch(built.Pre)
				for i := range built.Pre.Validators {
					if v := &built.Pre.Validators[i]; !v.Slashed && v.WithdrawableEpoch == cur {
						wdSpecials++
						b.Inc("bases_with_a_validator_in_its_withdrawable_epoch")
						c03Base(b, ctx, c, built, wdMuts, sc, nil)
						break
					}
				}
			}
			if oldSync != nil && syncSpecials < 2 {
				// always taken: blocks of a period whose sync committee differs from the one before
				syncSpecials++
				b.Inc("bases_in_a_period_whose_sync_committee_differs_from_the_previous_one")
				perFork[fork]++
				bases++
				b.Inc("bases")
				c03Base(b, ctx, c, built, muts, sc, oldSync)
				return false
			}
			// always taken: the block whose eth1 vote makes its own deposits due, and blocks with a surround-vote slashing
			special := len(built.Signed.Message.Body.Deposits) > 0 && built.Pre.Eth1Data.DepositCount == built.Pre.Eth1DepositIndex
			for _, as := range built.Signed.Message.Body.AttesterSlashings {
				special = special || as.Attestation1.Data.Target.Epoch != as.Attestation2.Data.Target.Epoch
			}
			if special && specials < 3 {
				specials++
			} else if perFork[fork] >= basesPerChain || !(rich || b.Rng.IntN(6) == 0) {
				return false
			}
			perFork[fork]++
			bases++
			b.Inc("bases")
			c03Base(b, ctx, c, built, muts, sc, oldSync)
			return false
		}}
		slashedBases := 0
		hooks.onSlashedProposer = func(c *sim.Chain, slot uint64) {
			// no valid block exists at this slot: build the block the proposer would have made were it not slashed
			if slashedBases >= 2 {
				return
			}
			sib, err := c.Sibling()
			if err != nil {
				return
			}
			pre := sib.Ref.Copy()
			if sib.Sp.ProcessSlots(pre, slot) != nil {
				return
			}
			pi, err := sib.Sp.BeaconProposerIndex(pre)
			if err != nil || !sib.Ref.Validators[pi].Slashed {
				return
			}
			sib.Ref.Validators[pi].Slashed = false
			built, err := sib.BuildBlock(slot, sim.Plan{Participation: 0.5, SyncParticipation: 0.5})
			if err != nil {
				return
			}
			slashedBases++
			b.Inc("bases_by_a_slashed_proposer")
			c03Base(b, ctx, c, built, []mutator{{"header/proposer-is-slashed", false, func(m *mutCtx, blk *refspec.SignedBlock) bool { return true }}}, sc, nil)
		}
		runChain(b, sc, hooks, func(m *sim.Mismatch, trace []string) {
			if m.Kind != "harness" && m.Kind != "genesis" {
				b.Inc("chain_stopped_by_transition_mismatch_not_judged_here")
			}
		})
		if k == 0 && b.Batch < 2 {
			b.Sample(map[string]any{"scenario": sc.String(), "bases": bases})
		}
	}
}

func c03Base(b *fw.B, ctx context.Context, c *sim.Chain, built *sim.Built, muts []mutator, sc scenario, oldSync *refspec.SyncCommittee) {
	sp := c.Sp
	fork := built.Signed.Message.Fork
	m := &mutCtx{c: c, sp: sp, pre: built.Pre, valid: built.Signed, b: b, oldSync: oldSync}
	runZf := func(data []byte, validate bool, fork int) (decodeErr, err error, panicked any, z *beacon.StandardUpgradeableBeaconState) {
		digest := common.ComputeForkDigest(common.Version(sp.ForkVersions[fork]), common.Root(c.Ref.GenesisValidatorsRoot))
		cp, cerr := c.Z.BeaconState.CopyState()
		if cerr != nil {
			return cerr, nil, nil, nil
		}
		z = &beacon.StandardUpgradeableBeaconState{BeaconState: cp}
		epc := c.Epc.Clone()
		p, _ := fw.Guard(func() {
			env, _, derr := sim.DecodeBlock(c.ZSpec, fork, data, digest)
			if derr != nil {
				decodeErr = derr
				return
			}
			err = common.StateTransition(ctx, c.ZSpec, epc, z, env, validate)
		})
		return decodeErr, err, p, z
	}
	runZ := func(data []byte, validate bool) (decodeErr, err error, panicked any, z *beacon.StandardUpgradeableBeaconState) {
		return runZf(data, validate, fork)
	}
	for _, mu := range muts {
		blk := deepCopy(*built.Signed)
		if !mu.apply(m, &blk) {
			continue
		}
		b.Case("mutant", fmt.Sprintf("%s on %s block at slot %d", mu.name, refspec.ForkNames[fork], built.Signed.Message.Slot))
		b.LogStep("mutator %s", mu.name)
		refSt := c.Ref.Copy()
		var refErr error
		if p, _ := fw.Guard(func() { refErr = sp.StateTransition(refSt, &blk, &sim.ScriptedEngine{Spec: c.ZSpec}, mu.outer) }); p != nil {
			b.Note("reference panicked on mutant %s: %v (harness problem, not judged)", mu.name, p)
			b.Inc("harness_problems")
			continue
		}
		var data []byte
		if p, _ := fw.Guard(func() { data = sp.S.SignedBlockBytes(&blk) }); p != nil {
			b.Inc("mutants_not_encodable")
			continue
		}
		decErr, zErr, panicked, z := runZf(data, mu.outer, blk.Message.Fork) // decoded as the fork type the mutant claims
		where := fmt.Sprintf("mutant %q of the %s block at slot %d", mu.name, refspec.ForkNames[fork], built.Signed.Message.Slot)
		if panicked != nil {
			b.Violate("panic/"+mu.name, fmt.Sprintf("%s: zrnt panicked: %v — scenario %s", where, panicked, sc.String()), map[string]any{"block_ssz_hex": fmt.Sprintf("%x", data)})
			continue
		}
		if refErr != nil {
			var rej *refspec.Rejection
			if errors.As(refErr, &rej) {
				b.SetAdd("spec_assertions_violated", rej.Rule)
			}
			b.Inc("rejected_" + mu.name)
			b.Nontrivial(built.Bytes[:64], mu.name)
			if decErr == nil && zErr == nil {
				b.Violate("accepted-invalid/"+mu.name, fmt.Sprintf("%s: the specification rejects it (%v) but zrnt accepted it — scenario %s", where, refErr, sc.String()), map[string]any{"block_ssz_hex": fmt.Sprintf("%x", data), "spec_rejection": refErr.Error()})
			}
			continue
		}
		b.Inc("mutants_accepted_by_reference")
		b.Inc("accepted_" + mu.name)
		if decErr != nil || zErr != nil {
			b.Violate("rejected-valid/"+mu.name, fmt.Sprintf("%s: the specification accepts it but zrnt refuses: decode=%v transition=%v — scenario %s", where, decErr, zErr, sc.String()), nil)
			continue
		}
		zb, _ := sim.ZrntStateBytes(z)
		if string(zb) != string(sp.S.StateBytes(refSt)) {
			diff := diffStates(sp, refSt.Fork, sp.S.StateBytes(refSt), zb)
			b.Violate("accepted-mutant-state-mismatch/"+mu.name, fmt.Sprintf("%s: accepted by both, post-states differ: %v", where, diff), nil)
		}
	}
	// byte-level mutants
	nb := 50
	if !fw.Quick(b.Tier) {
		nb = 150
	}
	for i := 0; i < nb; i++ {
		data := append([]byte{}, built.Bytes...)
		kind := b.Rng.IntN(4)
		switch kind {
		case 0, 1:
			for f := 0; f <= b.Rng.IntN(3); f++ {
				data[b.Rng.IntN(len(data))] ^= 1 << uint(b.Rng.IntN(8))
			}
		case 2: // splice a region from elsewhere in the block
			if len(data) > 64 {
				l := 1 + b.Rng.IntN(32)
				src, dst := b.Rng.IntN(len(data)-l), b.Rng.IntN(len(data)-l)
				copy(data[dst:dst+l], built.Bytes[src:src+l])
			}
		default: // randomise a window (offsets, lengths)
			off := b.Rng.IntN(len(data))
			for j := off; j < off+8 && j < len(data); j++ {
				data[j] = byte(b.Rng.Uint32())
			}
		}
		if string(data) == string(built.Bytes) {
			continue
		}
		b.Case("byte-mutant", fmt.Sprintf("kind %d of the %s block at slot %d", kind, refspec.ForkNames[fork], built.Signed.Message.Slot))
		decErr, zErr, panicked, _ := runZ(data, true)
		b.Inc("byte_mutants")
		b.CountIf(decErr != nil, "byte_mutants_refused_by_decoder")
		b.CountIf(decErr == nil && zErr != nil, "byte_mutants_refused_by_transition")
		if panicked != nil {
			b.Violate("panic/byte-mutant", fmt.Sprintf("zrnt panicked on a byte-level mutant of a %s block: %v", refspec.ForkNames[fork], panicked), map[string]any{"block_ssz_hex": fmt.Sprintf("%x", data)})
			continue
		}
		if decErr == nil && zErr == nil {
			b.Violate("accepted-invalid/byte-mutant", fmt.Sprintf("zrnt accepted a byte-level mutant of a %s block at slot %d with full validation", refspec.ForkNames[fork], built.Signed.Message.Slot), map[string]any{"block_ssz_hex": fmt.Sprintf("%x", data)})
		}
	}
}

// assertions of the reference that no block mutant can trip (not expressible in SSZ, another check's domain, or guarded earlier)
var c03NotTrippable = map[string]string{
	"block.slot == state.slot":                                      "state_transition always runs process_slots to block.slot first",
	"block.slot > state.latest_block_header.slot":                   "implied once process_slots accepted block.slot (state.slot >= latest header slot)",
	"sync aggregate: bitvector length":                              "not expressible: the bitvector has a fixed SSZ length",
	"sync aggregate: committee pubkey not in registry":              "state invariant",
	"payload: SSZ type limits":                                      "not expressible in a decodable block",
	"payload: no execution engine":                                  "harness configuration",
	"payload: engine error: %v":                                     "C18's domain (engine faults)",
	"payload: execution_engine.verify_and_notify_new_payload":       "C18's domain (engine faults)",
	"get_next_sync_committee_indices: no active validators":         "state invariant",
	"compute_proposer_index: no active validators":                  "state invariant",
	"eth_aggregate_pubkeys: invalid pubkey":                         "state invariant",
	"eth_aggregate_pubkeys: %v":                                     "state invariant",
	"get_block_root_at_slot: slot %d out of range at state slot %d": "guarded by the inclusion-window asserts",
	"block.state_root != hash_tree_root(state)":                     "tripped by every outer mutant with a changed body; recorded when a mutant gets that far",
}

// finishC03 reconciles the assertions the reference tripped with the list of reject(...) sites in its source.
func finishC03(m *fw.Merged) {
	files, _ := filepath.Glob(filepath.Join(fw.Root, "refspec", "*.go"))
	re := regexp.MustCompile(`reject\("((?:[^"\\]|\\.)*)"`)
	all := map[string]bool{}
	for _, f := range files {
		data, err := os.ReadFile(f)
		if err != nil {
			continue
		}
		for _, mm := range re.FindAllStringSubmatch(string(data), -1) {
			all[mm[1]] = true
		}
	}
	if len(all) == 0 {
		m.Inconclusive = append(m.Inconclusive, "cannot scan the reference model's assertions")
		return
	}
	seen := m.Sets["spec_assertions_violated"]
	var never []string
	for a := range all {
		if _, ok := seen[a]; ok {
			continue
		}
		if _, ok := c03NotTrippable[a]; ok {
			continue
		}
		never = append(never, a)
	}
	sort.Strings(never)
	m.Extra["spec_assertions_in_reference"] = len(all)
	m.Extra["spec_assertions_not_trippable_by_blocks"] = c03NotTrippable
	m.Extra["spec_assertions_never_violated"] = never
	m.Counters["spec_assertions_violated_distinct"] = int64(len(seen))
	m.Counters["spec_assertions_never_violated"] = int64(len(never))
	if len(never) > 0 && m.Tier == "thorough" {
		m.Inconclusive = append(m.Inconclusive, fmt.Sprintf("assertions of the specification no mutant ever violated: %v", never))
	}
}
