package props

import (
	"crypto/sha256"
	"fmt"
	"math/big"
	"math/bits"
	"time"

	"github.com/protolambda/zrnt/eth2/beacon/common"
	"github.com/protolambda/zrnt/eth2/configs"
	"github.com/protolambda/zrnt/eth2/gossipval"
	"github.com/protolambda/zrnt/eth2/util/hashing"
	zmath "github.com/protolambda/zrnt/eth2/util/math"
	"github.com/protolambda/zrnt/eth2/util/merkle"
	"github.com/protolambda/ztyp/tree"
	"github.com/protolambda/ztyp/view"

	"verif/fw"
)

// C19 — numeric, time and Merkle helpers are exact over their whole domain.
// Oracle: math/big evaluation of the spec formula; recursive Merkle recomputation with crypto/sha256.

func init() {
	fw.Register(&fw.Prop{
		ID:    "C19",
		Level: "exploration",
		Rule: "boundary-biased uint64 inputs (0..3, 2^k-1/2^k/2^k+1 for all k, k^2-1/k^2/k^2+1 for all k<2^16 and sampled k<2^32, 2^64-{1,2,3}, uniform 64-bit) " +
			"for isqrt/pow2/time/epoch/churn/committee-count/slot-span helpers, each compared with a math/big evaluation of the spec formula; Merkle branches of depth 0..40(+64..70) with " +
			"single perturbations of leaf/branch element/index/root/depth. A case is one (helper, argument tuple); distinct = distinct tuples; non-trivial = argument is a boundary value or result needed >32 bits or a perturbed branch",
		Assumptions: []string{
			"math/big and crypto/sha256 are correct",
			"documented domain: SECONDS_PER_SLOT>0, SLOTS_PER_EPOCH>0, quotients>0; VerifyMerkleBranch is given len(branch)>=depth",
			"NextPowerOfTwo(0) and inputs >2^63 (value 2^64 not representable) are observed but not judged",
			"IntegerSquareRootPrysm (float64 based, unused by the transition) is judged only below 2^52 where float64 is exact",
		},
		Batches:  func(tier string) int { return 16 },
		Run:      runC19,
		Required: []string{"isqrt_checked", "isqrt_max_input", "time_at_slot_boundary", "merkle_accept", "merkle_reject", "merkle_overlapping_verifications", "slotspan_overflow", "epochstart_overflow"},
	})
}

func bigU(x uint64) *big.Int { return new(big.Int).SetUint64(x) }

var two64 = new(big.Int).Lsh(big.NewInt(1), 64)

func fits(x *big.Int) bool { return x.Sign() >= 0 && x.Cmp(two64) < 0 }

func boundaryU64(b *fw.B) []uint64 {
	out := []uint64{0, 1, 2, 3, 4, 5, ^uint64(0), ^uint64(0) - 1, ^uint64(0) - 2, ^uint64(0) - 3}
	for k := uint(1); k < 64; k++ {
		p := uint64(1) << k
		out = append(out, p-1, p, p+1)
	}
	return out
}

func runC19(b *fw.B) {
	quick := fw.Quick(b.Tier)
	nb := 16
	// ---- integer square root
	checkSqrt := func(n uint64, nontrivial bool) {
		b.Case("isqrt", fmt.Sprintf("IntegerSquareroot(%d)", n))
		var got uint64
		if !b.NoPanic("isqrt/panic", func() { got = zmath.IntegerSquareroot(n) }) {
			return
		}
		want := new(big.Int).Sqrt(bigU(n)).Uint64()
		b.Inc("isqrt_checked")
		if n == ^uint64(0) {
			b.Inc("isqrt_max_input")
		}
		if got != want {
			b.Violate("isqrt/wrong", fmt.Sprintf("IntegerSquareroot(%d)=%d, floor sqrt is %d", n, got, want), nil)
		}
		if nontrivial {
			b.Nontrivial("isqrt", n)
		}
		if n < 1<<52 {
			var g2 uint64
			if b.NoPanic("isqrt-prysm/panic", func() { g2 = zmath.IntegerSquareRootPrysm(n) }) && g2 != want {
				b.Violate("isqrt-prysm/wrong", fmt.Sprintf("IntegerSquareRootPrysm(%d)=%d, floor sqrt is %d", n, g2, want), nil)
			}
		} else {
			var g2 uint64
			fw.Guard(func() { g2 = zmath.IntegerSquareRootPrysm(n) })
			if g2 != want {
				b.Inc("observed_not_judged_prysm_sqrt_above_2^52")
			}
		}
	}
	if b.Batch == 0 {
		for _, n := range boundaryU64(b) {
			checkSqrt(n, true)
		}
		b.Sample(map[string]any{"helper": "IntegerSquareroot", "n": fmt.Sprint(^uint64(0)), "want": 4294967295})
	}
	// all k < 2^16 split across batches
	for k := uint64(b.Batch); k < 1<<16; k += uint64(nb) {
		sq := k * k
		if k > 0 {
			checkSqrt(sq-1, true)
		}
		checkSqrt(sq, true)
		checkSqrt(sq+1, true)
	}
	nk := 20000
	nu := 100000 / nb
	if !quick {
		nk = (1 << 20) / nb
		nu = 10000000 / nb
	}
	for i := 0; i < nk; i++ {
		k := b.Rng.Uint64() >> 32
		if i%4 == 0 {
			k = (1 << 32) - 1 - uint64(b.Rng.IntN(1<<16))
		}
		sq := k * k
		if k > 0 {
			checkSqrt(sq-1, true)
		}
		checkSqrt(sq, true)
		if sq != ^uint64(0) {
			checkSqrt(sq+1, true)
		}
	}
	for i := 0; i < nu; i++ {
		n := b.Rng.Uint64() >> uint(b.Rng.IntN(64))
		checkSqrt(n, n > 1<<32)
	}

	// ---- min / max
	for i := 0; i < 2000; i++ {
		x, y := b.Rng.Uint64()>>uint(b.Rng.IntN(64)), b.Rng.Uint64()>>uint(b.Rng.IntN(64))
		if i%5 == 0 {
			y = x
		}
		if i%7 == 0 {
			x = ^uint64(0)
		}
		b.Case("minmax", fmt.Sprintf("MinU64/MaxU64(%d, %d)", x, y))
		mn, mx := zmath.MinU64(x, y), zmath.MaxU64(x, y)
		wmn, wmx := x, y
		if y < x {
			wmn, wmx = y, x
		}
		b.Inc("minmax_checked")
		if mn != wmn || mx != wmx {
			b.Violate("minmax/wrong", fmt.Sprintf("MinU64(%d,%d)=%d MaxU64=%d, want %d and %d", x, y, mn, mx, wmn, wmx), nil)
		}
	}

	// ---- previous slot / epoch (get_previous_epoch saturates at genesis)
	for _, x := range []uint64{0, 1, 2, 1 << 32, ^uint64(0) - 1, ^uint64(0), b.Rng.Uint64(), b.Rng.Uint64() >> 40} {
		b.Case("previous", fmt.Sprintf("Slot/Epoch(%d).Previous()", x))
		want := x
		if x > 0 {
			want = x - 1
		}
		b.Inc("previous_checked")
		if got := uint64(common.Slot(x).Previous()); got != want {
			b.Violate("previous/slot-wrong", fmt.Sprintf("Slot(%d).Previous()=%d want %d", x, got, want), nil)
		}
		if got := uint64(common.Epoch(x).Previous()); got != want {
			b.Violate("previous/epoch-wrong", fmt.Sprintf("Epoch(%d).Previous()=%d want %d", x, got, want), nil)
		}
	}

	// ---- power of two helpers
	pow2 := func(n uint64) {
		b.Case("pow2", fmt.Sprintf("IsPowerOfTwo/NextPowerOfTwo(%d)", n))
		var is bool
		var next uint64
		if !b.NoPanic("pow2/panic", func() { is = zmath.IsPowerOfTwo(n); next = zmath.NextPowerOfTwo(n) }) {
			return
		}
		wantIs := n != 0 && bits.OnesCount64(n) == 1
		if is != wantIs {
			b.Violate("pow2/is-wrong", fmt.Sprintf("IsPowerOfTwo(%d)=%v", n, is), nil)
		}
		if n == 0 {
			if next != 1 {
				b.Inc("observed_not_judged_next_pow2_of_0")
			}
			return
		}
		if n > 1<<63 {
			b.Inc("observed_not_judged_next_pow2_unrepresentable")
			return
		}
		want := uint64(1)
		for want < n {
			want <<= 1
		}
		if next != want {
			b.Violate("pow2/next-wrong", fmt.Sprintf("NextPowerOfTwo(%d)=%d want %d", n, next, want), nil)
		}
		b.Nontrivial("pow2", n)
		b.Inc("pow2_checked")
	}
	if b.Batch == 1 {
		for _, n := range boundaryU64(b) {
			pow2(n)
		}
	}
	for i := 0; i < nu/10; i++ {
		pow2(b.Rng.Uint64() >> uint(b.Rng.IntN(64)))
	}

	// ---- time / slot / epoch conversions under various parameter sets
	specs := []*common.Spec{configs.Mainnet, configs.Minimal}
	for _, sps := range []uint64{1, 6, 12, 1 << 20} {
		// epoch lengths that are and are not powers of two, and one drawn at random
		for _, spe := range []uint64{1, 3, 4, 6, 8, 12, 32, 100, 1 << 31, 1<<31 - 1, 2 + b.Rng.Uint64()>>uint(34+b.Rng.IntN(29))} {
			s := *configs.Minimal
			s.SECONDS_PER_SLOT = common.Timestamp(sps)
			s.SLOTS_PER_EPOCH = common.Slot(spe)
			s.MAX_SEED_LOOKAHEAD = common.Epoch(1 + b.Rng.IntN(8))
			s.MIN_PER_EPOCH_CHURN_LIMIT = view.Uint64View(1 + b.Rng.IntN(8))
			s.CHURN_LIMIT_QUOTIENT = view.Uint64View(1 + b.Rng.IntN(1<<16))
			s.TARGET_COMMITTEE_SIZE = view.Uint64View(1 + b.Rng.IntN(256))
			s.MAX_COMMITTEES_PER_SLOT = view.Uint64View(1 + b.Rng.IntN(128))
			specs = append(specs, &s)
		}
	}
	bnd := boundaryU64(b)
	pick := func() uint64 {
		switch b.Rng.IntN(3) {
		case 0:
			return bnd[b.Rng.IntN(len(bnd))]
		case 1:
			return b.Rng.Uint64() >> uint(b.Rng.IntN(64))
		default:
			return ^uint64(0) - (b.Rng.Uint64() >> uint(20+b.Rng.IntN(44)))
		}
	}
	nt := 20000 / nb * 4
	if !quick {
		nt = 2000000 / nb
	}
	timeCase := func(spec *common.Spec, x, y uint64) {
		sps := uint64(spec.SECONDS_PER_SLOT)
		spe := uint64(spec.SLOTS_PER_EPOCH)
		// TimeToSlot(t=x, genesis=y)
		b.Case("time", fmt.Sprintf("sps=%d spe=%d x=%d y=%d", sps, spe, x, y))
		var slot common.Slot
		if b.NoPanic("time/TimeToSlot/panic", func() { slot = spec.TimeToSlot(common.Timestamp(x), common.Timestamp(y)) }) {
			want := uint64(0)
			if x >= y {
				want = (x - y) / sps
			}
			if uint64(slot) != want {
				b.Violate("time/TimeToSlot/wrong", fmt.Sprintf("TimeToSlot(t=%d,genesis=%d,sps=%d)=%d want %d", x, y, sps, slot, want), nil)
			}
		}
		// TimeAtSlot(slot=x, genesis=y)
		var ts common.Timestamp
		var err error
		if b.NoPanic("time/TimeAtSlot/panic", func() { ts, err = spec.TimeAtSlot(common.Slot(x), common.Timestamp(y)) }) {
			want := new(big.Int).Add(new(big.Int).Mul(bigU(x), bigU(sps)), bigU(y))
			if fits(want) {
				if err != nil {
					b.Violate("time/TimeAtSlot/refused-representable", fmt.Sprintf("TimeAtSlot(slot=%d,genesis=%d,sps=%d) errors (%v) but the value %s is representable", x, y, sps, err, want), nil)
				} else if uint64(ts) != want.Uint64() {
					b.Violate("time/TimeAtSlot/wrong", fmt.Sprintf("TimeAtSlot(slot=%d,genesis=%d,sps=%d)=%d want %s", x, y, sps, ts, want), nil)
				}
				// is this the largest representable slot?
				next := new(big.Int).Add(want, bigU(sps))
				if !fits(next) {
					b.Inc("time_at_slot_boundary")
					b.Nontrivial("timeatslot-boundary", sps, x, y)
				}
			} else {
				b.Inc("time_at_slot_overflow_cases")
				if err == nil {
					b.Violate("time/TimeAtSlot/wrapped", fmt.Sprintf("TimeAtSlot(slot=%d,genesis=%d,sps=%d)=%d without error but the value %s overflows", x, y, sps, ts, want), nil)
				}
			}
		}
		// SlotToEpoch / EpochStartSlot
		var ep common.Epoch
		if b.NoPanic("time/SlotToEpoch/panic", func() { ep = spec.SlotToEpoch(common.Slot(x)) }) && uint64(ep) != x/spe {
			b.Violate("time/SlotToEpoch/wrong", fmt.Sprintf("SlotToEpoch(%d) spe=%d = %d", x, spe, ep), nil)
		}
		var st common.Slot
		if b.NoPanic("time/EpochStartSlot/panic", func() { st, err = spec.EpochStartSlot(common.Epoch(x)) }) {
			want := new(big.Int).Mul(bigU(x), bigU(spe))
			if fits(want) {
				if err != nil || uint64(st) != want.Uint64() {
					b.Violate("time/EpochStartSlot/wrong", fmt.Sprintf("EpochStartSlot(%d) spe=%d = %d,%v want %s", x, spe, st, err, want), nil)
				}
			} else {
				b.Inc("epochstart_overflow")
				if err == nil {
					b.Violate("time/EpochStartSlot/wrapped", fmt.Sprintf("EpochStartSlot(%d) spe=%d = %d without error, value overflows", x, spe, st), nil)
				}
			}
		}
		// ComputeActivationExitEpoch
		wantAE := new(big.Int).Add(bigU(x), bigU(1+uint64(spec.MAX_SEED_LOOKAHEAD)))
		if fits(wantAE) {
			var ae common.Epoch
			if b.NoPanic("time/ActivationExit/panic", func() { ae = spec.ComputeActivationExitEpoch(common.Epoch(x)) }) && uint64(ae) != wantAE.Uint64() {
				b.Violate("time/ActivationExit/wrong", fmt.Sprintf("ComputeActivationExitEpoch(%d)=%d want %s", x, ae, wantAE), nil)
			}
		}
		// churn limit, committee count
		var cl uint64
		if b.NoPanic("churn/panic", func() { cl = spec.GetChurnLimit(x) }) {
			want := x / uint64(spec.CHURN_LIMIT_QUOTIENT)
			if want < uint64(spec.MIN_PER_EPOCH_CHURN_LIMIT) {
				want = uint64(spec.MIN_PER_EPOCH_CHURN_LIMIT)
			}
			if cl != want {
				b.Violate("churn/wrong", fmt.Sprintf("GetChurnLimit(%d)=%d want %d", x, cl, want), nil)
			}
		}
		var cc uint64
		if b.NoPanic("committee-count/panic", func() { cc = common.CommitteeCount(spec, x) }) {
			want := x / spe / uint64(spec.TARGET_COMMITTEE_SIZE)
			if want > uint64(spec.MAX_COMMITTEES_PER_SLOT) {
				want = uint64(spec.MAX_COMMITTEES_PER_SLOT)
			}
			if want < 1 {
				want = 1
			}
			if cc != want {
				b.Violate("committee-count/wrong", fmt.Sprintf("CommitteeCount(%d)=%d want %d (spe=%d target=%d max=%d)", x, cc, want, spe, spec.TARGET_COMMITTEE_SIZE, spec.MAX_COMMITTEES_PER_SLOT), nil)
			}
		}
		if x > 1<<32 || y > 1<<32 {
			b.Nontrivial("time", sps, spe, x, y)
		}
	}
	for i := 0; i < nt; i++ {
		spec := specs[b.Rng.IntN(len(specs))]
		x, y := pick(), pick()
		timeCase(spec, x, y)
		if i%8 == 0 {
			// exact largest representable slot for this genesis time and its neighbours
			sps := uint64(spec.SECONDS_PER_SLOT)
			maxSlot := (^uint64(0) - y) / sps
			timeCase(spec, maxSlot, y)
			if maxSlot > 0 {
				timeCase(spec, maxSlot-1, y)
			}
			if maxSlot < ^uint64(0) {
				timeCase(spec, maxSlot+1, y)
			}
		}
	}
	if b.Batch == 2 {
		b.Sample(map[string]any{"helper": "TimeAtSlot", "slot": "(2^64-1-genesis)/sps", "note": "largest representable slot must not be refused"})
	}

	// ---- CheckSlotSpan
	for i := 0; i < nt/2; i++ {
		slot, span := pick(), uint64(b.Rng.IntN(40))
		if b.Rng.IntN(4) == 0 {
			span = pick()
		}
		now := pick()
		if b.Rng.IntN(2) == 0 { // keep near the slot so both sides of each bound are hit
			now = slot + uint64(b.Rng.IntN(80)) - 40
		}
		disp := uint64(b.Rng.IntN(2))
		minSlot := now - disp
		if now < disp {
			minSlot = 0
		}
		maxSlot := now + disp
		if maxSlot < now {
			maxSlot = ^uint64(0)
		}
		slotAfter := func(delta time.Duration) common.Slot {
			if delta < 0 {
				return common.Slot(minSlot)
			}
			return common.Slot(maxSlot)
		}
		b.Case("slotspan", fmt.Sprintf("slot=%d span=%d min=%d max=%d", slot, span, minSlot, maxSlot))
		var err error
		if !b.NoPanic("slotspan/panic", func() { err = gossipval.CheckSlotSpan(slotAfter, common.Slot(slot), common.Slot(span)) }) {
			continue
		}
		sum := new(big.Int).Add(bigU(slot), bigU(span))
		wantErr := false
		if !fits(sum) {
			wantErr = true
			b.Inc("slotspan_overflow")
		} else if sum.Cmp(bigU(minSlot)) < 0 || slot > maxSlot {
			wantErr = true
		}
		if (err != nil) != wantErr {
			b.Violate("slotspan/wrong", fmt.Sprintf("CheckSlotSpan(slot=%d,span=%d,min=%d,max=%d) err=%v, expected error=%v", slot, span, minSlot, maxSlot, err, wantErr), nil)
		}
		b.CountIf(err == nil, "slotspan_ok")
		b.CountIf(err != nil, "slotspan_err")
		b.Nontrivial("slotspan", slot, span, minSlot, maxSlot)
	}

	// ---- hashing helpers and Merkle branches
	refHash := func(x []byte) [32]byte { return sha256.Sum256(x) }
	nm := 300
	if !quick {
		nm = 6000
	}
	rep := hashing.GetHashFn()
	type keptProof struct {
		leaf         tree.Root
		branch       []tree.Root
		depth, index uint64
		root         tree.Root
	}
	var keptProofs []keptProof
	for i := 0; i < nm; i++ {
		depth := uint64(b.Rng.IntN(41))
		if i%37 == 0 {
			depth = 64 + uint64(b.Rng.IntN(7))
		}
		index := b.Rng.Uint64()
		if depth < 64 && b.Rng.IntN(4) != 0 {
			index &= (uint64(1) << depth) - 1
		}
		var leaf tree.Root
		for j := range leaf {
			leaf[j] = byte(b.Rng.Uint32())
		}
		branch := make([]tree.Root, depth+uint64(b.Rng.IntN(3)))
		for k := range branch {
			for j := 0; j < 32; j++ {
				branch[k][j] = byte(b.Rng.Uint32())
			}
		}
		// reference root
		compute := func(leaf tree.Root, branch []tree.Root, depth, index uint64) tree.Root {
			v := leaf
			for d := uint64(0); d < depth; d++ {
				bit := uint64(0)
				if d < 64 {
					bit = (index >> d) & 1
				}
				var buf [64]byte
				if bit == 1 {
					copy(buf[:32], branch[d][:])
					copy(buf[32:], v[:])
				} else {
					copy(buf[:32], v[:])
					copy(buf[32:], branch[d][:])
				}
				v = refHash(buf[:])
			}
			return v
		}
		root := compute(leaf, branch, depth, index)
		b.Case("merkle", fmt.Sprintf("depth=%d index=%d", depth, index))
		// hashing helpers agree with crypto/sha256
		in := append(append([]byte{}, leaf[:]...), root[:]...)
		if hashing.Hash(in) != refHash(in) || rep(in) != refHash(in) || rep(in[:32]) != refHash(in[:32]) {
			b.Violate("hash/wrong", "hashing.Hash / Sha256Repeat disagree with crypto/sha256", nil)
		}
		x := hashing.XorBytes32(leaf, root)
		for j := 0; j < 32; j++ {
			if x[j] != leaf[j]^root[j] {
				b.Violate("hash/xor-wrong", "XorBytes32 wrong", nil)
				break
			}
		}
		check := func(kind string, leaf tree.Root, branch []tree.Root, depth, index uint64, root tree.Root) {
			want := compute(leaf, branch, depth, index) == root
			var got bool
			if !b.NoPanic("merkle/panic", func() { got = merkle.VerifyMerkleBranch(leaf, branch, depth, index, root) }) {
				return
			}
			if got != want {
				b.Violate("merkle/"+kind, fmt.Sprintf("VerifyMerkleBranch(%s, depth=%d, index=%d)=%v, recomputation says %v", kind, depth, index, got, want), nil)
			}
			if want {
				b.Inc("merkle_accept")
			} else {
				b.Inc("merkle_reject")
			}
			b.Nontrivial("merkle", kind, depth, index, leaf[:4])
		}
		check("honest", leaf, branch, depth, index, root)
		if depth >= 3 && depth <= 40 && len(keptProofs) < 48 {
			keptProofs = append(keptProofs, keptProof{leaf, append([]tree.Root{}, branch...), depth, index, root})
		}
		// single perturbations
		l2 := leaf
		l2[b.Rng.IntN(32)] ^= 1 << uint(b.Rng.IntN(8))
		check("leaf-flipped", l2, branch, depth, index, root)
		r2 := root
		r2[b.Rng.IntN(32)] ^= 1 << uint(b.Rng.IntN(8))
		check("root-flipped", leaf, branch, depth, index, r2)
		if depth > 0 {
			br2 := append([]tree.Root{}, branch...)
			k := b.Rng.IntN(int(depth))
			br2[k][b.Rng.IntN(32)] ^= 1 << uint(b.Rng.IntN(8))
			check("branch-flipped", leaf, br2, depth, index, root)
			bit := uint(b.Rng.IntN(int(min(depth, 64))))
			check("index-bit-flipped", leaf, branch, depth, index^(1<<bit), root)
			check("depth-minus-1", leaf, branch, depth-1, index, root)
			if depth >= 2 {
				br3 := append([]tree.Root{}, branch...)
				br3[0], br3[1] = br3[1], br3[0]
				check("branch-swapped", leaf, br3, depth, index, root)
			}
		}
		if uint64(len(branch)) > depth {
			check("depth-plus-1", leaf, branch, depth+1, index, root)
		}
		if depth < 64 {
			// index bits above depth are irrelevant by the spec formula (index // 2**i % 2 for i < depth)
			check("index-high-bits", leaf, branch, depth, index|(uint64(1)<<63), root)
		}
	}
	// the retained honest proofs (and each with one bit of the root flipped) verified again on 8 goroutines at the same time
	if len(keptProofs) > 0 {
		b.Case("merkle-overlapped", fmt.Sprintf("%d retained proofs on 8 goroutines", len(keptProofs)))
		const iters = 400
		msgs := overlapped(8, iters, func(w, i int) string {
			k := keptProofs[(w*7+i)%len(keptProofs)]
			if !merkle.VerifyMerkleBranch(k.leaf, k.branch, k.depth, k.index, k.root) {
				return fmt.Sprintf("VerifyMerkleBranch(honest, depth=%d, index=%d)=false while other branches are verified at the same time (true when called alone)", k.depth, k.index)
			}
			r2 := k.root
			r2[(w+i)%32] ^= 1 << uint(i%8)
			if merkle.VerifyMerkleBranch(k.leaf, k.branch, k.depth, k.index, r2) {
				return fmt.Sprintf("VerifyMerkleBranch(root-flipped, depth=%d, index=%d)=true while other branches are verified at the same time", k.depth, k.index)
			}
			return ""
		})
		b.Count("merkle_overlapping_verifications", 8*iters*2)
		for _, m := range msgs {
			b.Violate("merkle/overlapping-calls", m, nil)
		}
	}
	// small depths: every index
	if b.Batch == 3 {
		for depth := uint64(0); depth <= 5; depth++ {
			leaves := make([]tree.Root, 1<<depth)
			for i := range leaves {
				leaves[i][0] = byte(i + 1)
				leaves[i][31] = byte(depth)
			}
			// build full tree
			levels := [][]tree.Root{leaves}
			for d := uint64(0); d < depth; d++ {
				prev := levels[len(levels)-1]
				next := make([]tree.Root, len(prev)/2)
				for i := range next {
					next[i] = refHash(append(append([]byte{}, prev[2*i][:]...), prev[2*i+1][:]...))
				}
				levels = append(levels, next)
			}
			root := levels[depth][0]
			for idx := uint64(0); idx < 1<<depth; idx++ {
				branch := make([]tree.Root, depth)
				for d := uint64(0); d < depth; d++ {
					branch[d] = levels[d][(idx>>d)^1]
				}
				for claim := uint64(0); claim < 1<<depth; claim++ {
					b.Case("merkle-full", fmt.Sprintf("depth=%d idx=%d claim=%d", depth, idx, claim))
					var got bool
					b.NoPanic("merkle/panic", func() { got = merkle.VerifyMerkleBranch(leaves[idx], branch, depth, claim, root) })
					if got != (claim == idx) {
						b.Violate("merkle/full-tree", fmt.Sprintf("depth=%d leaf %d with its branch verified at claimed index %d: %v", depth, idx, claim, got), nil)
					}
					if got {
						b.Inc("merkle_accept")
					} else {
						b.Inc("merkle_reject")
					}
				}
			}
		}
	}
}
