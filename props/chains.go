package props

import (
	"context"
	"fmt"
	"math/rand/v2"

	kbls "github.com/kilic/bls12-381"
	blsu "github.com/protolambda/bls12-381-util"
	"github.com/protolambda/zrnt/eth2/beacon/common"
	"github.com/protolambda/zrnt/eth2/configs"
	"github.com/protolambda/ztyp/view"

	"verif/fw"
	"verif/refspec"
	"verif/refssz"
	"verif/sim"
)

// Shared chain scenarios for C01 C02 C03 C05 C07 C08 C15 C18: a validator-client simulator drives the
// reference specification and zrnt side by side; hooks observe every step.

type scenario struct {
	Family     string
	Preset     string // minimal | mainnet | custom
	Validators int
	Epochs     int
	ForkEpochs [4]uint64 // altair, bellatrix, capella, deneb (FarFuture = never)
	StepEvery  bool      // advance empty slots one by one (compare after every slot)
	PBlock     float64
	// per-epoch participation pattern (cycled)
	Participation         []float64
	SyncPart              float64
	WrongHead             float64
	WrongTarget           float64
	AttBack               uint64
	POps                  float64 // probability per block of carrying slashings/exits/bls changes
	PDeposits             float64
	Blobs                 int
	Eth1Creds             float64
	ExtraBalance          bool
	LeakEpochs            [2]int // participation forced to 0.3 inside [from, to)
	CustomSlashingsVector bool
	WithdrawDelay         uint64 // MIN_VALIDATOR_WITHDRAWABILITY_DELAY when not 0 (short chains reach the end of the slashability window)
	DepositsFromEpoch     int
	ForcedSlashings       bool
	EjectionHigh          bool   // EJECTION_BALANCE just below the maximum: ejections (batched exit queue) become reachable
	LatePattern           []bool // per epoch (cycled): attestations of that epoch are only included during the next epoch
	MergeDelay            uint64 // the first MergeDelay slots of bellatrix carry no execution payload (merge transition block later)
	// BalanceShock: before every second epoch boundary the balances of a quarter of the validators are overwritten (on both sides) with
	// low values, so that effective balances of ACTIVE validators change a lot at the boundary (proposer and sync-committee sampling depend on them)
	BalanceShock bool
}

func (s scenario) String() string {
	return fmt.Sprintf("%s/%s vals=%d epochs=%d forks=%v step=%v pblock=%.2f part=%v ops=%.2f dep=%.2f leak=%v ejectHigh=%v late=%v mergeDelay=%d", s.Family, s.Preset, s.Validators, s.Epochs, s.ForkEpochs, s.StepEvery, s.PBlock, s.Participation, s.POps, s.PDeposits, s.LeakEpochs, s.EjectionHigh, s.LatePattern, s.MergeDelay)
}

const ff = ^uint64(0)

func specFor(sc scenario) *common.Spec {
	var spec common.Spec
	switch sc.Preset {
	case "mainnet":
		spec = *configs.Mainnet
	default:
		spec = *configs.Minimal
	}
	spec.ALTAIR_FORK_EPOCH = common.Epoch(sc.ForkEpochs[0])
	spec.BELLATRIX_FORK_EPOCH = common.Epoch(sc.ForkEpochs[1])
	spec.CAPELLA_FORK_EPOCH = common.Epoch(sc.ForkEpochs[2])
	spec.DENEB_FORK_EPOCH = common.Epoch(sc.ForkEpochs[3])
	spec.ELECTRA_FORK_EPOCH = common.FAR_FUTURE_EPOCH
	spec.FULU_FORK_EPOCH = common.FAR_FUTURE_EPOCH
	// reachable exits and short queues in short chains
	spec.SHARD_COMMITTEE_PERIOD = 2
	spec.MIN_GENESIS_ACTIVE_VALIDATOR_COUNT = 16
	spec.MIN_VALIDATOR_WITHDRAWABILITY_DELAY = 4
	if sc.Preset == "mainnet" {
		spec.MIN_GENESIS_TIME = 0
	}
	if sc.CustomSlashingsVector {
		spec.EPOCHS_PER_SLASHINGS_VECTOR = 8
		spec.MIN_VALIDATOR_WITHDRAWABILITY_DELAY = 2
	}
	if sc.WithdrawDelay != 0 {
		spec.MIN_VALIDATOR_WITHDRAWABILITY_DELAY = common.Epoch(sc.WithdrawDelay)
	}
	if sc.Family == "massslash" {
		// a wide hysteresis band keeps the effective balance above the balance after the initial slashing penalty,
		// so the correlation penalty (the whole effective balance) exceeds what the validator has left
		spec.HYSTERESIS_QUOTIENT = 1
	}
	if sc.Family == "ejectdeneb" {
		// fine-grained effective balances: one epoch of missed attestations lowers the effective balance below the
		// (high) ejection balance, so a low-participation epoch ejects many validators at one epoch boundary
		spec.EFFECTIVE_BALANCE_INCREMENT = 1_000_000
	}
	if sc.EjectionHigh {
		spec.EJECTION_BALANCE = spec.MAX_EFFECTIVE_BALANCE - spec.EFFECTIVE_BALANCE_INCREMENT
	}
	if sc.Family == "ejectall" {
		// every active validator is ejected at the first epoch boundary, behind the exits of the slashings of epoch 0
		spec.EJECTION_BALANCE = spec.MAX_EFFECTIVE_BALANCE
	}
	if sc.Preset == "custom" {
		spec.MAX_COMMITTEES_PER_SLOT = 2
		spec.TARGET_COMMITTEE_SIZE = 3
		spec.SYNC_COMMITTEE_SIZE = 16
		spec.EPOCHS_PER_SYNC_COMMITTEE_PERIOD = 4
		spec.EPOCHS_PER_ETH1_VOTING_PERIOD = 2
		spec.CHURN_LIMIT_QUOTIENT = 16
		spec.MIN_PER_EPOCH_CHURN_LIMIT = 1
		spec.MAX_PER_EPOCH_ACTIVATION_CHURN_LIMIT = 2
		spec.MAX_WITHDRAWALS_PER_PAYLOAD = 2
		spec.MAX_VALIDATORS_PER_WITHDRAWALS_SWEEP = 8
		// vector lengths that are not powers of two: the padding of the Merkle tree beyond the vector's length matters
		// an epoch length that is not a power of two, a longer inclusion delay and another number of shuffling rounds than any published preset
		spec.SLOTS_PER_EPOCH = 6
		spec.MIN_ATTESTATION_INCLUSION_DELAY = 2
		spec.SHUFFLE_ROUND_COUNT = 7
		spec.EPOCHS_PER_HISTORICAL_VECTOR = 24
		spec.SLOTS_PER_HISTORICAL_ROOT = 24
		spec.MIN_SEED_LOOKAHEAD = 1
		spec.MAX_SEED_LOOKAHEAD = 2
		spec.HYSTERESIS_QUOTIENT = 2
		spec.INACTIVITY_SCORE_BIAS = 7
		spec.INACTIVITY_SCORE_RECOVERY_RATE = 5
		spec.PROPOSER_REWARD_QUOTIENT = 4
		spec.WHISTLEBLOWER_REWARD_QUOTIENT = 128
		spec.BASE_REWARD_FACTOR = view.Uint64View(96)
		spec.MAX_ATTESTATIONS = 24
		spec.MAX_BLOBS_PER_BLOCK = 3
	}
	return &spec
}

// drawScenario draws a scenario of the given family.
func drawScenario(rng *rand.Rand, family string, quick bool, forceLate ...bool) scenario {
	sc := scenario{Family: family, Preset: "minimal", Validators: 64, Epochs: 8, PBlock: 0.92, Participation: []float64{1}, SyncPart: 0.9, AttBack: 2, POps: 0.25, PDeposits: 0.0, Eth1Creds: 0.5, ExtraBalance: true}
	// fork schedules
	lateForks := false
	switch rng.IntN(7) {
	case 6: // later forks after the first sync-committee period boundary (set below once the preset is known)
		lateForks = true
		sc.ForkEpochs = [4]uint64{1, 2, 10, 11}
	case 0:
		sc.ForkEpochs = [4]uint64{1, 2, 3, 4}
	case 1:
		sc.ForkEpochs = [4]uint64{2, 3, 5, 6}
	case 2:
		sc.ForkEpochs = [4]uint64{1, 1, 2, 2} // two forks on the same epoch
	case 3:
		sc.ForkEpochs = [4]uint64{1, 2, ff, ff} // later forks never activate
	case 4:
		sc.ForkEpochs = [4]uint64{ff, ff, ff, ff}
	default:
		sc.ForkEpochs = [4]uint64{1, 2, 3, 3}
	}
	sc.StepEvery = rng.IntN(2) == 0
	forceDeneb, forceBellatrix, forceDenebAt3, forceCapellaAt2 := false, false, false, false
	switch family {
	case "steady":
		sc.Epochs = 7 + rng.IntN(4)
	case "ragged":
		sc.PBlock = 0.6 + rng.Float64()*0.35
		sc.Participation = []float64{1, 0.64, 0.68, 0.34, 0, 1, 0.7}
		rng.Shuffle(len(sc.Participation), func(i, j int) { sc.Participation[i], sc.Participation[j] = sc.Participation[j], sc.Participation[i] })
		sc.WrongHead, sc.WrongTarget = 0.15, 0.1
		sc.AttBack = uint64(1 + rng.IntN(10))
		sc.SyncPart = rng.Float64()
		sc.Epochs = 8 + rng.IntN(5)
	case "leak":
		sc.LeakEpochs = [2]int{1 + rng.IntN(3), 0}
		sc.LeakEpochs[1] = sc.LeakEpochs[0] + 6 + rng.IntN(5)
		sc.Epochs = sc.LeakEpochs[1] + 4
		sc.POps = 0.1
		if rng.IntN(3) == 0 {
			sc.ForkEpochs = [4]uint64{ff, ff, ff, ff} // the phase0 leak (its own penalty quotient and pending-attestation accounting)
		}
		if !quick && rng.IntN(3) == 0 { // long leak: inactivity scores beyond one byte, ejections
			sc.LeakEpochs[1] = sc.LeakEpochs[0] + 70
			sc.Epochs = sc.LeakEpochs[1] + 3
			sc.PBlock = 0.5
			sc.ForkEpochs = [4]uint64{1, 2, 3, 4}
			// registry size not a multiple of 4 and deposits arriving while scores are large:
			// appending to the packed inactivity-score list must not disturb its neighbours
			sc.Validators = 65 + rng.IntN(3)/2
			sc.PDeposits = 0.5
			sc.DepositsFromEpoch = sc.LeakEpochs[0] + 65
		}
	case "churn":
		sc.PDeposits = 0.5
		sc.POps = 0.6
		sc.CustomSlashingsVector = rng.IntN(2) == 0
		sc.Epochs = 10 + rng.IntN(5)
	case "capella":
		sc.ForkEpochs = [4]uint64{1, 1, 2, uint64(3 + rng.IntN(3))}
		sc.POps = 0.5
		sc.Blobs = 1 + rng.IntN(6)
		sc.PDeposits = 0.35 // the eth1 vote of period 0 passes inside the capella epochs: deposits due on the very block that tips it
		sc.Eth1Creds = 0.7
		sc.Epochs = 9 + rng.IntN(3)
	case "sweep":
		// capella under the custom preset (sweep of 8 validators, 2 withdrawals per payload) with few eth1 credentials: most sweeps end at
		// their bound, often right in front of a validator that is withdrawable
		sc.Preset = "custom"
		sc.Validators = 32 + rng.IntN(24)
		sc.ForkEpochs = [4]uint64{1, 1, 2, uint64(4 + rng.IntN(3))}
		sc.Eth1Creds = 0.2
		sc.POps = 0.3
		sc.Epochs = 8 + rng.IntN(3)
	case "shock":
		sc.BalanceShock = true
		sc.Validators = 48 + rng.IntN(32)
		sc.POps = 0.1
		sc.PBlock = 0.95
		sc.Epochs = 10 + rng.IntN(3)
		if rng.IntN(2) == 0 {
			// sync-committee periods of 4 epochs: shocks fall on period boundaries (epochs 4, 8); capella for most of the chain
			sc.Preset = "custom"
			forceCapellaAt2 = true
		}
	case "massslash":
		// most of the registry is slashed within a few epochs: correlation penalties take whole effective balances,
		// further penalties hit validators with (almost) nothing left (decrease_balance clamps at zero)
		sc.ForcedSlashings = true
		sc.CustomSlashingsVector = true
		sc.Validators = 40 + rng.IntN(24)
		sc.ExtraBalance = false
		sc.POps = 0
		sc.PBlock = 1
		sc.Epochs = 12
		forceBellatrix = true // proportional slashing multiplier 3: a third of the stake slashed takes whole balances
	case "ejectall":
		sc.Epochs = 10 // the ejected validators exit from epoch 6 on and stay slashable until they are withdrawable
		sc.POps = 1
		sc.ForcedSlashings = true
		sc.ExtraBalance = false
		sc.PBlock = 1
	case "custom", "ejectdeneb":
		sc.Preset = "custom"
		sc.Validators = 24 + rng.IntN(40)
		sc.POps = 0.4
		sc.PDeposits = 0.3
		sc.Participation = []float64{1, 0.7, 1, 0.5}
		sc.Epochs = 9 + rng.IntN(4)
		if family == "ejectdeneb" {
			// deneb early, churn limit (validators/16) above the activation cap (2), mass ejections
			sc.EjectionHigh = true
			sc.Validators = 48 + rng.IntN(16)
			// validators start at exactly the maximum: those missing in epoch 0 fall below it at the end of epoch 0
			// and are ejected together at the end of epoch 1, which is a deneb epoch
			sc.Participation = []float64{0.6, 1, 0.7, 1, 0.6, 0.8}
			sc.ExtraBalance = false
			sc.PBlock = 0.95
			forceDeneb = true
		}
	case "lateincl":
		// late inclusion: whole epochs whose votes only arrive in the following epoch (previous-epoch justification,
		// all four finalization rules, old previous != old current justified checkpoint)
		sc.LatePattern = make([]bool, 5+rng.IntN(6))
		for i := range sc.LatePattern {
			sc.LatePattern[i] = rng.IntN(2) == 0
		}
		k := rng.IntN(len(sc.LatePattern) - 2)
		sc.LatePattern[k], sc.LatePattern[k+1], sc.LatePattern[k+2] = true, true, false // two late epochs, then a timely one
		sc.PBlock = 0.97
		sc.POps = 0.05
		sc.Epochs = 12 + rng.IntN(6)
		if rng.IntN(2) == 0 {
			forceDenebAt3 = true
		}
	case "mainnet":
		sc.Preset = "mainnet"
		sc.Validators = 128 + rng.IntN(64)
		sc.Epochs = 3
		sc.ForkEpochs = [4]uint64{1, 1, 2, 2}
		sc.PBlock = 0.85
		sc.POps = 0.3
		lateForks = false
	}
	if (family == "leak" && rng.IntN(2) == 0) || (family == "churn" && rng.IntN(3) == 0) || (family == "ragged" && rng.IntN(4) == 0) {
		sc.EjectionHigh = true
	}
	if len(forceLate) > 0 && forceLate[0] && family != "mainnet" {
		lateForks = true
	}
	if forceDeneb {
		lateForks = false
		sc.ForkEpochs = [4]uint64{1, 1, 1, 1}
	}
	if forceCapellaAt2 {
		lateForks = false
		sc.ForkEpochs = [4]uint64{1, 1, 2, uint64(7 + rng.IntN(3))}
	}
	if forceDenebAt3 {
		lateForks = false
		sc.ForkEpochs = [4]uint64{1, 2, 3, 3}
	}
	if forceBellatrix {
		lateForks = false
		sc.ForkEpochs = [4]uint64{1, 2, uint64(6 + rng.IntN(3)), uint64(9 + rng.IntN(3))}
	}
	if lateForks && family != "capella" && family != "sweep" && !(family == "leak" && sc.Epochs > 40) {
		period := uint64(8)
		if sc.Preset == "custom" {
			period = 4
		}
		sc.ForkEpochs = [4]uint64{1, 2, period + 1 + uint64(rng.IntN(2)), period + 2 + uint64(rng.IntN(3))}
		if sc.ForkEpochs[3] < sc.ForkEpochs[2] {
			sc.ForkEpochs[3] = sc.ForkEpochs[2]
		}
		if uint64(sc.Epochs) < sc.ForkEpochs[3]+2 {
			sc.Epochs = int(sc.ForkEpochs[3]) + 2
		}
	}
	if b, c := sc.ForkEpochs[1], sc.ForkEpochs[2]; b != ff && c > b && rng.IntN(2) == 0 {
		// the merge transition block comes some slots after the bellatrix upgrade (always before capella)
		sc.MergeDelay = 1 + uint64(rng.IntN(6))
	}
	return sc
}

type chainHooks struct {
	// afterStep is called after every compared step (slot advance or block); where describes it.
	afterStep func(c *sim.Chain, where string, isBlock bool, built *sim.Built) bool
	// beforeBlock may veto/replace applying the block (used by C03/C18); return true if it handled the block itself.
	beforeBlock func(c *sim.Chain, built *sim.Built) bool
	// onSlashedProposer is called for slots whose proposer is slashed (no valid block exists there).
	onSlashedProposer func(c *sim.Chain, slot uint64)
}

// runChain runs one scenario; mismatches are reported through report(kind, what, detail). Returns false if it stopped early.
func runChain(b *fw.B, sc scenario, hooks chainHooks, report func(m *sim.Mismatch, trace []string)) bool {
	if sc.Family != "other-config-first" && b.Batch%2 == 0 {
		// In the even batches a short chain under ANOTHER configuration (preset, fork versions, limits) runs first in the same
		// process, through all forks: anything the library caches process-wide instead of per configuration would then
		// be wrong for the chain that follows.
		warm := scenario{Family: "other-config-first", Preset: "custom", Validators: 32, Epochs: 5, PBlock: 1, ForkEpochs: [4]uint64{1, 2, 3, 4},
			Participation: []float64{1}, SyncPart: 1, AttBack: 1, POps: 0.2, PDeposits: 0.3, Eth1Creds: 0.5}
		if sc.Preset == "custom" {
			warm.Preset = "minimal"
		}
		b.Inc("chains_preceded_by_a_chain_under_another_configuration")
		if !runChain(b, warm, chainHooks{}, report) {
			return false
		}
	}
	spec := specFor(sc)
	ctx := context.Background()
	rng := b.Rng
	c, err := sim.NewChain(spec, rng, sim.GenesisOpts{Validators: sc.Validators,
		Eth1Creds: func(i int) bool { return float64(i%10)/10 < sc.Eth1Creds },
		Balance: func(i int) uint64 {
			if sc.ExtraBalance && i%7 == 3 {
				return uint64(spec.MAX_EFFECTIVE_BALANCE) + uint64(spec.EFFECTIVE_BALANCE_INCREMENT)*2
			}
			return uint64(spec.MAX_EFFECTIVE_BALANCE)
		}})
	if err != nil {
		report(&sim.Mismatch{Kind: "genesis", What: err.Error()}, nil)
		return false
	}
	if sc.MergeDelay > 0 {
		c.MergeAtSlot = sc.ForkEpochs[1]*uint64(spec.SLOTS_PER_EPOCH) + sc.MergeDelay
	}
	refspec.OnBalanceSaturated = func() { b.Inc("refspec_decrease_balance_clamped_at_zero") }
	c.Sp.Observe = func(ev string) {
		b.Inc("refspec_" + ev) // executions of that branch by the reference (builder runs included)
	}
	if m := c.Compare("genesis (state loaded from the reference bytes)"); m != nil {
		report(m, nil)
		return false
	}
	var trace []string
	spe := uint64(spec.SLOTS_PER_EPOCH)
	lastSlot := uint64(sc.Epochs) * spe
	for slot := uint64(1); slot <= lastSlot && !b.Stop(); slot++ {
		epoch := slot / spe
		part := sc.Participation[int(epoch)%len(sc.Participation)]
		if sc.LeakEpochs[1] > 0 && int(epoch) >= sc.LeakEpochs[0] && int(epoch) < sc.LeakEpochs[1] {
			part = 0.3
		}
		if sc.BalanceShock && slot%spe == 0 && epoch >= 2 && epoch%2 == 0 {
			if m := shockBalances(c, rng); m != nil {
				report(m, trace)
				return false
			}
			trace = append(trace, fmt.Sprintf("before slot %d: balances of a quarter of the validators overwritten", slot))
			b.Inc("balance_shocks")
		}
		if rng.Float64() >= sc.PBlock {
			// empty slot
			if sc.StepEvery {
				trace = append(trace, fmt.Sprintf("slot %d: empty", slot))
				b.LogStep("slot %d: empty", slot)
				if m := c.AdvanceSlots(ctx, slot); m != nil {
					report(m, trace)
					return false
				}
				b.Inc("slots_compared")
				if hooks.afterStep != nil && !hooks.afterStep(c, fmt.Sprintf("slot %d", slot), false, nil) {
					return false
				}
			}
			continue
		}
		plan := sim.Plan{Participation: part, MaxAttSlotsBack: sc.AttBack, WrongHeadProb: sc.WrongHead, WrongTargetProb: sc.WrongTarget, SyncParticipation: sc.SyncPart, Blobs: 0}
		if len(sc.LatePattern) > 0 {
			plan.MaxAttSlotsBack = spe
			plan.WithholdCurrentEpoch = sc.LatePattern[int(epoch)%len(sc.LatePattern)]
			if epoch >= sc.ForkEpochs[3] && epoch > 0 && sc.LatePattern[int(epoch-1)%len(sc.LatePattern)] && slot%spe < spe/2 {
				// deneb: the first half of the epoch after a withheld one includes only votes older than a whole epoch
				// (EIP-7045: still includable, still earning the target flag)
				plan.MinAttDelay, plan.MaxAttSlotsBack = spe+1, 2*spe-1
			}
		}
		if rng.Float64() < sc.POps {
			if rng.IntN(4) == 0 {
				plan.ProposerSlashings = 1
			}
			if rng.IntN(4) == 0 {
				plan.AttesterSlashings = 1
			}
			plan.Exits = rng.IntN(3)
			plan.BLSChanges = rng.IntN(3)
		}
		if sc.Family == "massslash" {
			plan.AttesterSlashings, plan.ProposerSlashings = 2, 1+rng.IntN(2)
		} else if sc.ForcedSlashings {
			plan.AttesterSlashings, plan.ProposerSlashings = 1, rng.IntN(2)
		}
		if sc.Blobs > 0 {
			plan.Blobs = rng.IntN(sc.Blobs + 1)
		}
		if rng.Float64() < sc.PDeposits && int(epoch) >= sc.DepositsFromEpoch {
			plan.NewDeposits = 1 + rng.IntN(3)
			plan.VoteNewEth1 = true
		}
		built, err := c.BuildBlock(slot, plan)
		if err == sim.ErrProposerSlashed {
			b.Inc("slots_with_slashed_proposer")
			if hooks.onSlashedProposer != nil {
				hooks.onSlashedProposer(c, slot)
			}
			continue
		}
		if err != nil {
			report(&sim.Mismatch{Kind: "harness", What: err.Error()}, trace)
			return false
		}
		desc := fmt.Sprintf("slot %d: %s block ops=%v", slot, refspec.ForkNames[built.Signed.Message.Fork], built.Ops)
		trace = append(trace, desc)
		b.LogStep("%s", desc)
		if hooks.beforeBlock != nil && hooks.beforeBlock(c, built) {
			continue
		}
		preFork := c.Ref.Fork
		if m := c.ApplyBlock(ctx, built); m != nil {
			report(m, trace)
			return false
		}
		b.Inc("blocks_compared")
		fork := built.Signed.Message.Fork
		for k, n := range built.Ops {
			b.Count("op_"+k+"_"+refspec.ForkNames[fork], int64(n))
			b.Count("op_"+k, int64(n))
		}
		if fork != preFork {
			b.Inc("first_block_after_upgrade_" + refspec.ForkNames[fork])
		}
		if built.Signed.Message.Slot > built.Pre.Slot-0 && c.Ref.Slot-1 > 0 {
			// multi-slot jump inside one state transition?
		}
		b.Nontrivial(built.Bytes[:min(200, len(built.Bytes))], slot)
		if hooks.afterStep != nil && !hooks.afterStep(c, fmt.Sprintf("block at slot %d", slot), true, built) {
			return false
		}
	}
	return true
}

// shockBalances overwrites the balances of about a quarter of the validators with low values, identically in the reference state and in zrnt's.
func shockBalances(c *sim.Chain, rng *rand.Rand) *sim.Mismatch {
	bals, err := c.Z.Balances()
	if err != nil {
		return &sim.Mismatch{Kind: "harness", What: err.Error()}
	}
	inc := c.Sp.EFFECTIVE_BALANCE_INCREMENT
	choices := []uint64{17 * inc, 20*inc + inc/3, 25 * inc, 29*inc + inc/2, 31*inc + 7*inc/10, inc}
	for i := range c.Ref.Balances {
		if rng.IntN(4) != 0 {
			continue
		}
		nb := choices[rng.IntN(len(choices))]
		if nb > c.Sp.MAX_EFFECTIVE_BALANCE {
			nb = c.Sp.MAX_EFFECTIVE_BALANCE / 2
		}
		c.Ref.Balances[i] = nb
		if err := bals.SetBalance(common.ValidatorIndex(i), common.Gwei(nb)); err != nil {
			return &sim.Mismatch{Kind: "harness", What: err.Error()}
		}
	}
	return c.Compare("after overwriting balances on both sides")
}

func diffStates(sp *refspec.Spec, fork int, refBytes, zBytes []byte) []string {
	return refssz.DiffBytes(sp.S.State[fork], refBytes, zBytes, 8)
}

// the G2 generator, which zrnt's KickStartState puts into its synthetic deposits
var kickstartPlaceholderSig = func() [96]byte {
	return (*blsu.Signature)(kbls.NewG2().One()).Serialize()
}()
