package props

import (
	"fmt"
	"time"

	"verif/fw"
	"verif/sim"
)

var chainAssume = []string{
	"reference model (refspec): a naive transcription of consensus-specs v1.5.0-beta.2 phase0..deneb written for this harness; it shares only the BLS library and the configuration numbers with zrnt (sha256 from the Go standard library)",
	"blocks are built from the reference state only (duties, domains, withdrawals, state root) and reach zrnt as SSZ bytes; states are compared as SSZ bytes (injective for a fixed schema) and by root",
	"reachable = reached by the simulator's scenario families; parameter sets where the spec's own uint64 arithmetic would overflow are not generated",
}

func chainFamilies(tier string) []string {
	if fw.Quick(tier) {
		return []string{"steady", "ragged", "leak", "churn", "capella", "custom", "ejectall", "lateincl", "churn", "capella", "leak", "ejectdeneb", "lateincl", "massslash", "sweep", "mainnet"}
	}
	return []string{"steady", "ragged", "leak", "churn", "capella", "custom", "mainnet", "lateincl", "churn", "capella", "ragged", "leak", "custom", "ejectall", "lateincl", "ejectdeneb", "massslash", "sweep", "shock"}
}

func init() {
	fw.Register(&fw.Prop{
		ID:    "C01",
		Level: "exploration",
		Rule: "chains driven by the validator-client simulator through scenario families steady/ragged/leak/churn/capella/custom-preset/mainnet-preset with fork schedules {consecutive, gaps, two forks on one epoch, forks never activated}; every block is valid per the reference and is run through common.StateTransition(validateResult=true) on zrnt; " +
			"post-state bytes, root and declared state root compared after every block. A case is one (pre-state, block); non-trivial when the block was accepted by both; distinct by (block bytes prefix, slot)",
		Assumptions:  chainAssume,
		Batches:      func(tier string) int { return 16 },
		ChildTimeout: func(string) time.Duration { return 40 * time.Minute },
		Run: func(b *fw.B) {
			fams := chainFamilies(b.Tier)
			n := 1
			if !fw.Quick(b.Tier) {
				n = 16
			}
			for k := 0; k < n && !b.Stop(); k++ {
				fam := fams[(b.Batch+k)%len(fams)]
				sc := drawScenario(b.Rng, fam, fw.Quick(b.Tier), (b.Batch+k)%4 == 2)
				if k%2 == 0 {
					sc.StepEvery = false // multi-slot jumps inside StateTransition
				}
				b.Case("chain-"+fam, sc.String())
				b.Inc("chains_" + fam)
				runChain(b, sc, chainHooks{}, func(m *sim.Mismatch, trace []string) {
					reportChainMismatch(b, "C01", m, sc, trace)
				})
				if k == 0 && b.Batch < 3 {
					b.Sample(map[string]any{"scenario": sc.String()})
				}
			}
		},
		Required: []string{"blocks_compared", "op_attestation", "op_proposer_slashing", "op_attester_slashing", "op_deposit", "op_exit", "op_bls_change", "op_sync_aggregate", "op_execution_payload", "op_withdrawal", "op_blob_commitment", "op_pre_merge_block", "op_merge_transition_block", "refspec_slashings_of_validators_that_already_exited", "refspec_deneb_attestations_included_more_than_one_epoch_late",
			"first_block_after_upgrade_altair", "first_block_after_upgrade_bellatrix", "first_block_after_upgrade_capella", "first_block_after_upgrade_deneb",
			"op_attestation_phase0", "op_attestation_altair", "op_attestation_deneb", "op_exit_deneb", "refspec_withdrawal_sweeps_that_ended_at_the_bound_in_front_of_a_withdrawable_validator"},
	})
	fw.Register(&fw.Prop{
		ID:    "C02",
		Level: "exploration",
		Rule: "the same simulator chains advanced ONE SLOT AT A TIME (ProcessSlots to slot+1, or the block of that slot), state bytes and root compared with the reference process_slots after every slot, so each epoch-boundary sub-transition and each fork upgrade is localised; " +
			"families emphasise finality patterns, leaks (incl. >64 epochs in thorough), churn, slashing correlation penalties, hysteresis, resets and sync-committee period boundaries next to upgrades. A case is one chain; non-trivial when >=1 epoch boundary was compared; distinct by scenario",
		Assumptions:  chainAssume,
		Batches:      func(tier string) int { return 16 },
		ChildTimeout: func(string) time.Duration { return 40 * time.Minute },
		Run: func(b *fw.B) {
			fams := chainFamilies(b.Tier)
			n := 1
			if !fw.Quick(b.Tier) {
				n = 14
			}
			for k := 0; k < n && !b.Stop(); k++ {
				fam := fams[(b.Batch+k+3)%len(fams)]
				sc := drawScenario(b.Rng, fam, fw.Quick(b.Tier), (b.Batch+k)%4 == 0)
				sc.StepEvery = true
				if fam != "churn" && fam != "capella" {
					sc.PBlock *= 0.9
				}
				b.Case("chain-"+fam, sc.String())
				b.Inc("chains_" + fam)
				var lastFin, lastJust uint64
				var lastFork int
				hooks := chainHooks{afterStep: func(c *sim.Chain, where string, isBlock bool, built *sim.Built) bool {
					st := c.Ref
					if st.Slot%c.Sp.SLOTS_PER_EPOCH == 0 {
						b.Inc("epoch_boundaries_compared")
						b.Nontrivial(sc.String(), st.Slot)
						if st.FinalizedCheckpoint.Epoch > lastFin {
							b.Inc("finalized_advanced")
							lastFin = st.FinalizedCheckpoint.Epoch
						}
						if st.CurrentJustifiedCheckpoint.Epoch > lastJust {
							b.Inc("justified_advanced")
							lastJust = st.CurrentJustifiedCheckpoint.Epoch
						}
						ep := st.Slot / c.Sp.SLOTS_PER_EPOCH
						if ep > st.FinalizedCheckpoint.Epoch+c.Sp.MIN_EPOCHS_TO_INACTIVITY_PENALTY+1 {
							b.Inc("epochs_in_leak")
						}
						nSlashed := 0
						for i := range st.Validators {
							if st.Validators[i].Slashed {
								nSlashed++
							}
						}
						b.Max("max_percent_of_registry_slashed_"+sc.Family, int64(100*nSlashed/len(st.Validators)))
						for i := range st.Validators {
							v := &st.Validators[i]
							if v.Slashed {
								b.Inc("obs_slashed_validators")
							}
							if v.ExitEpoch != ^uint64(0) && !v.Slashed {
								b.Inc("obs_exiting_validators")
								if v.EffectiveBalance <= c.Sp.EJECTION_BALANCE {
									b.Inc("obs_ejected_validators")
								}
							}
							if v.EffectiveBalance < c.Sp.MAX_EFFECTIVE_BALANCE {
								b.Inc("obs_effective_balance_below_max")
							}
							if v.ActivationEpoch != 0 && v.ActivationEpoch != ^uint64(0) {
								b.Inc("obs_activated_after_genesis")
							}
						}
						for _, s := range st.InactivityScores {
							if s > 255 {
								b.Inc("obs_inactivity_score_above_255")
								break
							}
						}
						if st.Fork != lastFork {
							b.Inc("upgrade_compared_" + []string{"phase0", "altair", "bellatrix", "capella", "deneb"}[st.Fork])
							lastFork = st.Fork
						}
					}
					return true
				}}
				runChain(b, sc, hooks, func(m *sim.Mismatch, trace []string) {
					reportChainMismatch(b, "C02", m, sc, trace)
				})
				if k == 0 && b.Batch < 3 {
					b.Sample(map[string]any{"scenario": sc.String()})
				}
			}
		},
		Required: []string{"slots_compared", "epoch_boundaries_compared", "finalized_advanced", "justified_advanced", "epochs_in_leak", "obs_slashed_validators", "obs_exiting_validators", "obs_effective_balance_below_max",
			"upgrade_compared_altair", "upgrade_compared_bellatrix", "upgrade_compared_capella", "upgrade_compared_deneb",
			"refspec_finalize_rule_1_bits234_source4", "refspec_finalize_rule_2_bits23_source3", "refspec_finalize_rule_3_bits123_source3", "refspec_finalize_rule_4_bits12_source2",
			"refspec_finalize_rule_3_with_old_previous_ne_old_current", "refspec_epochs_with_ejections", "refspec_deneb_epochs_with_more_ejections_than_the_activation_cap_below_churn_limit",
			"refspec_epochs_with_more_ejections_than_churn_limit", "refspec_decrease_balance_clamped_at_zero"},
	})
}

// reportChainMismatch turns a mismatch into a violation; signatures carry the kind and the first differing state path.
func reportChainMismatch(b *fw.B, prop string, m *sim.Mismatch, sc scenario, trace []string) {
	if m.Kind == "harness" || m.Kind == "genesis" {
		b.Note("harness problem (not judged): %s — %s", m.What, sc.String())
		b.Inc("harness_problems")
		return
	}
	sig := m.Kind
	if len(m.Diff) > 0 {
		sig += "/" + diffPathClass(m.Diff[0])
	}
	tail := trace
	if len(tail) > 25 {
		tail = tail[len(tail)-25:]
	}
	b.Violate(sig, fmt.Sprintf("%s — scenario %s", m.What, sc.String()), map[string]any{"scenario": sc.String(), "diff": m.Diff, "trace_tail": tail})
}

// diffPathClass strips indices from a diff path: "BeaconState.inactivity_scores[4]: 260 != 4" -> "inactivity_scores"
func diffPathClass(d string) string {
	out := ""
	for i := 0; i < len(d); i++ {
		if d[i] == ':' {
			break
		}
		out += string(d[i])
	}
	// drop the container name and indices
	res := ""
	skip := false
	for _, ch := range out {
		switch {
		case ch == '[':
			skip = true
		case ch == ']':
			skip = false
		case !skip:
			res += string(ch)
		}
	}
	if len(res) > 12 && res[:12] == "BeaconState." {
		res = res[12:]
	}
	return res
}
