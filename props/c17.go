package props

import (
	"context"
	"fmt"
	"math/rand/v2"
	"runtime"
	"sort"
	"strings"
	"sync"
	"sync/atomic"
	"time"

	"github.com/anishathalye/porcupine"
	blsu "github.com/protolambda/bls12-381-util"
	"github.com/protolambda/zrnt/eth2/beacon/altair"
	"github.com/protolambda/zrnt/eth2/beacon/common"
	"github.com/protolambda/zrnt/eth2/beacon/phase0"
	"github.com/protolambda/zrnt/eth2/configs"
	"github.com/protolambda/zrnt/eth2/forkchoice"
	"github.com/protolambda/zrnt/eth2/forkchoice/proto"
	"github.com/protolambda/zrnt/eth2/pool"
	"github.com/protolambda/ztyp/tree"
	"github.com/protolambda/ztyp/view"

	"verif/fw"
)

// C17 — components documented as shared are safe under concurrent use.
//
// Plain build: client goroutines on one shared instance, every call recorded at the client boundary
// (call/return stamps from one atomic counter), the history checked with porcupine against the
// *sequential behaviour of the real implementation itself* (the model replays the candidate order on
// a fresh instance). Deadlocks show as the Go runtime's report in the child process.
// Race build: the same client programs with the recorder compiled out (the recorder's atomic clock
// would be a happens-before edge hiding races), reports collected from the race-detector log.

type concIn struct {
	Op   string
	A, B int
	C    int
}

type concComponent struct {
	name string
	// fresh builds a new instance (deterministic).
	fresh func() any
	// gen draws the program of one client.
	gen func(rng *rand.Rand, client, nOps int) []concIn
	// apply executes one input on the instance and returns a canonical output string.
	apply func(inst any, in concIn) string
}

type opList struct {
	prev *opList
	in   concIn
	n    int
}

func (c *concComponent) model() porcupine.Model {
	return porcupine.Model{
		Init: func() interface{} { return (*opList)(nil) },
		Step: func(state, input, output interface{}) (bool, interface{}) {
			st := state.(*opList)
			in := input.(concIn)
			n := 1
			if st != nil {
				n = st.n + 1
			}
			next := &opList{prev: st, in: in, n: n}
			// replay the candidate order on a fresh instance of the real implementation
			seq := make([]concIn, n)
			for x, i := next, n-1; x != nil; x, i = x.prev, i-1 {
				seq[i] = x.in
			}
			inst := c.fresh()
			var out string
			for _, s := range seq {
				out = c.apply(inst, s)
			}
			return out == output.(string), next
		},
		Equal: func(a, b interface{}) bool { return a.(*opList) == b.(*opList) },
		DescribeOperation: func(input, output interface{}) string {
			return fmt.Sprintf("%v -> %v", input, output)
		},
	}
}

func init() {
	fw.Register(&fw.Prop{
		ID:    "C17",
		Level: "exploration",
		Rule: "per shared component (fork-choice wrapper, pubkey cache incl. lazily decompressed keys, attestation pool, sync-committee pool, slashing/exit pools): 3-4 client goroutines x 4-6 calls on one instance drawn from all read and write methods over few keys/nodes so calls collide; " +
			"plain build: each history checked for linearizability with porcupine against a replay of the real implementation in the candidate sequential order, deadlock = Go runtime report; " +
			"race build: 8-16 goroutines x 200 calls, recorder compiled out, data-race reports de-duplicated by the pair of innermost zrnt frames. A case is one history/run; non-trivial when >=2 calls overlapped in time; distinct by (component, programs) hash",
		Assumptions: []string{
			"sequential specification = the real implementation run single-threaded on a fresh instance (so only concurrency effects can be flagged)",
			"porcupine results 'unknown' (checker timeout) are counted, never judged",
			"race detector is happens-before based: only races between accesses the workload actually performs are seen",
			"the -race build does not report deadlocks (its runtime keeps the process awake); blocking verdicts come from the plain build",
		},
		Batches:      func(tier string) int { return 16 },
		RaceBatches:  func(tier string) int { return 8 },
		ChildTimeout: func(string) time.Duration { return 20 * time.Minute },
		RaceChildTimeout: func(tier string) time.Duration {
			if fw.Quick(tier) {
				return 6 * time.Minute
			}
			return 20 * time.Minute
		},
		Run:      runC17,
		Required: []string{"histories_checked", "histories_with_overlap", "race_runs", "component_forkchoice", "component_pubkeys", "component_attpool", "component_syncpool", "component_simplepools"},
	})
}

var c17Keys []common.BLSPubkey
var c17KeysOnce sync.Once

func c17PubKeys() []common.BLSPubkey {
	c17KeysOnce.Do(func() {
		for i := 0; i < 6; i++ {
			var skb [32]byte
			skb[31] = byte(i + 1)
			skb[30] = 0x77
			var sk blsu.SecretKey
			if err := sk.Deserialize(&skb); err != nil {
				panic(err)
			}
			pk, err := blsu.SkToPk(&sk)
			if err != nil {
				panic(err)
			}
			c17Keys = append(c17Keys, common.BLSPubkey(pk.Serialize()))
		}
	})
	return c17Keys
}

func c17Components() []*concComponent {
	spec := configs.Minimal
	ctx := context.Background()
	keys := c17PubKeys()
	// ---------------- pubkey cache
	pk := &concComponent{name: "pubkeys",
		fresh: func() any {
			pc := common.EmptyPubkeyCache()
			pc, _ = pc.AddValidator(0, keys[0])
			return pc
		},
		gen: func(rng *rand.Rand, client, nOps int) []concIn {
			out := make([]concIn, nOps)
			for i := range out {
				switch rng.IntN(5) {
				case 0, 1:
					out[i] = concIn{Op: "Add", A: rng.IntN(4), B: rng.IntN(len(keys))}
				case 2, 3:
					out[i] = concIn{Op: "Pubkey", A: rng.IntN(4)}
				default:
					out[i] = concIn{Op: "Index", B: rng.IntN(len(keys))}
				}
			}
			return out
		},
		apply: func(inst any, in concIn) string {
			pc := inst.(*common.PubkeyCache)
			switch in.Op {
			case "Add":
				ret, err := pc.AddValidator(common.ValidatorIndex(in.A), keys[in.B])
				switch {
				case err != nil:
					return "err"
				case ret == pc:
					return "same"
				default:
					// a fresh private fork: its content is part of the result
					s := "fork:"
					for i := 0; i < 5; i++ {
						if cp, ok := ret.Pubkey(common.ValidatorIndex(i)); ok {
							s += fmt.Sprintf("%x,", cp.Compressed[:2])
						}
					}
					return s
				}
			case "Pubkey":
				cp, ok := pc.Pubkey(common.ValidatorIndex(in.A))
				if !ok {
					return "none"
				}
				p, err := cp.Pubkey() // lazy decompression of the shared entry
				if err != nil || p == nil {
					return "decompress-error"
				}
				tmp := *p // Serialize normalizes the point in place: never call it on the shared object
				if common.BLSPubkey(tmp.Serialize()) != cp.Compressed {
					return "decompressed-other-key"
				}
				return fmt.Sprintf("%x", cp.Compressed[:2])
			default:
				i, ok := pc.ValidatorIndex(keys[in.B])
				return fmt.Sprintf("%d,%v", i, ok)
			}
		}}
	// ---------------- fork choice
	type blk struct {
		root, parent common.Root
		slot         common.Slot
	}
	genesis := common.Root{0xaa}
	mkRoot := func(i int) common.Root { return common.Root{byte(0x10 + i), byte(i * 7)} }
	// a fixed small tree: b0,b1 on genesis (fork), b2 on b0, b3 on b2 (crosses epoch 1 start at slot 8), b4 on b1
	blocks := []blk{
		{mkRoot(0), genesis, 2}, {mkRoot(1), genesis, 3}, {mkRoot(2), mkRoot(0), 5}, {mkRoot(3), mkRoot(2), 9}, {mkRoot(4), mkRoot(1), 6}, {mkRoot(5), mkRoot(3), 17},
	}
	allRoots := []common.Root{genesis, mkRoot(0), mkRoot(1), mkRoot(2), mkRoot(3), mkRoot(4), mkRoot(5), {0xee}}
	// a longer deterministic tree behind the first six blocks, so that long (race-build) runs keep inserting
	{
		tr := rand.New(rand.NewPCG(17, 4))
		slots := map[common.Root]common.Slot{genesis: 0}
		for _, b := range blocks {
			slots[b.root] = b.slot
		}
		for i := 6; i < 80; i++ {
			parent := blocks[tr.IntN(len(blocks))]
			if tr.IntN(2) == 0 {
				parent = blocks[len(blocks)-1]
			}
			nb := blk{mkRoot(i), parent.root, parent.slot + 1 + common.Slot(tr.IntN(3))}
			blocks = append(blocks, nb)
		}
	}
	fcC := &concComponent{name: "forkchoice",
		fresh: func() any {
			cp := common.Checkpoint{Epoch: 0, Root: genesis}
			bal := make([]common.Gwei, 8)
			for i := range bal {
				bal[i] = common.Gwei(1+i%3) * 1_000_000_000
			}
			fc, err := proto.NewProtoForkChoice(spec, cp, cp, genesis, 0, common.Root{}, bal, nil)
			if err != nil {
				panic(err)
			}
			return fc
		},
		gen: func(rng *rand.Rand, client, nOps int) []concIn {
			out := make([]concIn, nOps)
			for i := range out {
				switch rng.IntN(14) {
				case 0, 1, 2:
					// short histories use the first blocks, long runs walk through the whole tree
					hi := 6 + i*len(blocks)/nOps
					if hi > len(blocks) {
						hi = len(blocks)
					}
					out[i] = concIn{Op: "Block", A: rng.IntN(hi)}
				case 3:
					out[i] = concIn{Op: "Slot", B: 1 + rng.IntN(12+i)}
				case 4, 5, 6:
					out[i] = concIn{Op: "Att", A: rng.IntN(8), B: rng.IntN(len(allRoots)), C: rng.IntN(12)}
				case 7, 8:
					out[i] = concIn{Op: "Head"}
				case 9:
					out[i] = concIn{Op: "InSubtree", A: rng.IntN(len(allRoots)), B: rng.IntN(len(allRoots))}
				case 10:
					out[i] = concIn{Op: "Chain", A: rng.IntN(len(allRoots)), B: rng.IntN(10)}
				case 11:
					out[i] = concIn{Op: "Update", A: rng.IntN(len(allRoots)), B: rng.IntN(3), C: rng.IntN(2)}
				case 12:
					// half of the pins go to the anchor root at varying slots: re-pinning the root that is already pinned
					a := rng.IntN(len(allRoots))
					if rng.IntN(2) == 0 {
						a = 0
					}
					out[i] = concIn{Op: "Pin", A: a, B: rng.IntN(10)}
				default:
					out[i] = concIn{Op: []string{"GetSlot", "Closest", "CanonAt", "Search", "Justified", "Finalized", "GetPin", "FindHead", "GetPin"}[rng.IntN(9)], A: rng.IntN(len(allRoots)), B: rng.IntN(12)}
				}
			}
			return out
		},
		apply: func(inst any, in concIn) string {
			fc := inst.(forkchoice.Forkchoice)
			switch in.Op {
			case "Block":
				b := blocks[in.A]
				return fmt.Sprint(fc.ProcessBlock(b.parent, b.root, b.slot, 0, 0))
			case "Slot":
				// documented use only: known root (the anchor), later slot
				fc.ProcessSlot(genesis, common.Slot(in.B), 0, 0)
				return "-"
			case "Att":
				return fmt.Sprint(fc.ProcessAttestation(common.ValidatorIndex(in.A), allRoots[in.B], common.Slot(in.C)))
			case "Head":
				h, err := fc.Head()
				return fmt.Sprintf("%x@%d/%v", h.Root[:2], h.Slot, err != nil)
			case "FindHead":
				h, err := fc.FindHead(allRoots[in.A], common.Slot(in.B))
				return fmt.Sprintf("%x@%d/%v", h.Root[:2], h.Slot, err != nil)
			case "InSubtree":
				u, s := fc.InSubtree(allRoots[in.A], allRoots[in.B])
				return fmt.Sprint(u, s)
			case "Chain":
				ch, err := fc.CanonicalChain(allRoots[in.A], common.Slot(in.B))
				s := fmt.Sprint(err != nil)
				for _, c := range ch {
					s += fmt.Sprintf(" %x@%d", c.Root[:2], c.Slot)
				}
				return s
			case "Update":
				just := common.Checkpoint{Epoch: common.Epoch(in.B), Root: allRoots[in.A]}
				fin := common.Checkpoint{Epoch: 0, Root: genesis}
				if in.C == 1 {
					fin = common.Checkpoint{Epoch: common.Epoch(in.B), Root: allRoots[in.A]}
				}
				err := fc.UpdateJustified(ctx, allRoots[in.A], just, fin, func() ([]common.Gwei, error) {
					return []common.Gwei{1e9, 2e9, 3e9, 1e9, 2e9, 3e9, 1e9, 2e9}, nil
				})
				return fmt.Sprint(err != nil)
			case "Pin":
				err := fc.SetPin(allRoots[in.A], common.Slot(in.B))
				return fmt.Sprint(err != nil)
			case "GetPin":
				p := fc.Pin()
				if p == nil {
					return "nil"
				}
				// the caller keeps the returned reference for a moment before reading it again: a result that was handed out is the
				// caller's, nothing may write to it any more (read without the lock: the race detector sees a writer, too)
				r0, s0 := p.Root, p.Slot
				time.Sleep(20 * time.Microsecond)
				if p.Root != r0 || p.Slot != s0 {
					return fmt.Sprintf("%x@%d rewritten to %x@%d after Pin() returned it", r0[:2], s0, p.Root[:2], p.Slot)
				}
				return fmt.Sprintf("%x@%d", r0[:2], s0)
			case "GetSlot":
				s, ok := fc.GetSlot(allRoots[in.A])
				return fmt.Sprint(s, ok)
			case "Closest":
				c, cerr := fc.ClosestToSlot(allRoots[in.A], common.Slot(in.B))
				return fmt.Sprintf("%x@%d %v", c.Root[:2], c.Slot, cerr != nil)
			case "CanonAt":
				a, aerr := fc.CanonAtSlot(allRoots[in.A], common.Slot(in.B), in.B%2 == 0)
				return fmt.Sprintf("%x@%d %v", a.Root[:2], a.Slot, aerr != nil)
			case "Search":
				nc, cn, serr := fc.Search(common.NodeRef{Root: allRoots[in.A], Slot: common.Slot(in.B)}, nil, nil)
				it := []string{}
				for _, r := range nc {
					it = append(it, fmt.Sprintf("n%x@%d", r.Root[:2], r.Slot))
				}
				for _, r := range cn {
					it = append(it, fmt.Sprintf("c%x@%d", r.Root[:2], r.Slot))
				}
				sort.Strings(it)
				return fmt.Sprint(it, serr != nil)
			case "Justified":
				j := fc.Justified()
				return fmt.Sprintf("%d:%x", j.Epoch, j.Root[:2])
			default:
				f := fc.Finalized()
				return fmt.Sprintf("%d:%x", f.Epoch, f.Root[:2])
			}
		}}
	// ---------------- attestation pool
	committee := common.CommitteeIndices{0, 1, 2, 3}
	mkAtt := func(rootI, epoch, bitsMask int) *phase0.Attestation {
		sel := make([]bool, 4)
		for k := 0; k < 4; k++ {
			sel[k] = bitsMask&(1<<k) != 0
		}
		return &phase0.Attestation{AggregationBits: bitsOf(sel),
			Data:      phase0.AttestationData{Slot: common.Slot(epoch * 8), BeaconBlockRoot: common.Root{byte(rootI + 1)}, Target: common.Checkpoint{Epoch: common.Epoch(epoch)}},
			Signature: common.BLSSignature{byte(rootI), byte(epoch), byte(bitsMask)}}
	}
	attC := &concComponent{name: "attpool",
		fresh: func() any { return pool.NewAttestationPool(spec) },
		gen: func(rng *rand.Rand, client, nOps int) []concIn {
			out := make([]concIn, nOps)
			for i := range out {
				switch rng.IntN(6) {
				case 0, 1, 2:
					out[i] = concIn{Op: "Add", A: rng.IntN(2), B: rng.IntN(3), C: 1 + rng.IntN(15)}
				case 3, 4:
					out[i] = concIn{Op: "Search", A: rng.IntN(3)}
				default:
					out[i] = concIn{Op: "Prune", A: rng.IntN(4)}
				}
			}
			return out
		},
		apply: func(inst any, in concIn) string {
			ap := inst.(*pool.AttestationPool)
			switch in.Op {
			case "Add":
				err := ap.AddAttestation(ctx, mkAtt(in.A, in.B, in.C), append(common.CommitteeIndices{}, committee...))
				return fmt.Sprint(err != nil)
			case "Search":
				var res []*phase0.Attestation
				if in.A == 0 {
					res = ap.Search()
				} else {
					res = ap.Search(pool.WithSlot(common.Slot((in.A - 1) * 8)))
				}
				var items []string
				hFn := tree.GetHashFn() // per call: the hash function keeps scratch state
				for _, a := range res {
					r := a.Data.HashTreeRoot(hFn)
					items = append(items, fmt.Sprintf("%x:%x:%x", r[:2], []byte(a.AggregationBits), a.Signature[:3]))
				}
				sort.Strings(items)
				return strings.Join(items, " ")
			default:
				ap.Prune(common.Epoch(in.A))
				return "-"
			}
		}}
	// ---------------- sync-committee pool
	syncC := &concComponent{name: "syncpool",
		fresh: func() any {
			sp := pool.NewSyncCommitteePool(spec)
			sp.Reset(5)
			return sp
		},
		gen: func(rng *rand.Rand, client, nOps int) []concIn {
			out := make([]concIn, nOps)
			for i := range out {
				switch rng.IntN(7) {
				case 0, 1, 2:
					out[i] = concIn{Op: "Msg", A: 3 + rng.IntN(6), B: rng.IntN(4), C: rng.IntN(200)}
				case 3, 4:
					out[i] = concIn{Op: "Contrib", A: 3 + rng.IntN(6), B: rng.IntN(3), C: rng.IntN(200)}
				case 5:
					out[i] = concIn{Op: "Reset", A: 4 + rng.IntN(4)}
					if rng.IntN(5) == 0 {
						out[i] = concIn{Op: []string{"PackAgg", "PackCon"}[rng.IntN(2)], A: 3 + rng.IntN(6), B: rng.IntN(4)}
					}
				default:
					out[i] = concIn{Op: "Snap"}
				}
			}
			return out
		},
		apply: func(inst any, in concIn) string {
			sp := inst.(*pool.SyncCommitteePool)
			switch in.Op {
			case "Msg":
				err := sp.AddSyncCommitteeMessage(ctx, &altair.SyncCommitteeMessage{Slot: common.Slot(in.A), BeaconBlockRoot: common.Root{1}, ValidatorIndex: common.ValidatorIndex(in.B), Signature: common.BLSSignature{byte(in.C)}})
				return fmt.Sprint(err != nil)
			case "Contrib":
				err := sp.AddSyncCommitteeContribution(ctx, &altair.SyncCommitteeContribution{Slot: common.Slot(in.A), BeaconBlockRoot: common.Root{1}, SubcommitteeIndex: view.Uint64View(in.B), AggregationBits: altair.SyncCommitteeSubnetBits{byte(in.C)}, Signature: common.BLSSignature{byte(in.C)}})
				return fmt.Sprint(err != nil)
			case "Reset":
				sp.Reset(common.Slot(in.A))
				return "-"
			case "PackAgg":
				agg, err := sp.PackAggregate(ctx, common.Slot(in.A), common.Root{1}, nil)
				return fmt.Sprint(agg == nil, err != nil)
			case "PackCon":
				con, err := sp.PackContribution(ctx, common.Slot(in.A), common.Root{1}, uint64(in.B), nil)
				return fmt.Sprint(con == nil, err != nil)
			default:
				snap := sp.VerifSnapshot()
				d := func(m pool.SyncCommitteeMessages, c pool.SyncCommitteeContributions) string {
					var it []string
					for vi, msg := range m {
						it = append(it, fmt.Sprintf("m%d:%d:%x", vi, msg.Slot, msg.Signature[0]))
					}
					for _, bySub := range c {
						for sub, l := range bySub {
							for _, sc := range l {
								it = append(it, fmt.Sprintf("c%d:%x", sub, sc.Signature[0]))
							}
						}
					}
					sort.Strings(it)
					return strings.Join(it, ",")
				}
				return fmt.Sprintf("%d|%s|%s|%s", snap.CurrentSlot, d(snap.PrevMsgs, snap.PrevContribs), d(snap.CurrentMsgs, snap.CurrentContribs), d(snap.NextMsgs, snap.NextContribs))
			}
		}}
	// ---------------- slashing and exit pools
	type simple struct {
		as *pool.AttesterSlashingPool
		ps *pool.ProposerSlashingPool
		ve *pool.VoluntaryExitPool
	}
	simpleC := &concComponent{name: "simplepools",
		fresh: func() any {
			return &simple{pool.NewAttesterSlashingPool(spec), pool.NewProposerSlashingPool(spec), pool.NewVoluntaryExitPool(spec)}
		},
		gen: func(rng *rand.Rand, client, nOps int) []concIn {
			out := make([]concIn, nOps)
			for i := range out {
				out[i] = concIn{Op: []string{"AddAS", "AddPS", "AddVE", "AllAS", "AllPS", "AllVE", "AddAS", "AddPS", "AddVE", "AllAS", "AllPS", "AllVE", "PackAS", "PackPS", "PackVE"}[rng.IntN(15)], A: rng.IntN(3), B: rng.IntN(100)}
			}
			return out
		},
		apply: func(inst any, in concIn) string {
			s := inst.(*simple)
			switch in.Op {
			case "AddAS":
				sl := &phase0.AttesterSlashing{}
				sl.Attestation1.AttestingIndices = common.CommitteeIndices{common.ValidatorIndex(in.A)}
				return fmt.Sprint(s.as.AddAttesterSlashing(ctx, sl) != nil)
			case "AddPS":
				sl := &phase0.ProposerSlashing{}
				sl.SignedHeader1.Message.ProposerIndex = common.ValidatorIndex(in.A)
				sl.SignedHeader1.Message.Slot = common.Slot(in.B)
				return fmt.Sprint(s.ps.AddProposerSlashing(ctx, sl) != nil)
			case "AddVE":
				ex := &phase0.SignedVoluntaryExit{Message: phase0.VoluntaryExit{ValidatorIndex: common.ValidatorIndex(in.A), Epoch: common.Epoch(in.B)}}
				return fmt.Sprint(s.ve.AddVoluntaryExit(ctx, ex) != nil)
			case "PackAS":
				return fmt.Sprint(len(s.as.Pack(func(*phase0.AttesterSlashing) int { return 1 }, 2)))
			case "PackPS":
				return fmt.Sprint(len(s.ps.Pack(func(*phase0.ProposerSlashing) int { return 1 }, 2)))
			case "PackVE":
				return fmt.Sprint(len(s.ve.Pack(func(*phase0.SignedVoluntaryExit) int { return 1 }, 2)))
			case "AllAS":
				var it []string
				for _, x := range s.as.All() {
					it = append(it, fmt.Sprint(x.Attestation1.AttestingIndices))
				}
				sort.Strings(it)
				return strings.Join(it, ",")
			case "AllPS":
				var it []string
				for _, x := range s.ps.All() {
					it = append(it, fmt.Sprintf("%d@%d", x.SignedHeader1.Message.ProposerIndex, x.SignedHeader1.Message.Slot))
				}
				sort.Strings(it)
				return strings.Join(it, ",")
			default:
				var it []string
				for _, x := range s.ve.All() {
					it = append(it, fmt.Sprintf("%d@%d", x.Message.ValidatorIndex, x.Message.Epoch))
				}
				sort.Strings(it)
				return strings.Join(it, ",")
			}
		}}
	return []*concComponent{fcC, pk, attC, syncC, simpleC}
}

func runC17(b *fw.B) {
	comps := c17Components()
	if b.Race {
		// race build: heavy unrecorded workloads
		runs := 24
		if !fw.Quick(b.Tier) {
			runs = 240
		}
		for r := 0; r < runs; r++ {
			for _, c := range comps {
				nClients := 8 + b.Rng.IntN(9)
				b.Case("race-"+c.name, fmt.Sprintf("run %d clients %d", r, nClients))
				progs := make([][]concIn, nClients)
				for i := range progs {
					progs[i] = c.gen(b.Rng, i, 60)
				}
				inst := c.fresh()
				start := make(chan struct{})
				var wg sync.WaitGroup
				for i := range progs {
					wg.Add(1)
					go func(p []concIn) {
						defer wg.Done()
						<-start
						for _, in := range p {
							func() {
								defer func() { recover() }()
								c.apply(inst, in)
							}()
						}
					}(progs[i])
				}
				close(start)
				wg.Wait()
				b.Inc("race_runs")
				b.Inc("component_" + c.name)
				b.Nontrivial("race", c.name, r, b.Batch)
			}
		}
		return
	}
	// plain build: recorded short histories, porcupine
	n := 200
	if !fw.Quick(b.Tier) {
		n = 20000
	}
	n = n / 16 * 5 / len(comps)
	if n < 3 {
		n = 3
	}
	bursts := 40
	for hI := 0; hI < n*(1+bursts) && !b.Stop(); hI++ {
		for _, c := range comps {
			nClients := 3 + b.Rng.IntN(2)
			nOps := 4 + b.Rng.IntN(3)
			burst := hI%(1+bursts) != 0
			if burst {
				// burst history: many clients, one or two calls each, released together by a spin barrier so that the
				// calls really overlap (check-then-act windows are only a few instructions wide)
				nClients = 4 + b.Rng.IntN(5)
				nOps = 1 + b.Rng.IntN(2)
			}
			progs := make([][]concIn, nClients)
			for i := range progs {
				progs[i] = c.gen(b.Rng, i, nOps)
			}
			if burst && b.Rng.IntN(2) == 0 {
				// several clients issue the very same call at once
				for i := 1; i < nClients; i += 1 + b.Rng.IntN(2) {
					progs[i][0] = progs[0][0]
				}
			}
			b.Case("history-"+c.name, fmt.Sprint(progs))
			inst := c.fresh()
			var clock atomic.Int64
			ops := make([][]porcupine.Operation, nClients)
			var ready atomic.Int32
			var wg sync.WaitGroup
			var panicked atomic.Value
			for i := range progs {
				wg.Add(1)
				go func(ci int) {
					defer wg.Done()
					ready.Add(1)
					for ready.Load() < int32(nClients) {
						runtime.Gosched()
					}
					for _, in := range progs[ci] {
						call := clock.Add(1)
						var out string
						func() {
							defer func() {
								if r := recover(); r != nil {
									out = fmt.Sprintf("panic: %v", r)
									panicked.Store(out)
								}
							}()
							out = c.apply(inst, in)
						}()
						ret := clock.Add(1)
						ops[ci] = append(ops[ci], porcupine.Operation{ClientId: ci, Input: in, Call: call, Output: out, Return: ret})
					}
				}(i)
			}
			wg.Wait() // a call that blocks forever leaves every goroutine asleep: the runtime reports the deadlock and the child dies
			b.Inc("component_" + c.name)
			if p := panicked.Load(); p != nil {
				b.Violate("panic/"+c.name, fmt.Sprintf("%s: a call panicked under concurrent use: %v", c.name, p), map[string]any{"programs": progs})
				continue
			}
			var hist []porcupine.Operation
			for _, o := range ops {
				hist = append(hist, o...)
			}
			overlap := false
			for i := range hist {
				for j := range hist {
					if hist[i].ClientId != hist[j].ClientId && hist[i].Call < hist[j].Return && hist[j].Call < hist[i].Return {
						overlap = true
					}
				}
			}
			if overlap {
				b.Inc("histories_with_overlap")
				b.Nontrivial(c.name, fmt.Sprint(progs))
			}
			res, _ := porcupine.CheckOperationsVerbose(c.model(), hist, 20*time.Second)
			b.Inc("histories_checked")
			b.CountIf(burst, "burst_histories")
			switch res {
			case porcupine.Unknown:
				b.Inc("histories_unknown_checker_timeout")
			case porcupine.Illegal:
				var lines []string
				sort.Slice(hist, func(i, j int) bool { return hist[i].Call < hist[j].Call })
				for _, o := range hist {
					lines = append(lines, fmt.Sprintf("c%d [%d,%d] %v -> %s", o.ClientId, o.Call, o.Return, o.Input, o.Output))
				}
				b.Violate("not-linearizable/"+c.name, fmt.Sprintf("%s: recorded history has no sequential order of the same calls giving the same results", c.name), map[string]any{"history": lines})
			}
			if hI == 0 && b.Batch == 0 {
				b.Sample(map[string]any{"component": c.name, "programs": fmt.Sprint(progs)})
			}
		}
	}
}
