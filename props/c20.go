package props

import (
	"context"
	"fmt"
	"reflect"

	"github.com/protolambda/zrnt/eth2/beacon/altair"
	"github.com/protolambda/zrnt/eth2/beacon/common"
	"github.com/protolambda/zrnt/eth2/beacon/phase0"
	"github.com/protolambda/zrnt/eth2/configs"
	"github.com/protolambda/zrnt/eth2/pool"
	"github.com/protolambda/ztyp/tree"
	"github.com/protolambda/ztyp/view"

	"verif/fw"
)

// C20 — operation pools keep what they are given and never panic.
// Oracle: set/map models keyed as the statement implies, replayed over the same call history.

func init() {
	fw.Register(&fw.Prop{
		ID:    "C20",
		Level: "exploration",
		Rule: "random call sequences (<=60 calls) per pool. Attestation pool: singles and aggregates over 3 committees x 6 epochs x 3 block roots in every arrival order " +
			"(single then aggregate, aggregate first, subset/superset/overlapping/disjoint bitfields, exact duplicates, conflicting votes), Search with every filter combination after each call, Prune at every epoch. " +
			"Slashing/exit pools: adds with duplicates and same-key conflicts, All() after each. Sync-committee pool: messages and contributions for slots around the current slot, before the first Reset (incl. slot 0), " +
			"Reset forward/backward/same/jump; buffers observed through the verif snapshot hook. A case is one sequence; non-trivial when it contains >=1 aggregate absorbed or appended to an existing entry, or >=1 rotation with buffered items; distinct by call-sequence hash",
		Assumptions: []string{
			"well-formed attestation = non-empty bitlist whose length equals the committee size handed to the pool",
			"must-report conflicts are limited to the unambiguous ones: single vs single with different data in one target epoch, and a first aggregate for some data all of whose participants already voted through stored aggregates for other data; mixed cases are observed, not judged",
			"an error is only acceptable when some participant has a conflicting earlier vote in the same epoch",
			"sync-committee pool before the first Reset: only panic-freedom is judged; on jumps (|delta|>1) only 'no item sits in another slot's buffer' is judged",
		},
		Batches: func(tier string) int { return 16 },
		Run:     runC20,
		Required: []string{"att_single_added", "att_aggregate_stored", "att_aggregate_absorbed", "att_exact_duplicate", "att_double_vote_reported", "att_search_items_checked", "att_pruned_items",
			"search_on_data_with_only_singles", "sync_msgs_checked", "sync_rotations_with_items", "sync_add_before_reset", "sync_select_missing_member", "slashings_all_checked", "exits_all_checked"},
	})
}

type c20Agg struct {
	bits phase0.AttestationBits
	sig  common.BLSSignature
}

type c20Data struct {
	data     phase0.AttestationData
	required []c20Agg // must be returned by Search
	accepted []c20Agg // everything added with nil result (may be returned)
	union    []bool
}

func bitsOf(sel []bool) phase0.AttestationBits {
	n := len(sel)
	out := make([]byte, n/8+1)
	for i, s := range sel {
		if s {
			out[i/8] |= 1 << uint(i%8)
		}
	}
	out[n/8] |= 1 << uint(n%8)
	return out
}

func runC20(b *fw.B) {
	n := 5000 / 16
	if !fw.Quick(b.Tier) {
		n = 300000 / 16
	}
	for i := 0; i < n && !b.Stop(); i++ {
		switch i % 4 {
		case 0, 1:
			c20AttSeq(b, i)
		case 2:
			c20SimplePools(b, i)
		case 3:
			c20Sync(b, i)
		}
	}
}

func c20AttSeq(b *fw.B, seqNo int) {
	spec := configs.Minimal
	ctx := context.Background()
	b.Case("attestation-pool", fmt.Sprintf("sequence %d", seqNo))
	ap := pool.NewAttestationPool(spec)
	hFn := tree.GetHashFn()
	// universe
	nComm := 3
	committees := make([][]common.ValidatorIndex, nComm)
	next := 0
	for c := range committees {
		sz := 3 + b.Rng.IntN(6)
		for k := 0; k < sz; k++ {
			committees[c] = append(committees[c], common.ValidatorIndex(next))
			next++
		}
	}
	// optionally share validators between committees of different epochs (same validator, different epoch)
	roots := []common.Root{{1}, {2}, {3}}
	mkData := func(epoch common.Epoch, comm int, rootI int) phase0.AttestationData {
		return phase0.AttestationData{
			Slot:            common.Slot(uint64(epoch)*uint64(spec.SLOTS_PER_EPOCH) + uint64(comm)/2), // committees 2k and 2k+1 share a slot
			Index:           common.CommitteeIndex(comm % 2),
			BeaconBlockRoot: roots[rootI],
			Source:          common.Checkpoint{Epoch: epoch.Previous(), Root: common.Root{9}},
			Target:          common.Checkpoint{Epoch: epoch, Root: common.Root{byte(10 + int(epoch))}},
		}
	}
	type vk struct {
		v common.ValidatorIndex
		e common.Epoch
	}
	datas := map[common.Root]*c20Data{}
	singles := map[vk]common.Root{}
	aggVotes := map[vk]map[common.Root]bool{}
	var trace []string
	nontrivial := false
	sigCounter := 0
	newSig := func() (s common.BLSSignature) {
		sigCounter++
		s[0] = byte(sigCounter)
		s[1] = byte(sigCounter >> 8)
		s[2] = byte(seqNo)
		s[95] = 0x55
		return
	}
	type added struct {
		att  *phase0.Attestation
		comm int
	}
	var history []added
	viol := func(sig, what string) {
		b.Violate(sig, what+" — trace: "+fmt.Sprint(trace), map[string]any{"trace": trace})
	}
	curEpoch := common.Epoch(0)
	nOps := 10 + b.Rng.IntN(50)
	var spamAtt added
	var afterSpam *added
	spamLeft := 0
	for op := 0; op < nOps; op++ {
		r := b.Rng.IntN(10)
		switch {
		case r < 7: // add
			var att *phase0.Attestation
			var comm int
			dup := false
			if spamLeft > 0 {
				// a burst of re-deliveries of one aggregate (more than any internal cap on remembered duplicates)
				att, comm = spamAtt.att, spamAtt.comm
				dup = true
				spamLeft--
				if spamLeft == 0 {
					x := spamAtt
					afterSpam = &x
				}
			} else if len(history) > 0 && b.Rng.IntN(6) == 0 {
				h := history[b.Rng.IntN(len(history))]
				att, comm = h.att, h.comm
				dup = true
				if b.Rng.IntN(4) == 0 {
					spamAtt, spamLeft = h, 10+b.Rng.IntN(4)
					nOps += spamLeft
					b.Inc("att_redelivery_bursts")
				}
			} else {
				comm = b.Rng.IntN(nComm)
				epoch := curEpoch + common.Epoch(b.Rng.IntN(3))
				if epoch > 0 && b.Rng.IntN(3) == 0 {
					epoch--
				}
				data := mkData(epoch, comm, b.Rng.IntN(len(roots)))
				if afterSpam != nil {
					// right after a burst: another aggregate for the very same data, most likely with new participants
					comm, data = afterSpam.comm, afterSpam.att.Data
					afterSpam = nil
				}
				sel := make([]bool, len(committees[comm]))
				mode := b.Rng.IntN(5)
				if mode == 0 {
					sel[b.Rng.IntN(len(sel))] = true
				} else {
					cnt := 0
					for cnt < 2 {
						for k := range sel {
							if b.Rng.IntN(2) == 0 {
								sel[k] = true
							}
						}
						cnt = 0
						for _, s := range sel {
							if s {
								cnt++
							}
						}
					}
				}
				att = &phase0.Attestation{AggregationBits: bitsOf(sel), Data: data, Signature: newSig()}
			}
			committee := append(common.CommitteeIndices{}, committees[comm]...)
			dataRoot := att.Data.HashTreeRoot(hFn)
			e := att.Data.Target.Epoch
			var parts []common.ValidatorIndex
			sel := make([]bool, len(committee))
			for k := range committee {
				if att.AggregationBits.GetBit(uint64(k)) {
					parts = append(parts, committee[k])
					sel[k] = true
				}
			}
			desc := fmt.Sprintf("Add(e=%d comm=%d root=%d bits=%v dup=%v)", e, comm, att.Data.BeaconBlockRoot[0], fmtBits(sel), dup)
			trace = append(trace, desc)
			b.LogStep("%s", desc)
			attCopy := &phase0.Attestation{AggregationBits: att.AggregationBits.Copy(), Data: att.Data, Signature: att.Signature}
			var err error
			if !b.NoPanic("attestation-pool/Add/panic", func() { err = ap.AddAttestation(ctx, att, committee) }) {
				return
			}
			if !reflect.DeepEqual(att, attCopy) {
				viol("attestation-pool/Add/mutated-input", "AddAttestation altered the attestation it was given")
				return
			}
			// conflicts known to the model
			anyConflict := false
			allAggConflict := true
			for _, v := range parts {
				k := vk{v, e}
				if r, ok := singles[k]; ok && r != dataRoot {
					anyConflict = true
				}
				has := false
				for r := range aggVotes[k] {
					if r != dataRoot {
						anyConflict = true
						has = true
					}
				}
				if aggVotes[k][dataRoot] || !has {
					allAggConflict = false
				}
			}
			md := datas[dataRoot]
			if len(parts) == 1 {
				k := vk{parts[0], e}
				prev, have := singles[k]
				switch {
				case have && prev == dataRoot:
					b.Inc("att_exact_duplicate")
					if dup && err != nil {
						viol("attestation-pool/duplicate-single-refused", fmt.Sprintf("exact duplicate single attestation returned error: %v", err))
						return
					}
				case have && prev != dataRoot:
					b.Inc("att_double_vote_reported")
					if err == nil {
						viol("attestation-pool/double-vote-not-reported", fmt.Sprintf("validator %d voted twice with different data in epoch %d and no error was returned", parts[0], e))
						return
					}
				default:
					if err != nil && !anyConflict {
						viol("attestation-pool/single-refused", fmt.Sprintf("well-formed single attestation refused without any conflicting vote: %v", err))
						return
					}
					if err == nil {
						singles[k] = dataRoot
						b.Inc("att_single_added")
					} else {
						b.Inc("att_unjudged_mixed_conflict")
					}
				}
				if md == nil {
					// the pool now knows the data but has no aggregate for it
					datas[dataRoot] = &c20Data{data: att.Data, union: make([]bool, len(committee))}
				}
			} else {
				if err != nil {
					if !anyConflict {
						viol("attestation-pool/aggregate-refused", fmt.Sprintf("well-formed aggregate refused without any conflicting vote: %v", err))
						return
					}
					b.Inc("att_aggregate_conflict_reported")
					if md == nil {
						datas[dataRoot] = &c20Data{data: att.Data, union: make([]bool, len(committee))}
					}
				} else {
					if (md == nil || len(md.accepted) == 0) && allAggConflict && len(parts) > 0 {
						viol("attestation-pool/aggregate-all-conflicting-accepted", "first aggregate for this data accepted although every participant already voted for other data this epoch through stored aggregates")
						return
					}
					if md == nil {
						md = &c20Data{data: att.Data, union: make([]bool, len(committee))}
						datas[dataRoot] = md
					}
					covered := len(md.required) > 0
					for k := range sel {
						if sel[k] && !md.union[k] {
							covered = false
						}
					}
					ag := c20Agg{bits: att.AggregationBits.Copy(), sig: att.Signature}
					if dup {
						b.Inc("att_exact_duplicate")
					}
					md.accepted = append(md.accepted, ag)
					if covered {
						b.Inc("att_aggregate_absorbed")
						nontrivial = true
					} else {
						if len(md.required) > 0 {
							nontrivial = true
						}
						md.required = append(md.required, ag)
						for k := range sel {
							if sel[k] {
								md.union[k] = true
							}
						}
						for _, v := range parts {
							k := vk{v, e}
							if aggVotes[k] == nil {
								aggVotes[k] = map[common.Root]bool{}
							}
							aggVotes[k][dataRoot] = true
						}
						b.Inc("att_aggregate_stored")
					}
				}
			}
			if !dup {
				history = append(history, added{att, comm})
			}
		case r < 9: // prune
			if b.Rng.IntN(2) == 0 {
				curEpoch++
			}
			pe := curEpoch
			if b.Rng.IntN(4) == 0 {
				pe = common.Epoch(b.Rng.IntN(8))
			}
			trace = append(trace, fmt.Sprintf("Prune(%d)", pe))
			b.LogStep("Prune(%d)", pe)
			if !b.NoPanic("attestation-pool/Prune/panic", func() { ap.Prune(pe) }) {
				return
			}
			min := pe.Previous()
			for r, d := range datas {
				if d.data.Target.Epoch < min {
					b.Count("att_pruned_items", int64(len(d.required)))
					delete(datas, r)
				}
			}
			for k := range singles {
				if k.e < min {
					delete(singles, k)
				}
			}
			for k := range aggVotes {
				if k.e < min {
					delete(aggVotes, k)
				}
			}
		default:
		}
		// Search battery after every op
		type filt struct {
			slot *common.Slot
			comm *common.CommitteeIndex
		}
		filters := []filt{{}}
		for _, d := range datas {
			s, c := d.data.Slot, d.data.Index
			filters = append(filters, filt{slot: &s}, filt{comm: &c}, filt{slot: &s, comm: &c})
			if len(filters) > 9 {
				break
			}
		}
		other := common.Slot(999)
		filters = append(filters, filt{slot: &other})
		for _, d := range datas {
			if len(d.required) == 0 {
				b.Inc("search_on_data_with_only_singles")
			}
		}
		for _, f := range filters {
			var opts []pool.AttSearchOption
			if f.slot != nil {
				opts = append(opts, pool.WithSlot(*f.slot))
			}
			if f.comm != nil {
				opts = append(opts, pool.WithCommittee(*f.comm))
			}
			var res []*phase0.Attestation
			if !b.NoPanic("attestation-pool/Search/panic", func() { res = ap.Search(opts...) }) {
				return
			}
			seen := map[string]int{}
			for _, a := range res {
				b.Inc("att_search_items_checked")
				if a == nil {
					viol("attestation-pool/Search/nil-item", "Search returned a nil attestation")
					return
				}
				if (f.slot != nil && a.Data.Slot != *f.slot) || (f.comm != nil && a.Data.Index != *f.comm) {
					viol("attestation-pool/Search/filter-mismatch", fmt.Sprintf("Search returned an attestation for slot %d committee %d that does not match the filter", a.Data.Slot, a.Data.Index))
					return
				}
				dr := a.Data.HashTreeRoot(hFn)
				md := datas[dr]
				found := false
				if md != nil {
					for _, ag := range md.accepted {
						if string(ag.bits) == string(a.AggregationBits) && ag.sig == a.Signature {
							found = true
						}
					}
				}
				if !found {
					viol("attestation-pool/Search/not-added-or-pruned", fmt.Sprintf("Search returned an aggregate (slot %d, root %d, bits %x) that was never added in this form, or was pruned", a.Data.Slot, a.Data.BeaconBlockRoot[0], []byte(a.AggregationBits)))
					return
				}
				key := string(dr[:]) + string(a.AggregationBits) + string(a.Signature[:])
				seen[key]++
				if seen[key] > 1 {
					viol("attestation-pool/exact-duplicate-stored-twice", fmt.Sprintf("Search returned the same aggregate (slot %d, root %d, bits %x) twice: an exact duplicate was not absorbed", a.Data.Slot, a.Data.BeaconBlockRoot[0], []byte(a.AggregationBits)))
					return
				}
			}
			for dr, md := range datas {
				if (f.slot != nil && md.data.Slot != *f.slot) || (f.comm != nil && md.data.Index != *f.comm) {
					continue
				}
				for _, ag := range md.required {
					key := string(dr[:]) + string(ag.bits) + string(ag.sig[:])
					if seen[key] == 0 {
						viol("attestation-pool/Search/stored-aggregate-missing", fmt.Sprintf("a stored aggregate (slot %d, root %d, bits %x) is not returned by Search before being pruned", md.data.Slot, md.data.BeaconBlockRoot[0], []byte(ag.bits)))
						return
					}
				}
			}
		}
	}
	if nontrivial {
		b.Nontrivial(fmt.Sprint(trace))
	}
	if seqNo < 2 {
		b.Sample(map[string]any{"pool": "attestations", "calls": trace})
	}
}

func fmtBits(sel []bool) string {
	s := ""
	for _, x := range sel {
		if x {
			s += "1"
		} else {
			s += "0"
		}
	}
	return s
}

func c20SimplePools(b *fw.B, seqNo int) {
	spec := configs.Minimal
	ctx := context.Background()
	b.Case("slashing-exit-pools", fmt.Sprintf("sequence %d", seqNo))
	asp := pool.NewAttesterSlashingPool(spec)
	psp := pool.NewProposerSlashingPool(spec)
	vep := pool.NewVoluntaryExitPool(spec)
	var trace []string
	viol := func(sig, what string) {
		b.Violate(sig, what+" — trace: "+fmt.Sprint(trace), map[string]any{"trace": trace})
	}
	type asEntry struct {
		p    *phase0.AttesterSlashing
		copy phase0.AttesterSlashing
	}
	type psEntry struct {
		p    *phase0.ProposerSlashing
		copy phase0.ProposerSlashing
	}
	type veEntry struct {
		p    *phase0.SignedVoluntaryExit
		copy phase0.SignedVoluntaryExit
	}
	var asStored []asEntry
	var psStored []psEntry
	var veStored []veEntry
	asByRoot := map[common.Root]bool{}
	psByKey := map[common.ValidatorIndex]bool{}
	veByKey := map[common.ValidatorIndex]bool{}
	hFn := tree.GetHashFn()
	nOps := 5 + b.Rng.IntN(40)
	dupOrConflict := false
	for op := 0; op < nOps; op++ {
		switch b.Rng.IntN(3) {
		case 0:
			mk := func() *phase0.AttesterSlashing {
				ia := func(seed int) phase0.IndexedAttestation {
					var idx []common.ValidatorIndex
					for k := 0; k < 1+b.Rng.IntN(4); k++ {
						idx = append(idx, common.ValidatorIndex(seed+k*3))
					}
					return phase0.IndexedAttestation{AttestingIndices: idx, Data: phase0.AttestationData{Slot: common.Slot(seed % 5), Target: common.Checkpoint{Epoch: common.Epoch(seed % 3)}}, Signature: common.BLSSignature{byte(seed)}}
				}
				return &phase0.AttesterSlashing{Attestation1: ia(b.Rng.IntN(6)), Attestation2: ia(b.Rng.IntN(6))}
			}
			var sl *phase0.AttesterSlashing
			if len(asStored) > 0 && b.Rng.IntN(3) == 0 {
				c := asStored[b.Rng.IntN(len(asStored))].copy
				c.Attestation1.AttestingIndices = append(common.CommitteeIndices{}, c.Attestation1.AttestingIndices...)
				sl = &c
				dupOrConflict = true
			} else {
				sl = mk()
			}
			root := sl.HashTreeRoot(spec, hFn)
			trace = append(trace, fmt.Sprintf("AddAttesterSlashing(%x)", root[:3]))
			var err error
			if !b.NoPanic("attester-slashing-pool/Add/panic", func() { err = asp.AddAttesterSlashing(ctx, sl) }) {
				return
			}
			if asByRoot[root] {
				// duplicate: nil or error are both fine, it must not be stored twice (checked below)
			} else if err != nil {
				viol("attester-slashing-pool/refused", fmt.Sprintf("new attester slashing refused: %v", err))
				return
			} else {
				asByRoot[root] = true
				cp := *sl
				cp.Attestation1.AttestingIndices = append(common.CommitteeIndices{}, sl.Attestation1.AttestingIndices...)
				cp.Attestation2.AttestingIndices = append(common.CommitteeIndices{}, sl.Attestation2.AttestingIndices...)
				asStored = append(asStored, asEntry{sl, cp})
			}
		case 1:
			key := common.ValidatorIndex(b.Rng.IntN(8))
			sl := &phase0.ProposerSlashing{}
			sl.SignedHeader1.Message.ProposerIndex = key
			sl.SignedHeader1.Message.Slot = common.Slot(b.Rng.IntN(100))
			sl.SignedHeader2.Message.ProposerIndex = key
			sl.SignedHeader2.Message.Slot = sl.SignedHeader1.Message.Slot
			sl.SignedHeader2.Message.BodyRoot = common.Root{byte(op + 1)}
			trace = append(trace, fmt.Sprintf("AddProposerSlashing(proposer=%d)", key))
			var err error
			if !b.NoPanic("proposer-slashing-pool/Add/panic", func() { err = psp.AddProposerSlashing(ctx, sl) }) {
				return
			}
			if psByKey[key] {
				dupOrConflict = true
				if err == nil {
					// a second slashing of the same proposer accepted: it must then be returned too, or replace nothing silently
					viol("proposer-slashing-pool/second-accepted", fmt.Sprintf("a second slashing for proposer %d was accepted silently; the first one can no longer be guaranteed to be returned", key))
					return
				}
			} else if err != nil {
				viol("proposer-slashing-pool/refused", fmt.Sprintf("new proposer slashing refused: %v", err))
				return
			} else {
				psByKey[key] = true
				psStored = append(psStored, psEntry{sl, *sl})
			}
		case 2:
			key := common.ValidatorIndex(b.Rng.IntN(8))
			ex := &phase0.SignedVoluntaryExit{Message: phase0.VoluntaryExit{Epoch: common.Epoch(b.Rng.IntN(5)), ValidatorIndex: key}, Signature: common.BLSSignature{byte(op + 1)}}
			trace = append(trace, fmt.Sprintf("AddVoluntaryExit(validator=%d)", key))
			var err error
			if !b.NoPanic("exit-pool/Add/panic", func() { err = vep.AddVoluntaryExit(ctx, ex) }) {
				return
			}
			if veByKey[key] {
				dupOrConflict = true
				if err == nil {
					viol("exit-pool/second-accepted", fmt.Sprintf("a second exit for validator %d was accepted silently", key))
					return
				}
			} else if err != nil {
				viol("exit-pool/refused", fmt.Sprintf("new exit refused: %v", err))
				return
			} else {
				veByKey[key] = true
				veStored = append(veStored, veEntry{ex, *ex})
			}
		}
		// All() batteries
		var asAll []*phase0.AttesterSlashing
		var psAll []*phase0.ProposerSlashing
		var veAll []*phase0.SignedVoluntaryExit
		if !b.NoPanic("pools/All/panic", func() { asAll = asp.All(); psAll = psp.All(); veAll = vep.All() }) {
			return
		}
		b.Inc("slashings_all_checked")
		b.Inc("exits_all_checked")
		if len(asAll) != len(asStored) || len(psAll) != len(psStored) || len(veAll) != len(veStored) {
			viol("pools/All/count-mismatch", fmt.Sprintf("All() returned %d/%d/%d items, %d/%d/%d were stored (attester slashings/proposer slashings/exits)", len(asAll), len(psAll), len(veAll), len(asStored), len(psStored), len(veStored)))
			return
		}
		for _, e := range asStored {
			ok := false
			for _, x := range asAll {
				if x != nil && reflect.DeepEqual(*x, e.copy) {
					ok = true
				}
			}
			if !ok {
				viol("attester-slashing-pool/All/missing-or-altered", "a stored attester slashing is missing from All() or was altered")
				return
			}
		}
		for _, e := range psStored {
			ok := false
			for _, x := range psAll {
				if x != nil && *x == e.copy {
					ok = true
				}
			}
			if !ok {
				viol("proposer-slashing-pool/All/missing-or-altered", "a stored proposer slashing is missing from All() or was altered")
				return
			}
		}
		for _, e := range veStored {
			ok := false
			for _, x := range veAll {
				if x != nil && *x == e.copy {
					ok = true
				}
			}
			if !ok {
				viol("exit-pool/All/missing-or-altered", "a stored exit is missing from All() or was altered")
				return
			}
		}
	}
	if dupOrConflict {
		b.Nontrivial(fmt.Sprint(trace))
	}
	if seqNo < 4 {
		b.Sample(map[string]any{"pool": "slashings+exits", "calls": trace})
	}
}

func c20Sync(b *fw.B, seqNo int) {
	spec := configs.Minimal
	ctx := context.Background()
	b.Case("sync-committee-pool", fmt.Sprintf("sequence %d", seqNo))
	sp := pool.NewSyncCommitteePool(spec)
	var trace []string
	viol := func(sig, what string) {
		b.Violate(sig, what+" — trace: "+fmt.Sprint(trace), map[string]any{"trace": trace})
	}
	resetDone := false
	var cur common.Slot
	// model: slot -> validator -> msg ; slot -> list of contributions
	msgs := map[common.Slot]map[common.ValidatorIndex]*altair.SyncCommitteeMessage{}
	contribs := map[common.Slot][]*altair.SyncCommitteeContribution{}
	var preMsgs []*altair.SyncCommitteeMessage
	var preContribs []*altair.SyncCommitteeContribution
	inWindow := func(s common.Slot) bool { return s+1 == cur || s == cur || s == cur+1 }
	base := common.Slot(b.Rng.IntN(3)) // small slots so that slot 0 and cur-1 underflow cases are hit
	nOps := 5 + b.Rng.IntN(40)
	nontrivial := false
	subnetBits := int(uint64(spec.SYNC_COMMITTEE_SIZE) / common.SYNC_COMMITTEE_SUBNET_COUNT)
	for op := 0; op < nOps; op++ {
		r := b.Rng.IntN(10)
		switch {
		case r < 4: // message
			slot := base + common.Slot(b.Rng.IntN(6))
			if resetDone {
				slot = cur + common.Slot(b.Rng.IntN(5)) - 2
				if cur < 2 && slot > 1<<62 {
					slot = 0
				}
			}
			m := &altair.SyncCommitteeMessage{Slot: slot, BeaconBlockRoot: common.Root{byte(1 + b.Rng.IntN(2))}, ValidatorIndex: common.ValidatorIndex(b.Rng.IntN(6)), Signature: common.BLSSignature{byte(op + 1), byte(seqNo)}}
			trace = append(trace, fmt.Sprintf("AddMsg(slot=%d,v=%d)", slot, m.ValidatorIndex))
			b.LogStep("AddMsg(slot=%d,v=%d)", slot, m.ValidatorIndex)
			var err error
			if !b.NoPanic("sync-pool/AddMessage/panic", func() { err = sp.AddSyncCommitteeMessage(ctx, m) }) {
				return
			}
			if !resetDone {
				b.Inc("sync_add_before_reset")
				if err == nil {
					preMsgs = append(preMsgs, m)
				}
				continue
			}
			if inWindow(slot) {
				if err != nil {
					viol("sync-pool/message-refused", fmt.Sprintf("message for slot %d refused while the pool is at slot %d: %v", slot, cur, err))
					return
				}
				if msgs[slot] == nil {
					msgs[slot] = map[common.ValidatorIndex]*altair.SyncCommitteeMessage{}
				}
				msgs[slot][m.ValidatorIndex] = m
			} else if err == nil {
				viol("sync-pool/message-outside-window-accepted", fmt.Sprintf("message for slot %d accepted while the pool is at slot %d", slot, cur))
				return
			}
		case r < 7: // contribution
			slot := base + common.Slot(b.Rng.IntN(6))
			if resetDone {
				slot = cur + common.Slot(b.Rng.IntN(5)) - 2
				if cur < 2 && slot > 1<<62 {
					slot = 0
				}
			}
			bits := make(altair.SyncCommitteeSubnetBits, (subnetBits+7)/8)
			bits[0] = byte(1 + b.Rng.IntN(200))
			c := &altair.SyncCommitteeContribution{Slot: slot, BeaconBlockRoot: common.Root{byte(1 + b.Rng.IntN(2))}, SubcommitteeIndex: view.Uint64View(b.Rng.IntN(4)), AggregationBits: bits, Signature: common.BLSSignature{byte(op + 1), byte(seqNo), 7}}
			trace = append(trace, fmt.Sprintf("AddContrib(slot=%d,sub=%d)", slot, c.SubcommitteeIndex))
			b.LogStep("AddContrib(slot=%d,sub=%d)", slot, c.SubcommitteeIndex)
			var err error
			if !b.NoPanic("sync-pool/AddContribution/panic", func() { err = sp.AddSyncCommitteeContribution(ctx, c) }) {
				return
			}
			if !resetDone {
				b.Inc("sync_add_before_reset")
				if err == nil {
					preContribs = append(preContribs, c)
				}
				continue
			}
			if inWindow(slot) {
				if err != nil {
					viol("sync-pool/contribution-refused", fmt.Sprintf("contribution for slot %d refused while the pool is at slot %d: %v", slot, cur, err))
					return
				}
				contribs[slot] = append(contribs[slot], c)
			} else if err == nil {
				viol("sync-pool/contribution-outside-window-accepted", fmt.Sprintf("contribution for slot %d accepted while the pool is at slot %d", slot, cur))
				return
			}
		default: // reset
			var ns common.Slot
			if !resetDone {
				ns = base + common.Slot(b.Rng.IntN(3))
			} else {
				switch b.Rng.IntN(6) {
				case 0:
					ns = cur
				case 1, 2:
					ns = cur + 1
				case 3:
					if cur > 0 {
						ns = cur - 1
					} else {
						ns = cur + 1
					}
				case 4:
					ns = cur + 2 + common.Slot(b.Rng.IntN(3))
				default:
					ns = cur + 1
				}
			}
			trace = append(trace, fmt.Sprintf("Reset(%d)", ns))
			b.LogStep("Reset(%d)", ns)
			if !b.NoPanic("sync-pool/Reset/panic", func() { sp.Reset(ns) }) {
				return
			}
			if !resetDone {
				// whatever was added before the first reset is not judged; start the model from the pool's own content
				resetDone = true
				cur = ns
				msgs = map[common.Slot]map[common.ValidatorIndex]*altair.SyncCommitteeMessage{}
				contribs = map[common.Slot][]*altair.SyncCommitteeContribution{}
				// Items accepted before the first Reset may be kept or dropped (not judged); the model adopts
				// whatever the pool kept, provided each item sits in the buffer of its own slot.
				snap := sp.VerifSnapshot()
				for _, bf := range []struct {
					slot common.Slot
					m    pool.SyncCommitteeMessages
					c    pool.SyncCommitteeContributions
				}{{cur - 1, snap.PrevMsgs, snap.PrevContribs}, {cur, snap.CurrentMsgs, snap.CurrentContribs}, {cur + 1, snap.NextMsgs, snap.NextContribs}} {
					for vi, m := range bf.m {
						known := false
						for _, pm := range preMsgs {
							if pm == m {
								known = true
							}
						}
						if !known || m.Slot != bf.slot || m.ValidatorIndex != vi {
							viol("sync-pool/message-in-wrong-buffer", fmt.Sprintf("after the first Reset(%d) the buffer of slot %d holds message %+v", cur, bf.slot, m))
							return
						}
						if msgs[bf.slot] == nil {
							msgs[bf.slot] = map[common.ValidatorIndex]*altair.SyncCommitteeMessage{}
						}
						msgs[bf.slot][vi] = m
					}
					for root, bySub := range bf.c {
						for sub, list := range bySub {
							for _, sc := range list {
								var src *altair.SyncCommitteeContribution
								for _, pc := range preContribs {
									if pc.Signature == sc.Signature {
										src = pc
									}
								}
								if src == nil || src.Slot != bf.slot || src.BeaconBlockRoot != root || uint64(src.SubcommitteeIndex) != sub {
									viol("sync-pool/contribution-in-wrong-buffer", fmt.Sprintf("after the first Reset(%d) the buffer of slot %d holds a contribution that was not added for that slot/root/subnet", cur, bf.slot))
									return
								}
								contribs[bf.slot] = append(contribs[bf.slot], src)
							}
						}
					}
				}
				continue
			}
			delta := int64(ns) - int64(cur)
			old := cur
			cur = ns
			items := 0
			for s := range msgs {
				if !inWindow(s) || delta > 1 || delta < -1 {
					delete(msgs, s)
				} else {
					items += len(msgs[s])
				}
			}
			for s := range contribs {
				if !inWindow(s) || delta > 1 || delta < -1 {
					delete(contribs, s)
				} else {
					items += len(contribs[s])
				}
			}
			if (delta == 1 || delta == -1) && items > 0 {
				b.Inc("sync_rotations_with_items")
				nontrivial = true
			}
			_ = old
		}
		if !resetDone {
			continue
		}
		// compare buffers with the model through the snapshot hook
		var snap pool.VerifSyncSnapshot
		if !b.NoPanic("sync-pool/snapshot/panic", func() { snap = sp.VerifSnapshot() }) {
			return
		}
		if snap.CurrentSlot != cur {
			viol("sync-pool/current-slot", fmt.Sprintf("pool reports current slot %d, expected %d", snap.CurrentSlot, cur))
			return
		}
		type buf struct {
			slot common.Slot
			m    pool.SyncCommitteeMessages
			c    pool.SyncCommitteeContributions
			ok   bool
		}
		bufs := []buf{{cur - 1, snap.PrevMsgs, snap.PrevContribs, cur > 0}, {cur, snap.CurrentMsgs, snap.CurrentContribs, true}, {cur + 1, snap.NextMsgs, snap.NextContribs, true}}
		for _, bf := range bufs {
			for vi, m := range bf.m {
				b.Inc("sync_msgs_checked")
				if m == nil || m.Slot != bf.slot || m.ValidatorIndex != vi {
					viol("sync-pool/message-in-wrong-buffer", fmt.Sprintf("buffer of slot %d holds a message of slot %v / validator key mismatch", bf.slot, m))
					return
				}
				if want := msgs[bf.slot][vi]; want != m {
					viol("sync-pool/message-not-the-one-added", fmt.Sprintf("buffer of slot %d validator %d holds a message that is not the last one added for it", bf.slot, vi))
					return
				}
			}
			if !bf.ok {
				continue
			}
			for vi := range msgs[bf.slot] {
				if bf.m[vi] == nil {
					viol("sync-pool/message-lost", fmt.Sprintf("message of validator %d for slot %d (pool at slot %d) was accepted but is no longer buffered", vi, bf.slot, cur))
					return
				}
			}
			cnt := 0
			for root, bySub := range bf.c {
				for sub, list := range bySub {
					for _, sc := range list {
						cnt++
						found := false
						for _, c := range contribs[bf.slot] {
							if c.BeaconBlockRoot == root && uint64(c.SubcommitteeIndex) == sub && c.Signature == sc.Signature && string(c.AggregationBits) == string(sc.AggregationBits) {
								found = true
							}
						}
						if !found {
							viol("sync-pool/contribution-in-wrong-buffer", fmt.Sprintf("buffer of slot %d holds a contribution that was not added for that slot/root/subnet", bf.slot))
							return
						}
					}
				}
			}
			if cnt != len(contribs[bf.slot]) {
				viol("sync-pool/contribution-lost", fmt.Sprintf("slot %d: %d contributions buffered, %d were accepted (pool at slot %d)", bf.slot, cnt, len(contribs[bf.slot]), cur))
				return
			}
		}
		// Select: every returned message was added, matches the root, and members without a message are tolerated
		members := []common.ValidatorIndex{0, 1, 2, 3, 4, 5, 6, 7}
		for _, bf := range bufs {
			if bf.m == nil {
				continue
			}
			for _, root := range []common.Root{{1}, {2}} {
				var sel []*altair.SyncCommitteeMessage
				missing := false
				for _, vi := range members {
					if bf.m[vi] == nil {
						missing = true
					}
				}
				if missing {
					b.Inc("sync_select_missing_member")
				}
				if !b.NoPanic("sync-pool/Select/panic", func() { sel = bf.m.Select(root, members) }) {
					return
				}
				want := 0
				for _, vi := range members {
					if m := msgs[bf.slot][vi]; m != nil && m.BeaconBlockRoot == root {
						want++
					}
				}
				for _, m := range sel {
					if m == nil || m.BeaconBlockRoot != root || msgs[bf.slot][m.ValidatorIndex] != m {
						viol("sync-pool/Select/wrong-item", "Select returned a message that was not added for this slot or does not match the root")
						return
					}
				}
				if bf.ok && len(sel) != want {
					viol("sync-pool/Select/count", fmt.Sprintf("Select returned %d messages, %d stored messages match", len(sel), want))
					return
				}
			}
		}
	}
	if nontrivial {
		b.Nontrivial(fmt.Sprint(trace))
	}
	if seqNo < 8 {
		b.Sample(map[string]any{"pool": "sync-committee", "calls": trace})
	}
}
