package props

import (
	"context"
	"fmt"
	"reflect"
	"sort"
	"strings"
	"time"
	"verif/refssz"

	"github.com/protolambda/zrnt/eth2/beacon"
	"github.com/protolambda/zrnt/eth2/beacon/common"

	"verif/fw"
	"verif/refspec"
	"verif/sim"
)

// compareAssignments checks every assignment a context reports against the reference spec functions on the reference state.
func compareAssignments(b *fw.B, viol func(sig, what string), zspec *common.Spec, sp *refspec.Spec, st *refspec.State, zst common.BeaconState, epc *common.EpochsContext, where string) bool {
	cur := sp.CurrentEpoch(st)
	epochs := []uint64{cur, cur + 1}
	if cur > 0 {
		epochs = append(epochs, cur-1)
	}
	for _, e := range epochs {
		active := sp.ActiveIndices(st, e)
		if len(active) == 0 {
			continue
		}
		wantCount := sp.CommitteeCountPerSlot(st, e)
		gotCount, err := epc.GetCommitteeCountPerSlot(common.Epoch(e))
		if err != nil || gotCount != wantCount {
			viol("committee-count/wrong", fmt.Sprintf("%s: epoch %d committees per slot %d (err %v), spec says %d (active %d)", where, e, gotCount, err, wantCount, len(active)))
			return false
		}
		b.CountIf(wantCount == 1, "committee_count_1")
		b.CountIf(wantCount == sp.MAX_COMMITTEES_PER_SLOT, "committee_count_max")
		b.CountIf(wantCount > 1 && wantCount < sp.MAX_COMMITTEES_PER_SLOT, "committee_count_between")
		seen := map[uint64]int{}
		for s := sp.StartSlot(e); s < sp.StartSlot(e+1); s++ {
			for ci := uint64(0); ci < wantCount; ci++ {
				want := sp.BeaconCommittee(st, s, ci)
				got, err := epc.GetBeaconCommittee(common.Slot(s), common.CommitteeIndex(ci))
				if err != nil {
					viol("committee/error", fmt.Sprintf("%s: GetBeaconCommittee(slot %d, index %d): %v", where, s, ci, err))
					return false
				}
				if len(got) != len(want) {
					viol("committee/size", fmt.Sprintf("%s: committee (slot %d, index %d) has %d members, spec says %d", where, s, ci, len(got), len(want)))
					return false
				}
				for k := range want {
					if uint64(got[k]) != want[k] {
						viol("committee/member", fmt.Sprintf("%s: committee (slot %d, index %d) member %d is validator %d, spec says %d", where, s, ci, k, got[k], want[k]))
						return false
					}
					seen[want[k]]++
				}
				b.Inc("committees_compared")
			}
			// index beyond the count must be refused
			if _, err := epc.GetBeaconCommittee(common.Slot(s), common.CommitteeIndex(wantCount)); err == nil {
				viol("committee/index-beyond-count", fmt.Sprintf("%s: GetBeaconCommittee(slot %d, index %d) succeeds but the epoch has %d committees per slot", where, s, wantCount, wantCount))
				return false
			}
		}
		// partition of the active set
		if len(seen) != len(active) {
			viol("committee/partition", fmt.Sprintf("%s: epoch %d committees cover %d validators, active set has %d", where, e, len(seen), len(active)))
			return false
		}
		for _, a := range active {
			if seen[a] != 1 {
				viol("committee/partition", fmt.Sprintf("%s: epoch %d active validator %d sits in %d committees", where, e, a, seen[a]))
				return false
			}
		}
	}
	// proposers of every slot of the current epoch
	for s := sp.StartSlot(cur); s < sp.StartSlot(cur+1); s++ {
		want, err := sp.ProposerIndexAtSlot(st, s)
		if err != nil {
			break
		}
		got, gerr := epc.GetBeaconProposer(common.Slot(s))
		if gerr != nil || uint64(got) != want {
			viol("proposer/wrong", fmt.Sprintf("%s: proposer of slot %d is %d (err %v), spec says %d", where, s, got, gerr, want))
			return false
		}
		b.Inc("proposers_compared")
	}
	// sync committees
	if st.Fork >= refspec.Altair {
		for which, sc := range []refspec.SyncCommittee{st.CurrentSyncCommittee, st.NextSyncCommittee} {
			isc := epc.CurrentSyncCommittee
			name := "current"
			if which == 1 {
				isc = epc.NextSyncCommittee
				name = "next"
			}
			if isc == nil {
				viol("sync-committee/missing", fmt.Sprintf("%s: context has no %s sync committee for an altair+ state", where, name))
				return false
			}
			if len(isc.Indices) != len(sc.Pubkeys) {
				viol("sync-committee/size", fmt.Sprintf("%s: %s sync committee has %d indices", where, name, len(isc.Indices)))
				return false
			}
			dup := map[common.ValidatorIndex]bool{}
			for i, pk := range sc.Pubkeys {
				idx := isc.Indices[i]
				if uint64(idx) >= uint64(len(st.Validators)) || st.Validators[idx].Pubkey != pk || isc.CachedPubkeys[i].Compressed != common.BLSPubkey(pk) {
					viol("sync-committee/member", fmt.Sprintf("%s: %s sync committee position %d is validator %d, whose key is not the state's committee key", where, name, i, idx))
					return false
				}
				if dup[idx] {
					b.Inc("sync_duplicate_members_seen")
				}
				dup[idx] = true
			}
			b.Inc("sync_committees_compared")
		}
		// the next committee the library would compute from this state
		want, werr := sp.NextSyncCommittee(st)
		got, gerr := common.ComputeNextSyncCommittee(zspec, epc, sim.Unwrap(zst))
		if (werr != nil) != (gerr != nil) {
			viol("next-sync-committee/error", fmt.Sprintf("%s: ComputeNextSyncCommittee err=%v, spec err=%v", where, gerr, werr))
			return false
		}
		if werr == nil {
			ok := len(got.Pubkeys) == len(want.Pubkeys) && [48]byte(got.AggregatePubkey) == want.AggregatePubkey
			for i := 0; ok && i < len(want.Pubkeys); i++ {
				ok = [48]byte(got.Pubkeys[i]) == want.Pubkeys[i]
			}
			if !ok {
				viol("next-sync-committee/wrong", fmt.Sprintf("%s: ComputeNextSyncCommittee differs from get_next_sync_committee(state)", where))
				return false
			}
			b.Inc("next_sync_committee_compared")
		}
	}
	return true
}

// epcFingerprint lists the comparable content of a context.
func epcDiff(live, fresh *common.EpochsContext, nValsAtEpochStart int) string {
	cmpShuf := func(name string, a, f *common.ShufflingEpoch) string {
		if a == nil || f == nil {
			if a != f {
				return name + " nil mismatch"
			}
			return ""
		}
		if a.Epoch != f.Epoch {
			return fmt.Sprintf("%s.Epoch %d != %d", name, a.Epoch, f.Epoch)
		}
		if !reflect.DeepEqual(a.ActiveIndices, f.ActiveIndices) && (len(a.ActiveIndices) != 0 || len(f.ActiveIndices) != 0) {
			return name + ".ActiveIndices differ"
		}
		if !reflect.DeepEqual(a.Shuffling, f.Shuffling) && (len(a.Shuffling) != 0 || len(f.Shuffling) != 0) {
			return name + ".Shuffling differs"
		}
		if len(a.Committees) != len(f.Committees) {
			return name + ".Committees slots differ"
		}
		for s := range a.Committees {
			if len(a.Committees[s]) != len(f.Committees[s]) {
				return fmt.Sprintf("%s.Committees[%d] count differs", name, s)
			}
			for c := range a.Committees[s] {
				if len(a.Committees[s][c]) != len(f.Committees[s][c]) {
					return fmt.Sprintf("%s.Committees[%d][%d] size differs", name, s, c)
				}
				for k := range a.Committees[s][c] {
					if a.Committees[s][c][k] != f.Committees[s][c][k] {
						return fmt.Sprintf("%s.Committees[%d][%d][%d] %d != %d", name, s, c, k, a.Committees[s][c][k], f.Committees[s][c][k])
					}
				}
			}
		}
		return ""
	}
	if d := cmpShuf("PreviousEpoch", live.PreviousEpoch, fresh.PreviousEpoch); d != "" {
		return d
	}
	if d := cmpShuf("CurrentEpoch", live.CurrentEpoch, fresh.CurrentEpoch); d != "" {
		return d
	}
	if d := cmpShuf("NextEpoch", live.NextEpoch, fresh.NextEpoch); d != "" {
		return d
	}
	if live.Proposers == nil || fresh.Proposers == nil {
		if live.Proposers != fresh.Proposers {
			return "Proposers nil mismatch"
		}
	} else if live.Proposers.Epoch != fresh.Proposers.Epoch || !reflect.DeepEqual(live.Proposers.Proposers, fresh.Proposers.Proposers) {
		return fmt.Sprintf("Proposers differ: epoch %d %v vs epoch %d %v", live.Proposers.Epoch, live.Proposers.Proposers, fresh.Proposers.Epoch, fresh.Proposers.Proposers)
	}
	if live.TotalActiveStake != fresh.TotalActiveStake {
		return fmt.Sprintf("TotalActiveStake %d != %d", live.TotalActiveStake, fresh.TotalActiveStake)
	}
	if live.TotalActiveStakeSqRoot != fresh.TotalActiveStakeSqRoot {
		return fmt.Sprintf("TotalActiveStakeSqRoot %d != %d", live.TotalActiveStakeSqRoot, fresh.TotalActiveStakeSqRoot)
	}
	n := len(live.EffectiveBalances)
	if len(fresh.EffectiveBalances) < n {
		return fmt.Sprintf("EffectiveBalances: live has %d, from scratch %d", n, len(fresh.EffectiveBalances))
	}
	for i := 0; i < n; i++ {
		if live.EffectiveBalances[i] != fresh.EffectiveBalances[i] {
			return fmt.Sprintf("EffectiveBalances[%d] %d != %d", i, live.EffectiveBalances[i], fresh.EffectiveBalances[i])
		}
	}
	if n < nValsAtEpochStart {
		return fmt.Sprintf("EffectiveBalances: live has %d entries, the registry had %d validators at the start of the epoch", n, nValsAtEpochStart)
	}
	cmpSync := func(name string, a, f *common.IndexedSyncCommittee) string {
		if a == nil || f == nil {
			if (a == nil) != (f == nil) {
				return name + " nil mismatch"
			}
			return ""
		}
		if !reflect.DeepEqual(a.Indices, f.Indices) {
			return name + ".Indices differ"
		}
		if len(a.CachedPubkeys) != len(f.CachedPubkeys) {
			return name + ".CachedPubkeys length differs"
		}
		for i := range a.CachedPubkeys {
			if a.CachedPubkeys[i].Compressed != f.CachedPubkeys[i].Compressed {
				return fmt.Sprintf("%s.CachedPubkeys[%d] differs", name, i)
			}
		}
		return ""
	}
	if d := cmpSync("CurrentSyncCommittee", live.CurrentSyncCommittee, fresh.CurrentSyncCommittee); d != "" {
		return d
	}
	if d := cmpSync("NextSyncCommittee", live.NextSyncCommittee, fresh.NextSyncCommittee); d != "" {
		return d
	}
	return ""
}

func pubkeyLookupsDiff(epc *common.EpochsContext, st *refspec.State) string {
	for i := range st.Validators {
		pk := common.BLSPubkey(st.Validators[i].Pubkey)
		cp, ok := epc.ValidatorPubkeyCache.Pubkey(common.ValidatorIndex(i))
		if !ok || cp.Compressed != pk {
			return fmt.Sprintf("pubkey cache: Pubkey(%d) ok=%v does not give the validator's key", i, ok)
		}
		idx, ok := epc.ValidatorPubkeyCache.ValidatorIndex(pk)
		if !ok || int(idx) != i {
			return fmt.Sprintf("pubkey cache: ValidatorIndex(key of validator %d) = %d, %v", i, idx, ok)
		}
	}
	return ""
}

func init() {
	fw.Register(&fw.Prop{
		ID:    "C07",
		Level: "exploration",
		Rule: "(a) every epoch of simulator chains and (b) synthetic registries built as reference states and loaded from bytes: active-set sizes swept through every committees-per-slot boundary (minimal 0..300 step-wise, custom preset, mainnet around k*32*128), random activation/exit/slashed patterns, " +
			"effective balances from {0,1,16,31,32 ETH} so the balance-weighted rejection loops reject, random randao mixes; from a fresh context: every committee of previous/current/next epoch, committee counts, the proposer of every slot of the current epoch, " +
			"current/next sync-committee indices and ComputeNextSyncCommittee compared with the spec functions (naive per-index shuffling); committees checked to partition the active set. A case is one state; non-trivial when it has >=2 committees per epoch; distinct by state root",
		Assumptions:  chainAssume,
		Batches:      func(tier string) int { return 16 },
		ChildTimeout: func(string) time.Duration { return 40 * time.Minute },
		Run:          runC07,
		Required:     []string{"committees_compared", "proposers_compared", "sync_committees_compared", "next_sync_committee_compared", "committee_count_1", "committee_count_max", "committee_count_between", "synthetic_states", "chain_states", "proposer_candidates_rejected", "sync_duplicate_members_seen", "synthetic_twin_states"},
	})
	fw.Register(&fw.Prop{
		ID:    "C08",
		Level: "exploration",
		Rule: "simulator chains (incl. deposits mid-epoch, fork upgrades, sync-committee period boundaries, and 'forky' sibling chains that share one pubkey cache and include deposits in different order); after every slot and block the long-lived context is compared field by field " +
			"(three shufflings, proposers, effective balances, total stake and its root, both sync committees, pubkey<->index look-ups for every validator) with NewEpochsContext on the same state; every 3rd block a shadow lineage is reloaded from the serialized state with a fresh context and must produce the same result for the next block. " +
			"A case is one chain; non-trivial when >=1 epoch boundary and >=1 reload were compared; distinct by scenario",
		Assumptions:  append(append([]string{}, chainAssume...), "validators appended by deposits during the current epoch may be missing from the live per-epoch vectors (they cannot have duties): only the prefix that existed at the epoch start is compared (benign suffix)"),
		Batches:      func(tier string) int { return 16 },
		ChildTimeout: func(string) time.Duration { return 40 * time.Minute },
		Run:          runC08,
		Required:     []string{"context_comparisons", "context_comparisons_after_epoch_boundary", "context_comparisons_after_upgrade", "context_comparisons_with_deposit_in_epoch", "reload_lineages_compared", "pubkey_lookups_compared", "sync_period_boundaries_seen", "forky_sibling_deposits", "epochs_whose_proposers_depend_on_the_effective_balances_changed_at_their_boundary"},
	})
}

func runC07(b *fw.B) {
	quick := fw.Quick(b.Tier)
	// (a) chain states
	nChains := 1
	if !quick {
		nChains = 6
	}
	fams := []string{"ragged", "shock", "capella", "custom", "churn", "shock", "steady", "leak"}
	for k := 0; k < nChains && !b.Stop(); k++ {
		if quick && b.Batch%2 == 1 {
			break
		}
		sc := drawScenario(b.Rng, fams[(b.Batch/2+k)%len(fams)], quick, k%2 == 0)
		sc.StepEvery = false
		if quick {
			sc.Epochs = min(sc.Epochs, 9)
		}
		b.Case("chain", sc.String())
		// a clone of the context, taken at some step and left behind: after the original has crossed an epoch boundary (rotating its
		// shufflings), the clone must still answer for the state it was taken at
		var snapEpc *common.EpochsContext
		var snapRef *refspec.State
		var snapZ common.BeaconState
		var snapWhere string
		var chain *sim.Chain
		hooks := chainHooks{afterStep: func(c *sim.Chain, where string, isBlock bool, built *sim.Built) bool {
			chain = c
			if snapEpc != nil && c.Sp.CurrentEpoch(c.Ref) > c.Sp.CurrentEpoch(snapRef) {
				b.Inc("clones_left_behind_compared_after_the_original_crossed_an_epoch_boundary")
				ok := compareAssignments(b, func(sig, what string) {
					b.Violate("clone-left-behind/"+sig, "(clone of the context taken at "+snapWhere+", judged after the original moved on to "+where+") "+what+" — scenario "+sc.String(), map[string]any{"scenario": sc.String()})
				}, c.ZSpec, c.Sp, snapRef, snapZ, snapEpc, snapWhere)
				snapEpc = nil
				if !ok {
					return false
				}
			}
			if snapEpc == nil && b.Rng.IntN(3) == 0 {
				if cp, err := c.Z.BeaconState.CopyState(); err == nil {
					snapEpc, snapRef, snapZ, snapWhere = c.Epc.Clone(), c.Ref.Copy(), cp, where
				}
			}
			if c.Ref.Slot%c.Sp.SLOTS_PER_EPOCH > 1 && b.Rng.IntN(4) != 0 {
				return true
			}
			epc, err := common.NewEpochsContext(c.ZSpec, c.Z.BeaconState)
			if err != nil {
				b.Violate("fresh-context/error", fmt.Sprintf("NewEpochsContext failed on a chain state at %s: %v", where, err), nil)
				return false
			}
			b.Inc("chain_states")
			root := c.Sp.S.StateRoot(c.Ref)
			b.Nontrivial(root[:])
			if !compareAssignments(b, func(sig, what string) {
				b.Violate(sig, what+" — scenario "+sc.String(), map[string]any{"scenario": sc.String()})
			}, c.ZSpec, c.Sp, c.Ref, c.Z, epc, where) {
				return false
			}
			// the context that accompanied the state along the chain reports assignments too
			b.Inc("chain_states_long_lived_context")
			return compareAssignments(b, func(sig, what string) {
				b.Violate("long-lived-context/"+sig, "(context carried along the chain) "+what+" — scenario "+sc.String(), map[string]any{"scenario": sc.String()})
			}, c.ZSpec, c.Sp, c.Ref, c.Z, c.Epc, where)
		}}
		runChain(b, sc, hooks, func(m *sim.Mismatch, trace []string) {
			if m.Kind != "harness" && m.Kind != "genesis" {
				// a transition mismatch is C01/C02's business, except where the state's own sync committees are what differs:
				// their members "are exactly those the specification computes"
				diff := m.Diff
				if chain != nil && m.Kind == "state-mismatch" {
					if zb, err := sim.ZrntStateBytes(chain.Z); err == nil && sim.ZrntFork(chain.Z) == chain.Ref.Fork {
						diff = refssz.DiffBytes(chain.Sp.S.State[chain.Ref.Fork], chain.Sp.S.StateBytes(chain.Ref), zb, 1<<20)
					}
				}
				for _, d := range diff {
					if cl := diffPathClass(d); strings.HasPrefix(cl, "current_sync_committee") || strings.HasPrefix(cl, "next_sync_committee") {
						b.Violate("state/"+strings.SplitN(cl, ".", 2)[0]+"-differs-from-the-specs", fmt.Sprintf("%s: %s — scenario %s", m.What, d, sc.String()), map[string]any{"scenario": sc.String(), "diff": m.Diff})
						return
					}
				}
				b.Inc("chain_stopped_by_transition_mismatch_not_judged_here")
			}
		})
	}
	// (b) synthetic registries
	n := 400 / 16
	if !quick {
		n = 6000 / 16
	}
	for i := 0; i < n && !b.Stop(); i++ {
		c07Synthetic(b, i, n)
	}
}

func c07Synthetic(b *fw.B, i, n int) {
	rng := b.Rng
	sc := scenario{Preset: "minimal", ForkEpochs: [4]uint64{ff, ff, ff, ff}}
	kind := rng.IntN(10)
	var size int
	switch {
	case kind < 6: // sweep through the minimal-preset committee boundaries: count = active/8/4, max 4
		size = (b.Batch*n+i)*300/(16*n) + rng.IntN(3)
	case kind < 8:
		sc.Preset = "custom" // max 2 committees, target 3
		size = 8 + rng.IntN(120)
	default:
		sc.Preset = "mainnet" // boundaries at k*32*128
		k := 1 + rng.IntN(3)
		size = k*32*128 + rng.IntN(5) - 2
		if fw.Quick(b.Tier) && rng.IntN(4) != 0 {
			sc.Preset = "minimal"
			size = 100 + rng.IntN(200)
		}
	}
	fork := rng.IntN(5)
	zspec := specFor(sc)
	p := refspec.FromSpec(zspec)
	sp := refspec.NewSpec(p)
	st := sp.EmptyState()
	st.Fork = fork
	epoch := uint64(2 + rng.IntN(20))
	st.Slot = epoch*p.SLOTS_PER_EPOCH + uint64(rng.IntN(int(p.SLOTS_PER_EPOCH)))
	st.GenesisValidatorsRoot = refspec.Root{9}
	st.ForkData = refspec.Fork{PreviousVersion: p.ForkVersions[0], CurrentVersion: p.ForkVersions[fork], Epoch: 0}
	for k := range st.RandaoMixes {
		for j := 0; j < 32; j += 8 {
			x := rng.Uint64()
			for q := 0; q < 8; q++ {
				st.RandaoMixes[k][j+q] = byte(x >> (8 * q))
			}
		}
	}
	keys := sim.GetKeys()
	total := size + rng.IntN(size/4+2)
	effs := []uint64{0, 1, 16, 31, 32, 32, 32}
	mostlyLow := rng.IntN(3) == 0
	for v := 0; v < total; v++ {
		var pk [48]byte
		copy(pk[:], keys.PK[v%sim.MaxKeys][:])
		if v >= sim.MaxKeys {
			pk[47] ^= byte(v / sim.MaxKeys) // distinct keys; only used as identifiers for large registries (not decompressed unless in a sync committee)
		}
		val := refspec.Validator{Pubkey: pk, ActivationEligibilityEpoch: 0, ActivationEpoch: 0, ExitEpoch: refspec.FarFuture, WithdrawableEpoch: refspec.FarFuture}
		e := effs[rng.IntN(len(effs))]
		if mostlyLow && rng.IntN(8) != 0 {
			e = effs[rng.IntN(3)]
		}
		val.EffectiveBalance = e * p.EFFECTIVE_BALANCE_INCREMENT
		if v >= size { // inactive in some way
			switch rng.IntN(3) {
			case 0:
				val.ActivationEpoch = epoch + 1 + uint64(rng.IntN(3)) // activates soon
			case 1:
				val.ExitEpoch = epoch - uint64(rng.IntN(2)) // exited
			default:
				val.ActivationEpoch = refspec.FarFuture
			}
		} else if rng.IntN(12) == 0 {
			val.ExitEpoch = epoch + 1 + uint64(rng.IntN(2)) // exits next epoch: active set differs between epochs
		} else if rng.IntN(12) == 0 {
			val.ActivationEpoch = epoch - uint64(rng.IntN(2)) // activated recently
		}
		val.Slashed = rng.IntN(20) == 0
		st.Validators = append(st.Validators, val)
		st.Balances = append(st.Balances, val.EffectiveBalance)
	}
	if fork >= refspec.Altair {
		st.PreviousEpochParticipation = make([]uint8, total)
		st.CurrentEpochParticipation = make([]uint8, total)
		st.InactivityScores = make([]uint64, total)
		if total > sim.MaxKeys || len(sp.ActiveIndices(st, epoch+1)) == 0 {
			st.Fork = refspec.Phase0 // sync committees need decompressible, registered keys
			fork = refspec.Phase0
			st.ForkData.CurrentVersion = p.ForkVersions[0]
		} else {
			scm, err := sp.NextSyncCommittee(st)
			if err != nil {
				return
			}
			st.CurrentSyncCommittee, st.NextSyncCommittee = scm, scm
		}
	}
	if fork >= refspec.Bellatrix {
		st.LatestExecutionPayloadHeader = refspec.ExecutionPayloadHeader{LogsBloom: make([]byte, p.BYTES_PER_LOGS_BLOOM), ExtraData: []byte{}}
	}
	if !c07Judge(b, zspec, sp, st, sc.Preset, fork, epoch, i == 0 && b.Batch == 0, "") || rng.IntN(2) == 0 {
		return
	}
	// a twin in the same process: same randao mixes, same registry length and slot, but other validators active and other effective
	// balances; anything remembered from the first state under too weak a key (seed, registry size) would answer for the twin
	tw := st.Copy()
	changed := 0
	for k := 0; k < 1+len(tw.Validators)/16; k++ {
		v := &tw.Validators[rng.IntN(len(tw.Validators))]
		switch rng.IntN(3) {
		case 0:
			if refspec.IsActive(v, epoch) {
				v.ExitEpoch = epoch - 1
			} else {
				v.ActivationEpoch, v.ExitEpoch = 0, refspec.FarFuture
			}
		case 1:
			if v.ExitEpoch == refspec.FarFuture {
				v.ExitEpoch = epoch + uint64(rng.IntN(2))
			} else {
				v.ExitEpoch = refspec.FarFuture
			}
		default:
			v.EffectiveBalance = effs[rng.IntN(len(effs))] * p.EFFECTIVE_BALANCE_INCREMENT
		}
		changed++
	}
	if fork >= refspec.Altair {
		if len(sp.ActiveIndices(tw, epoch+1)) == 0 {
			return
		}
		scm, err := sp.NextSyncCommittee(tw)
		if err != nil {
			return
		}
		tw.CurrentSyncCommittee, tw.NextSyncCommittee = scm, scm
	}
	if c07Judge(b, zspec, sp, tw, sc.Preset, fork, epoch, false, "twin of the previous state (same randao mixes and registry length, other active set) — ") {
		b.Inc("synthetic_twin_states")
	}
}

// c07Judge loads a reference state into zrnt and compares all assignments of a fresh context with the spec's.
func c07Judge(b *fw.B, zspec *common.Spec, sp *refspec.Spec, st *refspec.State, preset string, fork int, epoch uint64, sample bool, label string) bool {
	p := sp.P
	total := len(st.Validators)
	active := sp.ActiveIndices(st, epoch)
	b.Case("synthetic", fmt.Sprintf("%s%s fork=%s validators=%d active=%d epoch=%d", label, preset, refspec.ForkNames[fork], total, len(active), epoch))
	data := sp.S.StateBytes(st)
	zst, err := sim.LoadZrntState(zspec, fork, data)
	if err != nil {
		b.Violate("synthetic/decode", fmt.Sprintf("zrnt cannot decode a synthetic state: %v", err), nil)
		return false
	}
	var epc *common.EpochsContext
	if !b.NoPanic("fresh-context/panic", func() { epc, err = common.NewEpochsContext(zspec, zst) }) {
		return false
	}
	if len(active) == 0 || len(sp.ActiveIndices(st, epoch+1)) == 0 || (epoch > 0 && len(sp.ActiveIndices(st, epoch-1)) == 0) {
		b.Inc("synthetic_states_without_active_validators_not_judged")
		return false
	}
	if err != nil {
		b.Violate("fresh-context/error", fmt.Sprintf("NewEpochsContext failed on a synthetic state (%d active): %v", len(active), err), nil)
		return false
	}
	b.Inc("synthetic_states")
	// did the proposer sampling have to reject candidates? (observability of the rejection loop)
	low := 0
	for _, a := range active {
		if st.Validators[a].EffectiveBalance < p.MAX_EFFECTIVE_BALANCE {
			low++
		}
	}
	if low*2 > len(active) {
		b.Inc("proposer_candidates_rejected")
	}
	if sp.CommitteeCountPerSlot(st, epoch) >= 2 {
		root := sp.S.StateRoot(st)
		b.Nontrivial(root[:])
	}
	if sample {
		b.Sample(map[string]any{"synthetic_state": fmt.Sprintf("%s fork=%s validators=%d active=%d epoch=%d", preset, refspec.ForkNames[fork], total, len(active), epoch)})
	}
	return compareAssignments(b, func(sig, what string) {
		b.Violate(sig, what, map[string]any{"state_ssz_hex_prefix": fmt.Sprintf("%x", data[:min(len(data), 400)])})
	}, zspec, sp, st, zst, epc, fmt.Sprintf("%ssynthetic %s state (%d validators, %d active, epoch %d)", label, preset, total, len(active), epoch))
}

func runC08(b *fw.B) {
	quick := fw.Quick(b.Tier)
	ctx := context.Background()
	n := 1
	if !quick {
		n = 12
	}
	// massslash: effective balances of active validators drop to (almost) nothing at epoch boundaries, so the proposers of the new
	// epoch depend on the effective balances as they are AFTER the boundary
	fams := []string{"churn", "custom", "capella", "shock", "massslash", "ragged", "shock", "leak"}
	for k := 0; k < n && !b.Stop(); k++ {
		fam := fams[(b.Batch+k)%len(fams)]
		sc := drawScenario(b.Rng, fam, quick, (b.Batch+k)%3 == 0)
		sc.StepEvery = true
		var prevEff []uint64
		if fam == "churn" || fam == "custom" {
			sc.PDeposits = 0.6
		}
		b.Case("chain-"+fam, sc.String())
		var shadow *beacon.StandardUpgradeableBeaconState
		var shadowEpc *common.EpochsContext
		blockNo := 0
		lastFork := 0
		valsAtEpochStart := sc.Validators
		lastEpoch := uint64(0)
		epochHadDeposit := false
		boundaries, reloads := 0, 0
		viol := func(sig, what string) {
			b.Violate(sig, what+" — scenario "+sc.String(), map[string]any{"scenario": sc.String()})
		}
		hooks := chainHooks{
			beforeBlock: func(c *sim.Chain, built *sim.Built) bool {
				blockNo++
				shadow = nil
				if blockNo%3 == 0 || c.Ref.Fork != lastFork {
					data, err := sim.ZrntStateBytes(c.Z)
					if err != nil {
						return false
					}
					zst, err := sim.LoadZrntState(c.ZSpec, sim.ZrntFork(c.Z), data)
					if err != nil {
						viol("reload/decode", fmt.Sprintf("zrnt cannot reload its own serialized state: %v", err))
						return false
					}
					epc, err := common.NewEpochsContext(c.ZSpec, zst)
					if err != nil {
						viol("reload/context", fmt.Sprintf("NewEpochsContext on a reloaded chain state failed: %v", err))
						return false
					}
					shadow = &beacon.StandardUpgradeableBeaconState{BeaconState: zst}
					shadowEpc = epc
				}
				return false
			},
			afterStep: func(c *sim.Chain, where string, isBlock bool, built *sim.Built) bool {
				st := c.Ref
				ep := c.Sp.CurrentEpoch(st)
				if ep != lastEpoch {
					lastEpoch = ep
					valsAtEpochStart = len(st.Validators)
					if isBlock && built != nil {
						valsAtEpochStart = len(built.Pre.Validators) // the block itself may already add validators
					}
					epochHadDeposit = false
					boundaries++
					b.Inc("context_comparisons_after_epoch_boundary")
					// did this boundary change effective balances in a way the new epoch's proposers depend on?
					if prevEff != nil {
						old := st.Copy()
						changed := false
						for i := range old.Validators {
							if i < len(prevEff) && old.Validators[i].EffectiveBalance != prevEff[i] {
								old.Validators[i].EffectiveBalance = prevEff[i]
								changed = true
							}
						}
						if changed {
							b.Inc("epoch_boundaries_that_changed_effective_balances")
							for sl := c.Sp.StartSlot(ep); sl < c.Sp.StartSlot(ep+1); sl++ {
								pn, e1 := c.Sp.ProposerIndexAtSlot(st, sl)
								po, e2 := c.Sp.ProposerIndexAtSlot(old, sl)
								if e1 == nil && e2 == nil && pn != po {
									b.Inc("epochs_whose_proposers_depend_on_the_effective_balances_changed_at_their_boundary")
									break
								}
							}
						}
					}
					if st.Fork >= refspec.Altair && ep%c.Sp.EPOCHS_PER_SYNC_COMMITTEE_PERIOD == 0 {
						b.Inc("sync_period_boundaries_seen")
					}
				}
				if isBlock && built.Ops["deposit"] > 0 {
					epochHadDeposit = true
				}
				if st.Fork != lastFork {
					b.Inc("context_comparisons_after_upgrade")
					lastFork = st.Fork
				}
				prevEff = prevEff[:0]
				for i := range st.Validators {
					prevEff = append(prevEff, st.Validators[i].EffectiveBalance)
				}
				fresh, err := common.NewEpochsContext(c.ZSpec, c.Z.BeaconState)
				if err != nil {
					viol("fresh-context/error", fmt.Sprintf("%s: NewEpochsContext failed: %v", where, err))
					return false
				}
				b.Inc("context_comparisons")
				b.CountIf(epochHadDeposit, "context_comparisons_with_deposit_in_epoch")
				if len(c.Epc.EffectiveBalances) < len(fresh.EffectiveBalances) {
					b.Inc("benign_suffix_seen")
				}
				if d := epcDiff(c.Epc, fresh, valsAtEpochStart); d != "" {
					viol("live-context/"+firstWord(d), fmt.Sprintf("%s: the long-lived context differs from NewEpochsContext on the same state: %s", where, d))
					return false
				}
				if d := pubkeyLookupsDiff(c.Epc, st); d != "" {
					viol("live-context/pubkey-cache", fmt.Sprintf("%s: %s", where, d))
					return false
				}
				b.Count("pubkey_lookups_compared", int64(len(st.Validators)))
				if isBlock && shadow != nil {
					env, _, err := sim.DecodeBlock(c.ZSpec, built.Signed.Message.Fork, built.Bytes, common.ComputeForkDigest(common.Version(c.Sp.ForkVersions[built.Signed.Message.Fork]), common.Root(st.GenesisValidatorsRoot)))
					if err == nil {
						serr := common.StateTransition(ctx, c.ZSpec, shadowEpc, shadow, env, true)
						if serr != nil {
							viol("reload/diverges-error", fmt.Sprintf("%s: the lineage reloaded from serialized bytes with a fresh context rejects the block the long-lived lineage accepted: %v", where, serr))
							return false
						}
						a, _ := sim.ZrntStateBytes(shadow)
						z, _ := sim.ZrntStateBytes(c.Z)
						if string(a) != string(z) {
							viol("reload/diverges-state", fmt.Sprintf("%s: reloaded lineage and long-lived lineage produce different states for the same block", where))
							return false
						}
						reloads++
						b.Inc("reload_lineages_compared")
					}
				}
				return true
			},
		}
		runChain(b, sc, hooks, func(m *sim.Mismatch, trace []string) {
			if m.Kind != "harness" && m.Kind != "genesis" {
				// a long-lived context that went wrong shows as a transition mismatch against the reference
				reportChainMismatch(b, "C08", m, sc, trace)
			}
		})
		if boundaries > 0 && reloads > 0 {
			b.Nontrivial(sc.String())
		}
		if k == 0 && b.Batch < 2 {
			b.Sample(map[string]any{"scenario": sc.String(), "epoch_boundaries": boundaries, "reloads": reloads})
		}
	}
	// forky siblings sharing one pubkey cache, deposits in different order
	nf := 1
	if !quick {
		nf = 4
	}
	for k := 0; k < nf && !b.Stop(); k++ {
		if quick && b.Batch%2 != 0 {
			break
		}
		c08Forky(b, k+b.Batch/2)
	}
}

func sortedKeys(m map[string]int) []string {
	var out []string
	for k := range m {
		out = append(out, k)
	}
	sort.Strings(out)
	return out
}

// c08Forky: two sibling lineages sharing one pubkey cache include the same two new validators in opposite order.
func c08Forky(b *fw.B, k int) {
	ctx := context.Background()
	sc := scenario{Family: "forky", Preset: "custom", Validators: 24, ForkEpochs: [4]uint64{ff, ff, ff, ff}, Participation: []float64{1}}
	if k%2 == 1 {
		sc.ForkEpochs = [4]uint64{1, 1, 2, 2}
	}
	spec := specFor(sc)
	b.Case("forky", sc.String())
	main, err := sim.NewChain(spec, b.Rng, sim.GenesisOpts{Validators: sc.Validators})
	if err != nil {
		b.Note("forky genesis failed: %v", err)
		return
	}
	viol := func(sig, what string) {
		b.Violate(sig, what+" — scenario "+sc.String(), map[string]any{"scenario": sc.String()})
	}
	check := func(c *sim.Chain, name string) bool {
		fresh, err := common.NewEpochsContext(c.ZSpec, c.Z.BeaconState)
		if err != nil {
			viol("forky/fresh-context", fmt.Sprintf("%s: NewEpochsContext failed: %v", name, err))
			return false
		}
		if d := epcDiff(c.Epc, fresh, 0); d != "" {
			viol("forky/live-context/"+firstWord(d), fmt.Sprintf("%s lineage: long-lived context differs from a fresh one: %s", name, d))
			return false
		}
		if d := pubkeyLookupsDiff(c.Epc, c.Ref); d != "" {
			viol("forky/pubkey-cache", fmt.Sprintf("%s lineage: %s", name, d))
			return false
		}
		b.Count("pubkey_lookups_compared", int64(len(c.Ref.Validators)))
		b.Inc("context_comparisons")
		return true
	}
	spe := uint64(spec.SLOTS_PER_EPOCH)
	plan := sim.Plan{Participation: 1, MaxAttSlotsBack: 2, SyncParticipation: 1, VoteNewEth1: true}
	slot := uint64(1)
	var other *sim.Chain
	splitSlot := uint64(0)
	step := func(c *sim.Chain, name string, s uint64) bool {
		pl := plan
		if c == main && splitSlot > 0 && s <= splitSlot+3 {
			pl.AttesterSlashings, pl.ProposerSlashings = 1, 1 // the lineages' balances (and effective balances) diverge
		}
		built, err := c.BuildBlock(s, pl)
		if err == sim.ErrProposerSlashed {
			return true
		}
		if err != nil {
			b.Note("forky builder: %v", err)
			return false
		}
		if m := c.ApplyBlock(ctx, built); m != nil {
			if m.Kind != "harness" {
				viol("forky/"+m.Kind, fmt.Sprintf("%s lineage: %s", name, m.What))
			}
			return false
		}
		if built.Ops["deposit"] > 0 {
			b.Inc("forky_sibling_deposits")
		}
		// work on one lineage must not disturb the context of the other
		if other != nil && c != main && !check(main, "main (after a step of its sibling)") {
			return false
		}
		if other != nil && c == main && !check(other, "sibling (after a step of the main lineage)") {
			return false
		}
		return check(c, name)
	}
	for ; slot <= spe; slot++ {
		if !step(main, "main", slot) {
			return
		}
	}
	sib, err := main.Sibling()
	if err != nil {
		b.Note("sibling: %v", err)
		return
	}
	other = sib
	splitSlot = slot - 1
	p := main.Sp.P
	ka, kb := main.NextKey, main.NextKey+1
	main.DC.Add(main.MakeDepositData(ka, p.MAX_EFFECTIVE_BALANCE, false, true))
	main.DC.Add(main.MakeDepositData(kb, p.MAX_EFFECTIVE_BALANCE, true, true))
	main.DC.Add(main.MakeDepositData(0, p.EFFECTIVE_BALANCE_INCREMENT, false, false)) // top-up of validator 0
	if k%4 < 2 {
		// the eth1 chains of the two lineages disagree on the order of the two new validators
		sib.DC.Add(sib.MakeDepositData(kb, p.MAX_EFFECTIVE_BALANCE, true, true))
		sib.DC.Add(sib.MakeDepositData(ka, p.MAX_EFFECTIVE_BALANCE, false, true))
		sib.DC.Add(sib.MakeDepositData(ka, p.EFFECTIVE_BALANCE_INCREMENT, false, false)) // top-up of the key that is new on both
	} else {
		// same deposit log on both lineages: the second lineage meets keys the shared cache already knows at its next index
		sib.DC.Add(sib.MakeDepositData(ka, p.MAX_EFFECTIVE_BALANCE, false, true))
		sib.DC.Add(sib.MakeDepositData(kb, p.MAX_EFFECTIVE_BALANCE, true, true))
		sib.DC.Add(sib.MakeDepositData(0, p.EFFECTIVE_BALANCE_INCREMENT, false, false))
	}
	main.NextKey, sib.NextKey = kb+1, kb+1
	end := slot + 5*spe
	for ; slot <= end; slot++ {
		first, second := main, sib
		n1, n2 := "main", "sibling"
		if slot%2 == 0 {
			first, second, n1, n2 = sib, main, "sibling", "main"
		}
		if !step(first, n1, slot) || !step(second, n2, slot) {
			return
		}
	}
	b.Nontrivial("forky", k, b.Batch)
}

func firstWord(s string) string {
	for i, ch := range s {
		if ch == ' ' || ch == ':' || ch == '[' || ch == '(' {
			return s[:i]
		}
	}
	return s
}
