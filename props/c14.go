package props

import (
	"bytes"
	"context"
	"crypto/sha256"
	"encoding/json"
	"fmt"
	"reflect"
	"sort"
	"sync"

	blsu "github.com/protolambda/bls12-381-util"
	"github.com/protolambda/zrnt/eth2/beacon"
	"github.com/protolambda/zrnt/eth2/beacon/altair"
	"github.com/protolambda/zrnt/eth2/beacon/bellatrix"
	"github.com/protolambda/zrnt/eth2/beacon/capella"
	"github.com/protolambda/zrnt/eth2/beacon/common"
	"github.com/protolambda/zrnt/eth2/beacon/deneb"
	"github.com/protolambda/zrnt/eth2/beacon/electra"
	"github.com/protolambda/zrnt/eth2/beacon/phase0"
	"github.com/protolambda/zrnt/eth2/configs"
	"github.com/protolambda/ztyp/codec"
	"github.com/protolambda/ztyp/tree"

	"verif/fw"
)

// C14 — built-in configurations are the spec's; fork look-ups agree for every epoch.

var forkNames = []string{"phase0", "altair", "bellatrix", "capella", "deneb", "electra", "fulu"}

func init() {
	fw.Register(&fw.Prop{
		ID:    "C14",
		Level: "exploration",
		Rule: "random fork schedules (non-decreasing epochs >=1: strictly increasing, adjacent, equal, FAR_FUTURE tails, mainnet ordering) x every epoch in [boundary-2, boundary+2] of every boundary (exhaustive per schedule) plus epoch 0 and random epochs x random genesis validators roots: " +
			"Spec.ForkVersion, ForkDecoder.ForkDigest -> BlockAllocator type, the dynamic type and state.Fork() of a real 64-validator chain advanced by ProcessSlots through the schedule (phase0..deneb), envelope conversions, and VerifySignature of a block signed under each of the 7 versions; " +
			"plus the built-in mainnet/minimal constants against a table pinned in the harness. A case is one (schedule, epoch) look-up or one constant; non-trivial when the epoch is within 1 of a boundary; distinct by (schedule, epoch)",
		Assumptions: []string{
			"reference compute_fork_version = the latest fork whose epoch <= e in the ordered list phase0..fulu (spec function), digest/domain/signing-root recomputed with crypto/sha256",
			"schedules are non-decreasing and start at epoch >= 1 (the spec assumes ordered forks; a fork at epoch 0 needs a genesis state of that fork, which zrnt builds differently)",
			"chains are advanced only through phase0..deneb (UpgradeToElectra is unsupported by design), electra/fulu boundaries are checked on version/digest/block type only",
			"pinned constants: transcribed from consensus-specs v1.5.0-beta.2 presets/ and configs/ (phase0..electra presets, consensus and p2p config); fulu/eip-* knobs are not pinned",
		},
		Batches:  func(tier string) int { return 16 },
		Run:      runC14,
		Required: []string{"lookups_checked", "boundary_lookups", "equal_epoch_schedules", "chain_states_checked", "upgrades_seen_altair", "upgrades_seen_bellatrix", "upgrades_seen_capella", "upgrades_seen_deneb", "sig_accept", "sig_reject", "envelope_roundtrips", "envelope_roundtrips_electra", "constants_checked"},
	})
}

type c14Keys struct {
	sks  []*blsu.SecretKey
	pubs []common.BLSPubkey
}

var c14KeyOnce sync.Once
var c14K c14Keys

func simKeys(n int) ([]*blsu.SecretKey, []common.BLSPubkey) {
	c14KeyOnce.Do(func() {
		for i := 0; i < 300; i++ {
			var skb [32]byte
			skb[31] = byte(i + 1)
			skb[30] = byte((i + 1) >> 8)
			skb[29] = 0x42
			sk := new(blsu.SecretKey)
			if err := sk.Deserialize(&skb); err != nil {
				panic(err)
			}
			pk, err := blsu.SkToPk(sk)
			if err != nil {
				panic(err)
			}
			c14K.sks = append(c14K.sks, sk)
			c14K.pubs = append(c14K.pubs, common.BLSPubkey(pk.Serialize()))
		}
	})
	return c14K.sks[:n], c14K.pubs[:n]
}

func refForkDataRoot(v common.Version, gvr common.Root) (out [32]byte) {
	var buf [64]byte
	copy(buf[:4], v[:])
	copy(buf[32:], gvr[:])
	return sha256.Sum256(buf[:])
}

func refDomain(domType common.BLSDomainType, v common.Version, gvr common.Root) (d [32]byte) {
	fdr := refForkDataRoot(v, gvr)
	copy(d[:4], domType[:])
	copy(d[4:], fdr[:28])
	return
}

func refSigningRoot(obj [32]byte, dom [32]byte) [32]byte {
	var buf [64]byte
	copy(buf[:32], obj[:])
	copy(buf[32:], dom[:])
	return sha256.Sum256(buf[:])
}

func runC14(b *fw.B) {
	quick := fw.Quick(b.Tier)
	if b.Batch == 0 {
		c14Constants(b)
	}
	// at the end of the process, after configurations were handed out by name and scribbled on and everything else ran: still as published
	defer func() {
		if !b.Stop() {
			c14SpecOptions(b)
			c14Constants(b)
			b.Inc("constants_rechecked_at_the_end_of_a_process")
		}
	}()
	nSched := 200 / 16
	if !quick {
		nSched = 5000 / 16
	}
	far := common.FAR_FUTURE_EPOCH
	for sI := 0; sI < nSched && !b.Stop(); sI++ {
		spec := *configs.Minimal
		// draw a non-decreasing schedule
		epochs := make([]common.Epoch, 6) // altair..fulu
		cur := common.Epoch(1 + b.Rng.IntN(3))
		shape := b.Rng.IntN(6)
		equalSeen := false
		for i := range epochs {
			switch shape {
			case 0: // consecutive
				epochs[i] = cur
				cur++
			case 1: // gaps
				epochs[i] = cur
				cur += common.Epoch(1 + b.Rng.IntN(4))
			case 2: // some equal
				epochs[i] = cur
				if b.Rng.IntN(2) == 0 {
					cur += common.Epoch(b.Rng.IntN(3))
				}
			case 3: // far-future tail
				epochs[i] = cur
				if cur != far {
					cur += common.Epoch(b.Rng.IntN(3))
					if i >= 1+b.Rng.IntN(5) {
						cur = far
					}
				}
			case 4: // all equal pairs
				epochs[i] = cur
				if i%2 == 1 {
					cur += 2
				}
			default: // large mainnet-like epochs for look-ups (no chain)
				epochs[i] = cur*1000 + common.Epoch(b.Rng.IntN(1000))
				cur += common.Epoch(1 + b.Rng.IntN(70))
			}
			if i > 0 && epochs[i] == epochs[i-1] && epochs[i] != far {
				equalSeen = true
			}
		}
		spec.ALTAIR_FORK_EPOCH, spec.BELLATRIX_FORK_EPOCH, spec.CAPELLA_FORK_EPOCH = epochs[0], epochs[1], epochs[2]
		spec.DENEB_FORK_EPOCH, spec.ELECTRA_FORK_EPOCH, spec.FULU_FORK_EPOCH = epochs[3], epochs[4], epochs[5]
		// random distinct versions
		versions := make([]common.Version, 7)
		for i := range versions {
			versions[i] = common.Version{byte(i), byte(b.Rng.Uint32()), byte(b.Rng.Uint32()), byte(1 + b.Rng.IntN(200))}
		}
		spec.GENESIS_FORK_VERSION, spec.ALTAIR_FORK_VERSION, spec.BELLATRIX_FORK_VERSION, spec.CAPELLA_FORK_VERSION = versions[0], versions[1], versions[2], versions[3]
		spec.DENEB_FORK_VERSION, spec.ELECTRA_FORK_VERSION, spec.FULU_FORK_VERSION = versions[4], versions[5], versions[6]
		var gvr common.Root
		for i := range gvr {
			gvr[i] = byte(b.Rng.Uint32())
		}
		b.CountIf(equalSeen, "equal_epoch_schedules")
		schedDesc := fmt.Sprintf("epochs=%v", epochs)
		// reference: index of the fork active at epoch e
		refFork := func(e common.Epoch) int {
			f := 0
			for i, fe := range epochs {
				if e >= fe {
					f = i + 1
				}
			}
			return f
		}
		dec := beacon.NewForkDecoder(&spec, gvr)
		// epochs to look at
		eset := map[common.Epoch]bool{0: true, 1: true}
		for _, fe := range epochs {
			if fe == far {
				eset[far] = true
				eset[far-1] = true
				continue
			}
			for d := -2; d <= 2; d++ {
				if int64(fe)+int64(d) >= 0 {
					eset[common.Epoch(int64(fe)+int64(d))] = true
				}
			}
		}
		for i := 0; i < 5; i++ {
			eset[common.Epoch(b.Rng.Uint64()>>uint(b.Rng.IntN(60)))] = true
		}
		spe := uint64(spec.SLOTS_PER_EPOCH)
		for e := range eset {
			if uint64(e) > ^uint64(0)/spe-1 {
				continue // slot not representable
			}
			b.Case("lookup", fmt.Sprintf("%s epoch=%d", schedDesc, e))
			want := refFork(e)
			nearBoundary := false
			for _, fe := range epochs {
				if fe != far && (e+1 == fe || e == fe || e == fe+1) {
					nearBoundary = true
				}
			}
			if nearBoundary {
				b.Inc("boundary_lookups")
				b.Nontrivial(schedDesc, e)
			}
			b.Inc("lookups_checked")
			for _, slot := range []common.Slot{common.Slot(uint64(e) * spe), common.Slot(uint64(e)*spe + spe - 1)} {
				var v common.Version
				if !b.NoPanic("fork-version/panic", func() { v = spec.ForkVersion(slot) }) {
					continue
				}
				if v != versions[want] {
					b.Violate("fork-version/wrong", fmt.Sprintf("%s: Spec.ForkVersion(slot %d, epoch %d)=%s, the schedule says %s (%s)", schedDesc, slot, e, v, versions[want], forkNames[want]), nil)
				}
			}
			var dg common.ForkDigest
			if !b.NoPanic("fork-digest/panic", func() { dg = dec.ForkDigest(e) }) {
				continue
			}
			wantRoot := refForkDataRoot(versions[want], gvr)
			if !bytes.Equal(dg[:], wantRoot[:4]) {
				b.Violate("fork-digest/wrong", fmt.Sprintf("%s: ForkDigest(epoch %d)=%s, expected digest of %s version", schedDesc, e, dg, forkNames[want]), nil)
				continue
			}
			alloc, err := dec.BlockAllocator(dg)
			if want <= 5 {
				if err != nil {
					b.Violate("block-allocator/missing", fmt.Sprintf("%s: no block type for the %s digest: %v", schedDesc, forkNames[want], err), nil)
					continue
				}
				blk := alloc()
				if got := blockForkName(blk); got != forkNames[want] {
					b.Violate("block-allocator/wrong-type", fmt.Sprintf("%s: epoch %d is %s but the decoder allocates a %s block", schedDesc, e, forkNames[want], got), nil)
				}
			}
		}
		if shape == 5 {
			continue
		}
		// real chain through the schedule (phase0..deneb only)
		chainSpec := spec
		chainSpec.ELECTRA_FORK_EPOCH, chainSpec.FULU_FORK_EPOCH = far, far
		chainEpochs := append([]common.Epoch{}, epochs[:4]...)
		last := common.Epoch(2)
		for _, fe := range chainEpochs {
			if fe != far && fe+2 > last {
				last = fe + 2
			}
		}
		if last > 40 {
			last = 40
		}
		c14Chain(b, &chainSpec, versions, chainEpochs, last, schedDesc, sI)
		// forks the chain cannot be advanced into: the block <-> envelope conversion and the envelope signature check
		// do not need a chain
		for fi := 4; fi < len(epochs); fi++ {
			if epochs[fi] != far {
				c14EnvelopeOnly(b, &spec, versions, fi+1, epochs[fi], schedDesc)
			}
		}
	}
}

// c14EnvelopeOnly: a block of fork `want` at the first slot of epoch e: envelope preserves root/header/signature/body,
// verifies under the version of its slot and under no other.
func c14EnvelopeOnly(b *fw.B, spec *common.Spec, versions []common.Version, want int, e common.Epoch, schedDesc string) {
	sks, pubs := simKeys(8)
	gvr := common.Root{0x77, byte(want)}
	dec := beacon.NewForkDecoder(spec, gvr)
	slot := common.Slot(uint64(e) * uint64(spec.SLOTS_PER_EPOCH))
	dg := dec.ForkDigest(e)
	alloc, aerr := dec.BlockAllocator(dg)
	if aerr != nil {
		return
	}
	blk := alloc()
	if c14MessageRoot(spec, blk) == (common.Root{}) {
		b.Inc("envelope_only_block_types_without_helper")
		return // a block type this harness has no accessors for (fulu has no block type of its own)
	}
	proposer := common.ValidatorIndex(b.Rng.IntN(8))
	parent, stRoot := common.Root{byte(e), 17}, common.Root{byte(e), 19}
	c14FillBlock(blk, slot, proposer, parent, stRoot, b)
	b.Case("envelope-only", fmt.Sprintf("%s block at slot %d (%s)", forkNames[want], slot, schedDesc))
	var env *common.BeaconBlockEnvelope
	if !b.NoPanic("envelope/panic", func() { env = blk.Envelope(spec, dg) }) {
		return
	}
	msgRoot := c14MessageRoot(spec, blk)
	if env.BlockRoot != msgRoot || env.Slot != slot || env.ProposerIndex != proposer || env.ParentRoot != parent || env.StateRoot != stRoot {
		b.Violate("envelope/header-mismatch", fmt.Sprintf("%s: %s block -> envelope changed root or header fields", schedDesc, forkNames[want]), nil)
		return
	}
	for vi, ver := range versions {
		sr := refSigningRoot(msgRoot, refDomain(common.DOMAIN_BEACON_PROPOSER, ver, gvr))
		sig := blsu.Sign(sks[proposer], sr[:])
		c14SetSig(blk, common.BLSSignature(sig.Serialize()))
		env2 := blk.Envelope(spec, dg)
		var ok bool
		if !b.NoPanic("envelope/verify/panic", func() {
			ok = env2.VerifySignature(spec, gvr, proposer, &common.CachedPubkey{Compressed: pubs[proposer]})
		}) {
			return
		}
		if ver == versions[want] {
			if !ok {
				b.Violate("envelope/valid-signature-refused", fmt.Sprintf("%s: %s block at slot %d signed under the version of its slot does not verify through the envelope", schedDesc, forkNames[want], slot), nil)
				return
			}
			b.Inc("sig_accept")
			var back common.SpecObj
			var berr error
			if !b.NoPanic("envelope/back/panic", func() { back, berr = beacon.EnvelopeToSignedBeaconBlock(env2) }) {
				return
			}
			if berr != nil || !c14SameBlock(spec, blk, back) {
				b.Violate("envelope/roundtrip-mismatch", fmt.Sprintf("%s: %s block -> envelope -> block is not the same block (%v)", schedDesc, forkNames[want], berr), nil)
				return
			}
			b.Inc("envelope_roundtrips")
			b.Inc("envelope_roundtrips_" + forkNames[want])
		} else if vi != want {
			b.Inc("sig_reject")
			if ok {
				b.Violate("envelope/wrong-version-accepted", fmt.Sprintf("%s: %s block at slot %d signed under the %s version verifies", schedDesc, forkNames[want], slot, forkNames[vi]), nil)
				return
			}
		}
	}
}

func blockForkName(blk any) string {
	switch blk.(type) {
	case *phase0.SignedBeaconBlock:
		return "phase0"
	case *altair.SignedBeaconBlock:
		return "altair"
	case *bellatrix.SignedBeaconBlock:
		return "bellatrix"
	case *capella.SignedBeaconBlock:
		return "capella"
	case *deneb.SignedBeaconBlock:
		return "deneb"
	case *electra.SignedBeaconBlock:
		return "electra"
	}
	return fmt.Sprintf("%T", blk)
}

func stateForkName(st common.BeaconState) string {
	switch st.(type) {
	case *phase0.BeaconStateView:
		return "phase0"
	case *altair.BeaconStateView:
		return "altair"
	case *bellatrix.BeaconStateView:
		return "bellatrix"
	case *capella.BeaconStateView:
		return "capella"
	case *deneb.BeaconStateView:
		return "deneb"
	case *electra.BeaconStateView:
		return "electra"
	}
	return fmt.Sprintf("%T", st)
}

func c14Chain(b *fw.B, spec *common.Spec, versions []common.Version, epochs []common.Epoch, last common.Epoch, schedDesc string, sI int) {
	sks, pubs := simKeys(64)
	vals := make([]phase0.KickstartValidatorData, 64)
	for i := range vals {
		vals[i] = phase0.KickstartValidatorData{Pubkey: pubs[i], WithdrawalCredentials: common.Root{0: 0, 31: byte(i)}, Balance: spec.MAX_EFFECTIVE_BALANCE}
	}
	b.Case("chain", schedDesc)
	var st0 *phase0.BeaconStateView
	var epc *common.EpochsContext
	var err error
	if !b.NoPanic("chain/kickstart/panic", func() { st0, epc, err = phase0.KickStartState(spec, common.Root{1}, 1000, vals) }) || err != nil {
		b.Note("kickstart failed: %v", err)
		return
	}
	gvr, _ := st0.GenesisValidatorsRoot()
	dec := beacon.NewForkDecoder(spec, gvr)
	state := &beacon.StandardUpgradeableBeaconState{BeaconState: st0}
	ctx := context.Background()
	spe := uint64(spec.SLOTS_PER_EPOCH)
	refFork := func(e common.Epoch) int {
		f := 0
		for i, fe := range epochs {
			if e >= fe {
				f = i + 1
			}
		}
		return f
	}
	for e := common.Epoch(0); e <= last; e++ {
		// advance to the first slot of e (and later to one slot inside it)
		for _, slot := range []common.Slot{common.Slot(uint64(e) * spe), common.Slot(uint64(e)*spe + 1 + uint64(b.Rng.IntN(int(spe)-1)))} {
			cs, _ := state.Slot()
			if slot > cs {
				if !b.NoPanic("chain/ProcessSlots/panic", func() { err = common.ProcessSlots(ctx, spec, epc, state, slot) }) {
					return
				}
				if err != nil {
					b.Violate("chain/ProcessSlots/error", fmt.Sprintf("%s: ProcessSlots to slot %d failed: %v", schedDesc, slot, err), nil)
					return
				}
			}
			want := refFork(e)
			b.Inc("chain_states_checked")
			got := stateForkName(state.BeaconState)
			if got != forkNames[want] {
				b.Violate("state-type/wrong", fmt.Sprintf("%s: at slot %d (epoch %d) the state is %s, the schedule says %s", schedDesc, slot, e, got, forkNames[want]), nil)
				return
			}
			if slot == common.Slot(uint64(e)*spe) && want > 0 && epochs[want-1] == e {
				b.Inc("upgrades_seen_" + forkNames[want])
			}
			fk, ferr := state.Fork()
			if ferr != nil {
				b.Violate("state-fork/error", fmt.Sprint(ferr), nil)
				return
			}
			wantPrev := versions[0]
			wantEpoch := common.Epoch(0)
			if want > 0 {
				wantPrev = versions[want-1]
				wantEpoch = epochs[want-1]
			}
			if fk.CurrentVersion != versions[want] || fk.PreviousVersion != wantPrev || fk.Epoch != wantEpoch {
				b.Violate("state-fork/wrong", fmt.Sprintf("%s: at epoch %d state.fork=(prev %s, cur %s, epoch %d), expected (prev %s, cur %s, epoch %d)", schedDesc, e, fk.PreviousVersion, fk.CurrentVersion, fk.Epoch, wantPrev, versions[want], wantEpoch), nil)
				return
			}
			if v := spec.ForkVersion(slot); v != fk.CurrentVersion {
				b.Violate("fork-version/state-disagrees", fmt.Sprintf("%s: Spec.ForkVersion(slot %d)=%s but the state advanced to that slot records current version %s", schedDesc, slot, v, fk.CurrentVersion), nil)
				return
			}
			// a block of this fork at this slot: envelope round trip and signature under every version
			if slot != common.Slot(uint64(e)*spe) {
				continue
			}
			dg := dec.ForkDigest(e)
			alloc, aerr := dec.BlockAllocator(dg)
			if aerr != nil {
				continue
			}
			blk := alloc()
			proposer := common.ValidatorIndex(b.Rng.IntN(64))
			parent := common.Root{byte(e), 7}
			stRoot := common.Root{byte(e), 9}
			c14FillBlock(blk, slot, proposer, parent, stRoot, b)
			var env *common.BeaconBlockEnvelope
			if !b.NoPanic("envelope/panic", func() { env = blk.Envelope(spec, dg) }) {
				return
			}
			msgRoot := c14MessageRoot(spec, blk)
			if env.BlockRoot != msgRoot || env.Slot != slot || env.ProposerIndex != proposer || env.ParentRoot != parent || env.StateRoot != stRoot {
				b.Violate("envelope/header-mismatch", fmt.Sprintf("%s: %s block -> envelope changed root or header fields", schedDesc, forkNames[want]), nil)
				return
			}
			// sign under each version
			for vi, ver := range versions {
				dom := refDomain(common.DOMAIN_BEACON_PROPOSER, ver, gvr)
				sr := refSigningRoot(msgRoot, dom)
				sig := blsu.Sign(sks[proposer], sr[:])
				c14SetSig(blk, common.BLSSignature(sig.Serialize()))
				env2 := blk.Envelope(spec, dg)
				cp := &common.CachedPubkey{Compressed: pubs[proposer]}
				var ok bool
				if !b.NoPanic("envelope/verify/panic", func() { ok = env2.VerifySignature(spec, gvr, proposer, cp) }) {
					return
				}
				if vi == want {
					b.Inc("sig_accept")
					if !ok {
						b.Violate("envelope/valid-signature-refused", fmt.Sprintf("%s: %s block at slot %d signed under the %s version does not verify through the envelope", schedDesc, forkNames[want], slot, forkNames[vi]), nil)
						return
					}
					// back to a signed block: root, signature and body preserved
					var back common.SpecObj
					var berr error
					if !b.NoPanic("envelope/back/panic", func() { back, berr = beacon.EnvelopeToSignedBeaconBlock(env2) }) {
						return
					}
					if berr != nil || !c14SameBlock(spec, blk, back) {
						b.Violate("envelope/roundtrip-mismatch", fmt.Sprintf("%s: %s block -> envelope -> block is not the same block (%v)", schedDesc, forkNames[want], berr), nil)
						return
					}
					b.Inc("envelope_roundtrips")
				} else {
					b.Inc("sig_reject")
					if ok {
						b.Violate("envelope/wrong-version-accepted", fmt.Sprintf("%s: %s block at slot %d signed under the %s version verifies", schedDesc, forkNames[want], slot, forkNames[vi]), nil)
						return
					}
				}
			}
		}
	}
	if sI == 0 {
		b.Sample(map[string]any{"schedule": schedDesc, "chain_advanced_to_epoch": last})
	}
}

func c14FillBlock(blk any, slot common.Slot, proposer common.ValidatorIndex, parent, stRoot common.Root, b *fw.B) {
	graffiti := common.Root{byte(b.Rng.Uint32()), 3}
	switch x := blk.(type) {
	case *phase0.SignedBeaconBlock:
		x.Message.Slot, x.Message.ProposerIndex, x.Message.ParentRoot, x.Message.StateRoot = slot, proposer, parent, stRoot
		x.Message.Body.Graffiti = graffiti
	case *altair.SignedBeaconBlock:
		x.Message.Slot, x.Message.ProposerIndex, x.Message.ParentRoot, x.Message.StateRoot = slot, proposer, parent, stRoot
		x.Message.Body.Graffiti = graffiti
		x.Message.Body.SyncAggregate.SyncCommitteeBits = make(altair.SyncCommitteeBits, 4)
	case *bellatrix.SignedBeaconBlock:
		x.Message.Slot, x.Message.ProposerIndex, x.Message.ParentRoot, x.Message.StateRoot = slot, proposer, parent, stRoot
		x.Message.Body.Graffiti = graffiti
		x.Message.Body.SyncAggregate.SyncCommitteeBits = make(altair.SyncCommitteeBits, 4)
	case *capella.SignedBeaconBlock:
		x.Message.Slot, x.Message.ProposerIndex, x.Message.ParentRoot, x.Message.StateRoot = slot, proposer, parent, stRoot
		x.Message.Body.Graffiti = graffiti
		x.Message.Body.SyncAggregate.SyncCommitteeBits = make(altair.SyncCommitteeBits, 4)
	case *deneb.SignedBeaconBlock:
		x.Message.Slot, x.Message.ProposerIndex, x.Message.ParentRoot, x.Message.StateRoot = slot, proposer, parent, stRoot
		x.Message.Body.Graffiti = graffiti
		x.Message.Body.SyncAggregate.SyncCommitteeBits = make(altair.SyncCommitteeBits, 4)
	case *electra.SignedBeaconBlock:
		x.Message.Slot, x.Message.ProposerIndex, x.Message.ParentRoot, x.Message.StateRoot = slot, proposer, parent, stRoot
		x.Message.Body.Graffiti = graffiti
		x.Message.Body.SyncAggregate.SyncCommitteeBits = make(altair.SyncCommitteeBits, 4)
	}
}

func c14SetSig(blk any, sig common.BLSSignature) {
	switch x := blk.(type) {
	case *phase0.SignedBeaconBlock:
		x.Signature = sig
	case *altair.SignedBeaconBlock:
		x.Signature = sig
	case *bellatrix.SignedBeaconBlock:
		x.Signature = sig
	case *capella.SignedBeaconBlock:
		x.Signature = sig
	case *deneb.SignedBeaconBlock:
		x.Signature = sig
	case *electra.SignedBeaconBlock:
		x.Signature = sig
	}
}

func c14MessageRoot(spec *common.Spec, blk any) common.Root {
	hFn := tree.GetHashFn()
	switch x := blk.(type) {
	case *phase0.SignedBeaconBlock:
		return x.Message.HashTreeRoot(spec, hFn)
	case *altair.SignedBeaconBlock:
		return x.Message.HashTreeRoot(spec, hFn)
	case *bellatrix.SignedBeaconBlock:
		return x.Message.HashTreeRoot(spec, hFn)
	case *capella.SignedBeaconBlock:
		return x.Message.HashTreeRoot(spec, hFn)
	case *deneb.SignedBeaconBlock:
		return x.Message.HashTreeRoot(spec, hFn)
	case *electra.SignedBeaconBlock:
		return x.Message.HashTreeRoot(spec, hFn)
	}
	return common.Root{}
}

func c14SameBlock(spec *common.Spec, a any, bb common.SpecObj) bool {
	if reflect.TypeOf(a) != reflect.TypeOf(bb) {
		return false
	}
	var ba, bbuf bytes.Buffer
	if err := a.(common.SpecObj).Serialize(spec, codec.NewEncodingWriter(&ba)); err != nil {
		return false
	}
	if err := bb.Serialize(spec, codec.NewEncodingWriter(&bbuf)); err != nil {
		return false
	}
	return bytes.Equal(ba.Bytes(), bbuf.Bytes())
}

// ---- pinned constants (consensus-specs v1.5.0-beta.2), written in the harness, independent of /repo's YAML files

var c14Common = map[string]string{
	"HYSTERESIS_QUOTIENT": "4", "HYSTERESIS_DOWNWARD_MULTIPLIER": "1", "HYSTERESIS_UPWARD_MULTIPLIER": "5",
	"MIN_DEPOSIT_AMOUNT": "1000000000", "MAX_EFFECTIVE_BALANCE": "32000000000", "EFFECTIVE_BALANCE_INCREMENT": "1000000000",
	"MIN_ATTESTATION_INCLUSION_DELAY": "1", "MIN_SEED_LOOKAHEAD": "1", "MAX_SEED_LOOKAHEAD": "4", "MIN_EPOCHS_TO_INACTIVITY_PENALTY": "4",
	"HISTORICAL_ROOTS_LIMIT": "16777216", "VALIDATOR_REGISTRY_LIMIT": "1099511627776", "BASE_REWARD_FACTOR": "64", "WHISTLEBLOWER_REWARD_QUOTIENT": "512",
	"PROPOSER_REWARD_QUOTIENT": "8", "MAX_VALIDATORS_PER_COMMITTEE": "2048",
	"MAX_PROPOSER_SLASHINGS": "16", "MAX_ATTESTER_SLASHINGS": "2", "MAX_ATTESTATIONS": "128", "MAX_DEPOSITS": "16", "MAX_VOLUNTARY_EXITS": "16",
	"INACTIVITY_PENALTY_QUOTIENT_ALTAIR": "50331648", "MIN_SLASHING_PENALTY_QUOTIENT_ALTAIR": "64", "PROPORTIONAL_SLASHING_MULTIPLIER_ALTAIR": "2", "MIN_SYNC_COMMITTEE_PARTICIPANTS": "1",
	"INACTIVITY_PENALTY_QUOTIENT_BELLATRIX": "16777216", "MIN_SLASHING_PENALTY_QUOTIENT_BELLATRIX": "32", "PROPORTIONAL_SLASHING_MULTIPLIER_BELLATRIX": "3",
	"MAX_BYTES_PER_TRANSACTION": "1073741824", "MAX_TRANSACTIONS_PER_PAYLOAD": "1048576", "BYTES_PER_LOGS_BLOOM": "256", "MAX_EXTRA_DATA_BYTES": "32",
	"MAX_BLS_TO_EXECUTION_CHANGES": "16", "FIELD_ELEMENTS_PER_BLOB": "4096",
	"MIN_ACTIVATION_BALANCE": "32000000000", "MAX_EFFECTIVE_BALANCE_ELECTRA": "2048000000000", "MIN_SLASHING_PENALTY_QUOTIENT_ELECTRA": "4096", "WHISTLEBLOWER_REWARD_QUOTIENT_ELECTRA": "4096",
	"PENDING_DEPOSITS_LIMIT": "134217728", "MAX_ATTESTER_SLASHINGS_ELECTRA": "1", "MAX_ATTESTATIONS_ELECTRA": "8", "MAX_CONSOLIDATION_REQUESTS_PER_PAYLOAD": "2", "MAX_PENDING_DEPOSITS_PER_EPOCH": "16",
	"SECONDS_PER_ETH1_BLOCK": "14", "MIN_VALIDATOR_WITHDRAWABILITY_DELAY": "256", "INACTIVITY_SCORE_BIAS": "4", "INACTIVITY_SCORE_RECOVERY_RATE": "16", "EJECTION_BALANCE": "16000000000",
	"PROPOSER_SCORE_BOOST": "40", "REORG_HEAD_WEIGHT_THRESHOLD": "20", "REORG_PARENT_WEIGHT_THRESHOLD": "160", "REORG_MAX_EPOCHS_SINCE_FINALIZATION": "2",
	"TERMINAL_BLOCK_HASH":                  "0x0000000000000000000000000000000000000000000000000000000000000000",
	"TERMINAL_BLOCK_HASH_ACTIVATION_EPOCH": "18446744073709551615",
	"MAX_PAYLOAD_SIZE":                     "10485760", "MAX_REQUEST_BLOCKS": "1024", "EPOCHS_PER_SUBNET_SUBSCRIPTION": "256", "TTFB_TIMEOUT": "5", "RESP_TIMEOUT": "10",
	"ATTESTATION_PROPAGATION_SLOT_RANGE": "32", "MAXIMUM_GOSSIP_CLOCK_DISPARITY": "500", "MESSAGE_DOMAIN_INVALID_SNAPPY": "0x00000000", "MESSAGE_DOMAIN_VALID_SNAPPY": "0x01000000",
	"SUBNETS_PER_NODE": "2", "ATTESTATION_SUBNET_COUNT": "64", "ATTESTATION_SUBNET_EXTRA_BITS": "0", "ATTESTATION_SUBNET_PREFIX_BITS": "6",
	"MAX_REQUEST_BLOCKS_DENEB": "128", "MIN_EPOCHS_FOR_BLOB_SIDECARS_REQUESTS": "4096", "BLOB_SIDECAR_SUBNET_COUNT": "6", "MAX_BLOBS_PER_BLOCK": "6", "MAX_REQUEST_BLOB_SIDECARS": "768",
	"BLOB_SIDECAR_SUBNET_COUNT_ELECTRA": "9", "MAX_BLOBS_PER_BLOCK_ELECTRA": "9", "MAX_REQUEST_BLOB_SIDECARS_ELECTRA": "1152",
}

var c14Mainnet = map[string]string{
	"PRESET_BASE": "mainnet", "CONFIG_NAME": "mainnet",
	"MAX_COMMITTEES_PER_SLOT": "64", "TARGET_COMMITTEE_SIZE": "128", "SHUFFLE_ROUND_COUNT": "90", "SLOTS_PER_EPOCH": "32", "EPOCHS_PER_ETH1_VOTING_PERIOD": "64",
	"SLOTS_PER_HISTORICAL_ROOT": "8192", "EPOCHS_PER_HISTORICAL_VECTOR": "65536", "EPOCHS_PER_SLASHINGS_VECTOR": "8192",
	"INACTIVITY_PENALTY_QUOTIENT": "67108864", "MIN_SLASHING_PENALTY_QUOTIENT": "128", "PROPORTIONAL_SLASHING_MULTIPLIER": "1",
	"SYNC_COMMITTEE_SIZE": "512", "EPOCHS_PER_SYNC_COMMITTEE_PERIOD": "256",
	"MAX_WITHDRAWALS_PER_PAYLOAD": "16", "MAX_VALIDATORS_PER_WITHDRAWALS_SWEEP": "16384",
	"MAX_BLOB_COMMITMENTS_PER_BLOCK": "4096", "KZG_COMMITMENT_INCLUSION_PROOF_DEPTH": "17",
	"PENDING_PARTIAL_WITHDRAWALS_LIMIT": "134217728", "PENDING_CONSOLIDATIONS_LIMIT": "262144", "MAX_DEPOSIT_REQUESTS_PER_PAYLOAD": "8192", "MAX_WITHDRAWAL_REQUESTS_PER_PAYLOAD": "16", "MAX_PENDING_PARTIALS_PER_WITHDRAWALS_SWEEP": "8",
	"TERMINAL_TOTAL_DIFFICULTY": "58750000000000000000000", "MIN_GENESIS_ACTIVE_VALIDATOR_COUNT": "16384", "MIN_GENESIS_TIME": "1606824000", "GENESIS_DELAY": "604800",
	"GENESIS_FORK_VERSION": "0x00000000", "ALTAIR_FORK_VERSION": "0x01000000", "BELLATRIX_FORK_VERSION": "0x02000000", "CAPELLA_FORK_VERSION": "0x03000000", "DENEB_FORK_VERSION": "0x04000000", "ELECTRA_FORK_VERSION": "0x05000000", "FULU_FORK_VERSION": "0x06000000",
	"ALTAIR_FORK_EPOCH": "74240", "BELLATRIX_FORK_EPOCH": "144896", "CAPELLA_FORK_EPOCH": "194048", "DENEB_FORK_EPOCH": "269568", "ELECTRA_FORK_EPOCH": "18446744073709551615", "FULU_FORK_EPOCH": "18446744073709551615",
	"SECONDS_PER_SLOT": "12", "SHARD_COMMITTEE_PERIOD": "256", "ETH1_FOLLOW_DISTANCE": "2048", "MIN_PER_EPOCH_CHURN_LIMIT": "4", "CHURN_LIMIT_QUOTIENT": "65536", "MAX_PER_EPOCH_ACTIVATION_CHURN_LIMIT": "8",
	"DEPOSIT_CHAIN_ID": "1", "DEPOSIT_NETWORK_ID": "1", "DEPOSIT_CONTRACT_ADDRESS": "0x00000000219ab540356cbb839cbe05303d7705fa",
	"MIN_EPOCHS_FOR_BLOCK_REQUESTS": "33024", "MIN_PER_EPOCH_CHURN_LIMIT_ELECTRA": "128000000000", "MAX_PER_EPOCH_ACTIVATION_EXIT_CHURN_LIMIT": "256000000000",
}

var c14Minimal = map[string]string{
	"PRESET_BASE": "minimal", "CONFIG_NAME": "minimal",
	"MAX_COMMITTEES_PER_SLOT": "4", "TARGET_COMMITTEE_SIZE": "4", "SHUFFLE_ROUND_COUNT": "10", "SLOTS_PER_EPOCH": "8", "EPOCHS_PER_ETH1_VOTING_PERIOD": "4",
	"SLOTS_PER_HISTORICAL_ROOT": "64", "EPOCHS_PER_HISTORICAL_VECTOR": "64", "EPOCHS_PER_SLASHINGS_VECTOR": "64",
	"INACTIVITY_PENALTY_QUOTIENT": "33554432", "MIN_SLASHING_PENALTY_QUOTIENT": "64", "PROPORTIONAL_SLASHING_MULTIPLIER": "2",
	"SYNC_COMMITTEE_SIZE": "32", "EPOCHS_PER_SYNC_COMMITTEE_PERIOD": "8",
	"MAX_WITHDRAWALS_PER_PAYLOAD": "4", "MAX_VALIDATORS_PER_WITHDRAWALS_SWEEP": "16",
	"MAX_BLOB_COMMITMENTS_PER_BLOCK": "32", "KZG_COMMITMENT_INCLUSION_PROOF_DEPTH": "10",
	"PENDING_PARTIAL_WITHDRAWALS_LIMIT": "64", "PENDING_CONSOLIDATIONS_LIMIT": "64", "MAX_DEPOSIT_REQUESTS_PER_PAYLOAD": "4", "MAX_WITHDRAWAL_REQUESTS_PER_PAYLOAD": "2", "MAX_PENDING_PARTIALS_PER_WITHDRAWALS_SWEEP": "2",
	"TERMINAL_TOTAL_DIFFICULTY": "115792089237316195423570985008687907853269984665640564039457584007913129638912", "MIN_GENESIS_ACTIVE_VALIDATOR_COUNT": "64", "MIN_GENESIS_TIME": "1578009600", "GENESIS_DELAY": "300",
	"GENESIS_FORK_VERSION": "0x00000001", "ALTAIR_FORK_VERSION": "0x01000001", "BELLATRIX_FORK_VERSION": "0x02000001", "CAPELLA_FORK_VERSION": "0x03000001", "DENEB_FORK_VERSION": "0x04000001", "ELECTRA_FORK_VERSION": "0x05000001", "FULU_FORK_VERSION": "0x06000001",
	"ALTAIR_FORK_EPOCH": "18446744073709551615", "BELLATRIX_FORK_EPOCH": "18446744073709551615", "CAPELLA_FORK_EPOCH": "18446744073709551615", "DENEB_FORK_EPOCH": "18446744073709551615", "ELECTRA_FORK_EPOCH": "18446744073709551615", "FULU_FORK_EPOCH": "18446744073709551615",
	"SECONDS_PER_SLOT": "6", "SHARD_COMMITTEE_PERIOD": "64", "ETH1_FOLLOW_DISTANCE": "16", "MIN_PER_EPOCH_CHURN_LIMIT": "2", "CHURN_LIMIT_QUOTIENT": "32", "MAX_PER_EPOCH_ACTIVATION_CHURN_LIMIT": "4",
	"DEPOSIT_CHAIN_ID": "5", "DEPOSIT_NETWORK_ID": "5", "DEPOSIT_CONTRACT_ADDRESS": "0x1234567890123456789012345678901234567890",
	"MIN_EPOCHS_FOR_BLOCK_REQUESTS": "272", "MIN_PER_EPOCH_CHURN_LIMIT_ELECTRA": "64000000000", "MAX_PER_EPOCH_ACTIVATION_EXIT_CHURN_LIMIT": "128000000000",
}

// c14SpecOptions: the public way to obtain a configuration by name (configs.SpecOptions.Spec) hands out copies: the result carries the
// named parts' published constants, and whatever the caller does to it leaves the built-in configurations as published.
func c14SpecOptions(b *fw.B) {
	names := []string{"mainnet", "minimal"}
	builtin := map[string]*common.Spec{"mainnet": configs.Mainnet, "minimal": configs.Minimal}
	pinned := map[string]map[string]string{"mainnet": {}, "minimal": {}}
	for k, v := range c14Common {
		pinned["mainnet"][k], pinned["minimal"][k] = v, v
	}
	for k, v := range c14Mainnet {
		pinned["mainnet"][k] = v
	}
	for k, v := range c14Minimal {
		pinned["minimal"][k] = v
	}
	keysOf := func(part any) []string {
		data, _ := json.Marshal(part)
		var m map[string]any
		json.Unmarshal(data, &m)
		var out []string
		for k := range m {
			out = append(out, k)
		}
		sort.Strings(out)
		return out
	}
	for n := 0; n < 6; n++ {
		pick := func() string { return names[b.Rng.IntN(2)] }
		o := configs.SpecOptions{LegacyConfig: pick(), LegacyConfigChanged: b.Rng.IntN(3) != 0, Config: pick(), Phase0Preset: pick(), AltairPreset: pick(),
			BellatrixPreset: pick(), CapellaPreset: pick(), DenebPreset: pick(), ElectraPreset: pick()}
		b.Case("spec-options", fmt.Sprintf("%+v", o))
		var res *common.Spec
		var err error
		if !b.NoPanic("spec-options/panic", func() { res, err = o.Spec() }) {
			return
		}
		if err != nil || res == nil {
			b.Violate("spec-options/error", fmt.Sprintf("SpecOptions%+v.Spec() failed: %v", o, err), nil)
			return
		}
		if res == configs.Mainnet || res == configs.Minimal {
			b.Violate("spec-options/hands-out-the-built-in", fmt.Sprintf("SpecOptions%+v.Spec() returned the built-in configuration itself, not a copy", o), nil)
			return
		}
		data, _ := json.Marshal(res)
		var got map[string]any
		json.Unmarshal(data, &got)
		parts := []struct {
			name string
			keys []string
		}{
			{o.Config, keysOf(&builtin[o.Config].Config)}, {o.Phase0Preset, keysOf(&builtin[o.Phase0Preset].Phase0Preset)}, {o.AltairPreset, keysOf(&builtin[o.AltairPreset].AltairPreset)},
			{o.BellatrixPreset, keysOf(&builtin[o.BellatrixPreset].BellatrixPreset)}, {o.CapellaPreset, keysOf(&builtin[o.CapellaPreset].CapellaPreset)},
			{o.DenebPreset, keysOf(&builtin[o.DenebPreset].DenebPreset)}, {o.ElectraPreset, keysOf(&builtin[o.ElectraPreset].ElectraPreset)},
		}
		for _, part := range parts {
			for _, k := range part.keys {
				want, ok := pinned[part.name][k]
				if !ok {
					continue
				}
				b.Inc("spec_options_constants_checked")
				if fmt.Sprint(got[k]) != want {
					b.Violate("spec-options/wrong/"+k, fmt.Sprintf("SpecOptions%+v.Spec() has %s=%v, the %s part publishes %s", o, k, got[k], part.name, want), nil)
					return
				}
			}
		}
		// the caller owns the result
		res.GENESIS_FORK_VERSION = common.Version{9, 9, 9, 9}
		res.ALTAIR_FORK_EPOCH, res.DENEB_FORK_EPOCH = 5, 6
		res.SLOTS_PER_EPOCH, res.SYNC_COMMITTEE_SIZE, res.MAX_BLOBS_PER_BLOCK = 7, 3, 1
		res.PRESET_BASE, res.CONFIG_NAME = "scribbled", "scribbled"
		res.MAX_WITHDRAWALS_PER_PAYLOAD, res.INACTIVITY_PENALTY_QUOTIENT_BELLATRIX = 1, 1
		b.Inc("spec_options_results_scribbled_on")
		b.Nontrivial("spec-options", fmt.Sprintf("%+v", o))
	}
}

func c14Constants(b *fw.B) {
	check := func(name string, spec *common.Spec, specific map[string]string) {
		data, err := json.Marshal(spec)
		if err != nil {
			b.Violate("constants/marshal", fmt.Sprint(err), nil)
			return
		}
		var got map[string]any
		json.Unmarshal(data, &got)
		pinned := map[string]string{}
		for k, v := range c14Common {
			pinned[k] = v
		}
		for k, v := range specific {
			pinned[k] = v
		}
		for k, want := range pinned {
			b.Case("constant", name+"."+k)
			b.Inc("constants_checked")
			b.Nontrivial("const", name, k)
			g, ok := got[k]
			if !ok {
				b.Violate("constants/missing/"+name+"."+k, fmt.Sprintf("%s configuration has no %s", name, k), nil)
				continue
			}
			if fmt.Sprint(g) != want {
				b.Violate("constants/wrong/"+name+"."+k, fmt.Sprintf("built-in %s configuration has %s=%v, the specification publishes %s", name, k, g, want), nil)
			}
		}
		n := 0
		for k := range got {
			if _, ok := pinned[k]; !ok {
				n++
				b.SetAdd("constants_not_pinned", k)
			}
		}
	}
	check("mainnet", configs.Mainnet, c14Mainnet)
	check("minimal", configs.Minimal, c14Minimal)
	// spec-level constants compiled into the library
	type kv struct {
		name string
		got  any
		want any
	}
	for _, c := range []kv{
		{"DOMAIN_BEACON_PROPOSER", common.DOMAIN_BEACON_PROPOSER, common.BLSDomainType{0, 0, 0, 0}},
		{"DOMAIN_BEACON_ATTESTER", common.DOMAIN_BEACON_ATTESTER, common.BLSDomainType{1, 0, 0, 0}},
		{"DOMAIN_RANDAO", common.DOMAIN_RANDAO, common.BLSDomainType{2, 0, 0, 0}},
		{"DOMAIN_DEPOSIT", common.DOMAIN_DEPOSIT, common.BLSDomainType{3, 0, 0, 0}},
		{"DOMAIN_VOLUNTARY_EXIT", common.DOMAIN_VOLUNTARY_EXIT, common.BLSDomainType{4, 0, 0, 0}},
		{"DOMAIN_SELECTION_PROOF", common.DOMAIN_SELECTION_PROOF, common.BLSDomainType{5, 0, 0, 0}},
		{"DOMAIN_AGGREGATE_AND_PROOF", common.DOMAIN_AGGREGATE_AND_PROOF, common.BLSDomainType{6, 0, 0, 0}},
		{"DOMAIN_SYNC_COMMITTEE", common.DOMAIN_SYNC_COMMITTEE, common.BLSDomainType{7, 0, 0, 0}},
		{"DOMAIN_SYNC_COMMITTEE_SELECTION_PROOF", common.DOMAIN_SYNC_COMMITTEE_SELECTION_PROOF, common.BLSDomainType{8, 0, 0, 0}},
		{"DOMAIN_CONTRIBUTION_AND_PROOF", common.DOMAIN_CONTRIBUTION_AND_PROOF, common.BLSDomainType{9, 0, 0, 0}},
		{"DOMAIN_BLS_TO_EXECUTION_CHANGE", common.DOMAIN_BLS_TO_EXECUTION_CHANGE, common.BLSDomainType{10, 0, 0, 0}},
		{"FAR_FUTURE_EPOCH", uint64(common.FAR_FUTURE_EPOCH), ^uint64(0)},
		{"BASE_REWARDS_PER_EPOCH", int(common.BASE_REWARDS_PER_EPOCH), 4},
		{"DEPOSIT_CONTRACT_TREE_DEPTH", int(common.DEPOSIT_CONTRACT_TREE_DEPTH), 32},
		{"JUSTIFICATION_BITS_LENGTH", int(common.JUSTIFICATION_BITS_LENGTH), 4},
		{"TARGET_AGGREGATORS_PER_COMMITTEE", int(common.TARGET_AGGREGATORS_PER_COMMITTEE), 16},
		{"BLS_WITHDRAWAL_PREFIX", int(common.BLS_WITHDRAWAL_PREFIX), 0},
		{"ETH1_ADDRESS_WITHDRAWAL_PREFIX", int(common.ETH1_ADDRESS_WITHDRAWAL_PREFIX), 1},
		{"SYNC_COMMITTEE_SUBNET_COUNT", int(common.SYNC_COMMITTEE_SUBNET_COUNT), 4},
		{"TARGET_AGGREGATORS_PER_SYNC_SUBCOMMITTEE", int(common.TARGET_AGGREGATORS_PER_SYNC_SUBCOMMITTEE), 16},
		{"GENESIS_SLOT", uint64(common.GENESIS_SLOT), uint64(0)},
		{"GENESIS_EPOCH", uint64(common.GENESIS_EPOCH), uint64(0)},
		{"TIMELY_SOURCE_WEIGHT", int(altair.TIMELY_SOURCE_WEIGHT), 14},
		{"TIMELY_TARGET_WEIGHT", int(altair.TIMELY_TARGET_WEIGHT), 26},
		{"TIMELY_HEAD_WEIGHT", int(altair.TIMELY_HEAD_WEIGHT), 14},
		{"SYNC_REWARD_WEIGHT", int(altair.SYNC_REWARD_WEIGHT), 2},
		{"PROPOSER_WEIGHT", int(altair.PROPOSER_WEIGHT), 8},
		{"WEIGHT_DENOMINATOR", int(altair.WEIGHT_DENOMINATOR), 64},
	} {
		b.Case("constant", c.name)
		b.Inc("constants_checked")
		if !reflect.DeepEqual(c.got, c.want) {
			b.Violate("constants/wrong/"+c.name, fmt.Sprintf("library constant %s=%v, the specification says %v", c.name, c.got, c.want), nil)
		}
	}
}
