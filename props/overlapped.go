package props

import (
	"fmt"
	"runtime"
	"sync"
)

// overlapped calls fn(w, i) for i in [0,iters) on each of `workers` goroutines that are released together, so that calls of a pure
// function on independent arguments overlap in time. It returns the first complaint of each worker (a panic counts as one).
// The arguments of different workers must not share mutable data: what is judged is that calls that have nothing to do with each
// other give the answers they give alone (state kept by the library between or during calls is the only thing they can share).
func overlapped(workers, iters int, fn func(w, i int) string) []string {
	if runtime.GOMAXPROCS(0) < workers {
		defer runtime.GOMAXPROCS(runtime.GOMAXPROCS(workers))
	}
	var wg sync.WaitGroup
	start := make(chan struct{})
	out := make([]string, workers)
	for w := 0; w < workers; w++ {
		wg.Add(1)
		go func(w int) {
			defer wg.Done()
			defer func() {
				if r := recover(); r != nil && out[w] == "" {
					out[w] = fmt.Sprintf("panic: %v", r)
				}
			}()
			<-start
			for i := 0; i < iters; i++ {
				if msg := fn(w, i); msg != "" {
					out[w] = msg
					return
				}
			}
		}(w)
	}
	close(start)
	wg.Wait()
	var msgs []string
	for _, m := range out {
		if m != "" {
			msgs = append(msgs, m)
		}
	}
	return msgs
}
