package props

import (
	"crypto/sha256"
	"encoding/binary"
	"fmt"

	"github.com/protolambda/zrnt/eth2/beacon/common"

	"verif/fw"
)

// C06 — list shuffling is the spec's swap-or-not permutation and is invertible.
// Oracle: naive per-index compute_shuffled_index written here over crypto/sha256.

func init() {
	fw.Register(&fw.Prop{
		ID:    "C06",
		Level: "exploration",
		Rule: "every list size n in 0..N (quick N=600, thorough N=2100) plus sizes around 4096/65536 (and 3 random sizes <=200000 in thorough) x rounds in {0,1,2,3,9,10,89,90,91,255} x seeds; " +
			"lists of distinct non-identity tokens; whole-list UnshuffleList/ShuffleList compared element-wise with the per-index spec function, PermuteIndex/UnpermuteIndex compared per index " +
			"(all indices for n<=300, sampled above); up to 12 retained cases per batch are shuffled and unshuffled again on 8 goroutines at the same time, each on its own copy. A case is one (n, rounds, seed); non-trivial when n>=2 and rounds>=1; distinct by (n, rounds, seed)",
		Assumptions: []string{"crypto/sha256 correct", "the reference compute_shuffled_index below is a faithful transcription of the phase0 spec function (its bijectivity is asserted on every case)",
			"per-index functions are only called with index < list size (list size >= 1), their documented domain"},
		Batches:  func(tier string) int { return 16 },
		Run:      runC06,
		Required: []string{"pivot_eq_0", "pivot_eq_n_minus_1", "pivot_mod256_eq_0", "pivot_mod256_eq_255", "size_multiple_of_256", "size_0", "size_1", "elements_compared", "overlapping_whole_list_calls"},
	})
}

type shuffleOracle struct {
	seed   [32]byte
	n      uint64
	rounds int
	pivots []uint64
	cache  map[uint64][32]byte // (round<<32 | position/256) -> source hash
}

func newShuffleOracle(seed [32]byte, n uint64, rounds int) *shuffleOracle {
	o := &shuffleOracle{seed: seed, n: n, rounds: rounds, cache: map[uint64][32]byte{}}
	for r := 0; r < rounds; r++ {
		var buf [33]byte
		copy(buf[:32], seed[:])
		buf[32] = byte(r)
		h := sha256.Sum256(buf[:])
		if n > 0 {
			o.pivots = append(o.pivots, binary.LittleEndian.Uint64(h[:8])%n)
		}
	}
	return o
}

// csi is compute_shuffled_index(index, n, seed) with SHUFFLE_ROUND_COUNT = rounds.
func (o *shuffleOracle) csi(index uint64) uint64 {
	for r := 0; r < o.rounds; r++ {
		pivot := o.pivots[r]
		flip := (pivot + o.n - index) % o.n
		position := index
		if flip > position {
			position = flip
		}
		key := uint64(r)<<32 | position/256
		src, ok := o.cache[key]
		if !ok {
			var buf [37]byte
			copy(buf[:32], o.seed[:])
			buf[32] = byte(r)
			binary.LittleEndian.PutUint32(buf[33:], uint32(position/256))
			src = sha256.Sum256(buf[:])
			o.cache[key] = src
		}
		byt := src[(position%256)/8]
		if (byt>>(position%8))%2 == 1 {
			index = flip
		}
	}
	return index
}

func runC06(b *fw.B) {
	quick := fw.Quick(b.Tier)
	N := 600
	nSeeds := 2
	if !quick {
		N = 2100
		nSeeds = 6
	}
	roundsSet := []int{0, 1, 2, 3, 9, 10, 89, 90, 91, 255}
	var sizes []uint64
	for n := 0; n <= N; n++ {
		sizes = append(sizes, uint64(n))
	}
	sizes = append(sizes, 4095, 4096, 4097, 65535, 65536, 65537)
	if !quick {
		rr := fw.NewRng(b.Seed, "C06-big")
		for i := 0; i < 3; i++ {
			sizes = append(sizes, 70000+uint64(rr.IntN(130000)))
		}
	}
	// seeds shared across batches
	sr := fw.NewRng(b.Seed, "C06-seeds")
	seeds := make([][32]byte, nSeeds)
	for i := range seeds {
		for j := 0; j < 32; j++ {
			seeds[i][j] = byte(sr.Uint32())
		}
	}
	sampled := false
	// Loop order: one seed is used for all sizes and round counts of the batch before the next seed comes, so that consecutive cases
	// share the seed and differ in size or rounds (anything remembered per seed across calls would answer for the wrong size).
	type c06case struct {
		n      uint64
		rounds int
		sIdx   int
	}
	var cases []c06case
	for sIdx := range seeds {
		for si, n := range sizes {
			if si%16 != b.Batch {
				continue
			}
			for _, rounds := range roundsSet {
				if n > 5000 && (rounds != 10 && rounds != 90 && rounds != 255 || sIdx > 0) {
					continue
				}
				cases = append(cases, c06case{n, rounds, sIdx})
			}
		}
	}
	type c06kept struct {
		n      uint64
		rounds int
		seed   [32]byte
		in     []common.ValidatorIndex
		perm   []uint64
	}
	var kept []c06kept
	defer func() {
		// The same whole-list calls again, overlapping in time: 8 goroutines, each on lists of its own. The functions are pure, so every
		// call must still give the spec's permutation (anything the library keeps between or during calls would be shared here).
		if len(kept) == 0 {
			return
		}
		b.Case("shuffle-overlapped", fmt.Sprintf("%d retained cases on 8 goroutines", len(kept)))
		msgs := overlapped(8, 3*len(kept), func(w, i int) string {
			k := kept[(w+i)%len(kept)]
			var seedRoot common.Root = k.seed
			un := append([]common.ValidatorIndex{}, k.in...)
			common.UnshuffleList(uint8(k.rounds), un, seedRoot)
			sh := append([]common.ValidatorIndex{}, k.in...)
			common.ShuffleList(uint8(k.rounds), sh, seedRoot)
			for j := uint64(0); j < k.n; j++ {
				if un[j] != k.in[k.perm[j]] {
					return fmt.Sprintf("n=%d rounds=%d seed=%x: UnshuffleList(list)[%d] is not list[compute_shuffled_index(%d)] when other lists are shuffled at the same time", k.n, k.rounds, k.seed[:8], j, j)
				}
				if sh[k.perm[j]] != k.in[j] {
					return fmt.Sprintf("n=%d rounds=%d seed=%x: ShuffleList(list)[compute_shuffled_index(%d)] is not list[%d] when other lists are shuffled at the same time", k.n, k.rounds, k.seed[:8], j, j)
				}
			}
			return ""
		})
		b.Count("overlapping_whole_list_calls", int64(8*3*len(kept)*2))
		for _, m := range msgs {
			b.Violate("overlapping-calls/mismatch", m, nil)
		}
	}()
	for _, cs := range cases {
		{
			{
				n, rounds, seed := cs.n, cs.rounds, seeds[cs.sIdx]
				b.Case("shuffle", fmt.Sprintf("n=%d rounds=%d seed=%x", n, rounds, seed[:8]))
				if n >= 2 && rounds >= 1 {
					b.Nontrivial(n, rounds, seed[:])
				}
				o := newShuffleOracle(seed, n, rounds)
				b.CountIf(n == 0, "size_0")
				b.CountIf(n == 1, "size_1")
				b.CountIf(n > 0 && n%256 == 0, "size_multiple_of_256")
				b.CountIf(n%8 != 0, "size_not_multiple_of_8")
				for _, p := range o.pivots {
					if n < 3 {
						break
					}
					b.CountIf(p == 0, "pivot_eq_0")
					b.CountIf(p == n-1, "pivot_eq_n_minus_1")
					b.CountIf(p%256 == 0, "pivot_mod256_eq_0")
					b.CountIf(p%256 == 255, "pivot_mod256_eq_255")
				}
				// input tokens: distinct, non-identity
				in := make([]common.ValidatorIndex, n)
				for i := range in {
					in[i] = common.ValidatorIndex(uint64(i)*7919 + 1000003)
				}
				// reference permutation and its bijectivity
				perm := make([]uint64, n)
				seen := make([]bool, n)
				oracleOK := true
				for i := uint64(0); i < n; i++ {
					perm[i] = o.csi(i)
					if perm[i] >= n || seen[perm[i]] {
						oracleOK = false
					}
					if perm[i] < n {
						seen[perm[i]] = true
					}
				}
				if !oracleOK {
					b.Note("oracle not bijective for n=%d rounds=%d (harness bug)", n, rounds)
					b.Inc("oracle_bug")
					continue
				}
				if n >= 64 && n <= 5000 && rounds >= 9 && rounds <= 91 && len(kept) < 12 && (len(kept) == 0 || kept[len(kept)-1].n != n) {
					kept = append(kept, c06kept{n, rounds, seed, in, perm})
				}
				var seedRoot common.Root = seed
				// UnshuffleList: out[i] == in[csi(i)]
				un := append([]common.ValidatorIndex{}, in...)
				if !b.NoPanic("UnshuffleList/panic", func() { common.UnshuffleList(uint8(rounds), un, seedRoot) }) {
					continue
				}
				for i := uint64(0); i < n; i++ {
					if un[i] != in[perm[i]] {
						b.Violate("UnshuffleList/mismatch", fmt.Sprintf("n=%d rounds=%d seed=%x: UnshuffleList(list)[%d]=%d, spec compute_shuffled_index(%d)=%d so expected list[%d]=%d",
							n, rounds, seed, i, un[i], i, perm[i], perm[i], in[perm[i]]), nil)
						break
					}
				}
				b.Count("elements_compared", int64(n))
				// ShuffleList: out[csi(i)] == in[i]
				sh := append([]common.ValidatorIndex{}, in...)
				if !b.NoPanic("ShuffleList/panic", func() { common.ShuffleList(uint8(rounds), sh, seedRoot) }) {
					continue
				}
				for i := uint64(0); i < n; i++ {
					if sh[perm[i]] != in[i] {
						b.Violate("ShuffleList/mismatch", fmt.Sprintf("n=%d rounds=%d seed=%x: ShuffleList(list)[%d]=%d, expected list[%d]=%d (inverse of the spec permutation)",
							n, rounds, seed, perm[i], sh[perm[i]], i, in[i]), nil)
						break
					}
				}
				// round trips
				rt := append([]common.ValidatorIndex{}, un...)
				common.ShuffleList(uint8(rounds), rt, seedRoot)
				rt2 := append([]common.ValidatorIndex{}, sh...)
				common.UnshuffleList(uint8(rounds), rt2, seedRoot)
				for i := uint64(0); i < n; i++ {
					if rt[i] != in[i] || rt2[i] != in[i] {
						b.Violate("roundtrip/mismatch", fmt.Sprintf("n=%d rounds=%d: Shuffle(Unshuffle(l)) or Unshuffle(Shuffle(l)) differs from l at %d", n, rounds, i), nil)
						break
					}
				}
				// permutation property of outputs (no element lost or duplicated)
				for _, out := range [][]common.ValidatorIndex{un, sh} {
					cnt := map[common.ValidatorIndex]int{}
					for _, v := range out {
						cnt[v]++
					}
					okp := len(cnt) == int(n)
					for _, v := range in {
						if cnt[v] != 1 {
							okp = false
						}
					}
					if !okp {
						b.Violate("not-a-permutation", fmt.Sprintf("n=%d rounds=%d: output is not a permutation of the input", n, rounds), nil)
					}
				}
				// per-index functions
				if n >= 1 {
					step := uint64(1)
					if n > 300 {
						step = n/97 + 1
					}
					for i := uint64(0); i < n; i += step {
						var p, u, pu, up common.ValidatorIndex
						if !b.NoPanic("PermuteIndex/panic", func() {
							p = common.PermuteIndex(uint8(rounds), common.ValidatorIndex(i), n, seedRoot)
							u = common.UnpermuteIndex(uint8(rounds), common.ValidatorIndex(i), n, seedRoot)
							if uint64(p) < n {
								pu = common.UnpermuteIndex(uint8(rounds), p, n, seedRoot)
							}
							if uint64(u) < n {
								up = common.PermuteIndex(uint8(rounds), u, n, seedRoot)
							}
						}) {
							break
						}
						if uint64(p) != perm[i] {
							b.Violate("PermuteIndex/mismatch", fmt.Sprintf("n=%d rounds=%d seed=%x: PermuteIndex(%d)=%d, spec says %d", n, rounds, seed, i, p, perm[i]), nil)
							break
						}
						if uint64(u) >= n || perm[u] != i {
							b.Violate("UnpermuteIndex/mismatch", fmt.Sprintf("n=%d rounds=%d seed=%x: UnpermuteIndex(%d)=%d is not the spec pre-image", n, rounds, seed, i, u), nil)
							break
						}
						if uint64(pu) != i || uint64(up) != i {
							b.Violate("permute-unpermute/not-inverse", fmt.Sprintf("n=%d rounds=%d: Unpermute(Permute(%d))=%d, Permute(Unpermute(%d))=%d", n, rounds, i, pu, i, up), nil)
							break
						}
						b.Inc("indices_compared")
					}
				}
				if !sampled && n >= 5 && rounds == 10 {
					sampled = true
					k := n
					if k > 12 {
						k = 12
					}
					b.Sample(map[string]any{"n": n, "rounds": rounds, "seed": fmt.Sprintf("%x", seed), "spec_permutation_prefix": perm[:k], "pivots": o.pivots})
				}
			}
		}
	}
}
