package props

import (
	"bytes"
	"encoding/binary"
	"encoding/json"
	"fmt"
	"math/rand/v2"
	"reflect"
	"strconv"
	"strings"
	"time"

	"github.com/protolambda/zrnt/eth2/beacon/common"
	"github.com/protolambda/zrnt/eth2/configs"
	"github.com/protolambda/ztyp/codec"
	"github.com/protolambda/ztyp/tree"
	"github.com/protolambda/ztyp/view"
	"gopkg.in/yaml.v3"

	"verif/fw"
	rs "verif/refssz"
	"verif/schemas"
)

// C04 — SSZ encoding of every type round-trips and agrees with its declared lengths.
// C05 — hash-tree-roots agree across struct form, tree-view form and the SSZ spec (corpus part).

type sszObj struct {
	spec *common.Spec
	obj  any
}

func (o sszObj) deserialize(data []byte) error {
	dr := codec.NewDecodingReader(bytes.NewReader(data), uint64(len(data)))
	switch x := o.obj.(type) {
	case common.SpecObj:
		return x.Deserialize(o.spec, dr)
	case common.SSZObj:
		return x.Deserialize(dr)
	case mixedObj:
		return x.Deserialize(o.spec, dr)
	}
	return fmt.Errorf("type %T is neither SpecObj nor SSZObj", o.obj)
}

func (o sszObj) serialize() ([]byte, error) {
	var buf bytes.Buffer
	w := codec.NewEncodingWriter(&buf)
	var err error
	switch x := o.obj.(type) {
	case common.SpecObj:
		err = x.Serialize(o.spec, w)
	case common.SSZObj:
		err = x.Serialize(w)
	case mixedObj:
		err = x.Serialize(o.spec, w)
	default:
		return nil, fmt.Errorf("type %T is neither SpecObj nor SSZObj", o.obj)
	}
	return buf.Bytes(), err
}

// mixedObj: spec-parametrised codec methods but a spec-less FixedLength (phase0.RegistryIndices)
type mixedObj interface {
	Deserialize(spec *common.Spec, dr *codec.DecodingReader) error
	Serialize(spec *common.Spec, w *codec.EncodingWriter) error
	ByteLength(spec *common.Spec) uint64
	FixedLength() uint64
	HashTreeRoot(spec *common.Spec, h tree.HashFn) common.Root
}

func (o sszObj) lengths() (byteLen, fixedLen uint64) {
	switch x := o.obj.(type) {
	case common.SpecObj:
		return x.ByteLength(o.spec), x.FixedLength(o.spec)
	case common.SSZObj:
		return x.ByteLength(), x.FixedLength()
	case mixedObj:
		return x.ByteLength(o.spec), x.FixedLength()
	}
	return 0, 0
}

func (o sszObj) root() common.Root {
	hFn := tree.GetHashFn()
	switch x := o.obj.(type) {
	case common.SpecObj:
		return x.HashTreeRoot(o.spec, hFn)
	case common.SSZObj:
		return x.HashTreeRoot(hFn)
	case mixedObj:
		return x.HashTreeRoot(o.spec, hFn)
	}
	return common.Root{}
}

// customPreset draws a small preset inside the structural constraints of the spec, so that limits are materialisable.
func customPreset(rng *rand.Rand) *common.Spec {
	s := *configs.Minimal
	pick := func(xs ...uint64) view.Uint64View { return view.Uint64View(xs[rng.IntN(len(xs))]) }
	s.SLOTS_PER_EPOCH = common.Slot(pick(4, 6, 8))
	s.MAX_VALIDATORS_PER_COMMITTEE = pick(8, 16, 33)
	s.MAX_COMMITTEES_PER_SLOT = pick(2, 3, 4, 9)
	s.SLOTS_PER_HISTORICAL_ROOT = s.SLOTS_PER_EPOCH * common.Slot(pick(1, 2, 4))
	s.EPOCHS_PER_HISTORICAL_VECTOR = common.Epoch(pick(8, 16, 33))
	s.EPOCHS_PER_SLASHINGS_VECTOR = common.Epoch(pick(4, 8, 9))
	s.EPOCHS_PER_ETH1_VOTING_PERIOD = common.Epoch(pick(1, 2, 3))
	s.HISTORICAL_ROOTS_LIMIT = pick(4, 16, 40)
	s.VALIDATOR_REGISTRY_LIMIT = pick(16, 40, 100)
	s.MAX_PROPOSER_SLASHINGS = pick(1, 2, 5)
	s.MAX_ATTESTER_SLASHINGS = pick(1, 2, 3)
	s.MAX_ATTESTATIONS = pick(2, 4, 9)
	s.MAX_DEPOSITS = pick(1, 3, 4)
	s.MAX_VOLUNTARY_EXITS = pick(1, 2, 5)
	s.SYNC_COMMITTEE_SIZE = pick(8, 16, 32, 64)
	// BYTES_PER_LOGS_BLOOM and MAX_EXTRA_DATA_BYTES are compile-time constants of the library's types (and equal in
	// every published preset): they are not varied
	s.MAX_BYTES_PER_TRANSACTION = pick(16, 64, 100)
	s.MAX_TRANSACTIONS_PER_PAYLOAD = pick(1, 4, 9)
	s.MAX_BLS_TO_EXECUTION_CHANGES = pick(1, 3, 6)
	s.MAX_WITHDRAWALS_PER_PAYLOAD = pick(2, 5, 7)
	s.MAX_BLOB_COMMITMENTS_PER_BLOCK = pick(2, 6, 9)
	s.MAX_ATTESTER_SLASHINGS_ELECTRA = pick(1, 2)
	s.MAX_ATTESTATIONS_ELECTRA = pick(2, 3, 8)
	s.MAX_DEPOSIT_REQUESTS_PER_PAYLOAD = pick(2, 5)
	s.MAX_WITHDRAWAL_REQUESTS_PER_PAYLOAD = pick(1, 3)
	s.MAX_CONSOLIDATION_REQUESTS_PER_PAYLOAD = pick(1, 2, 4)
	s.PENDING_DEPOSITS_LIMIT = pick(4, 9, 64)
	s.PENDING_PARTIAL_WITHDRAWALS_LIMIT = pick(3, 8, 32)
	s.PENDING_CONSOLIDATIONS_LIMIT = pick(2, 7, 16)
	return &s
}

func init() {
	fw.Register(&fw.Prop{
		ID:    "C04",
		Level: "exploration",
		Rule: "every registry type (all exported SSZ types of common/phase0/altair/bellatrix/capella/deneb/electra incl. p2p containers; a go/parser scan of /repo reports types missing from the registry) x {mainnet, minimal, 3 random small custom presets} x random values with discriminating content " +
			"(boundary-biased list lengths; every field a different random pattern): reference bytes must decode, re-serialize identically, ByteLength == bytes written, FixedLength == schema fixed size (0 if variable), JSON and YAML round-trip to the same bytes; " +
			"malformed variants (truncation, a list/bitlist/byte-list beyond its limit, offset surgery) that the strict reference decoder refuses must be refused. A case is one (type, preset, value or malformed variant); non-trivial when the value has a non-empty variable part or the type is a container; distinct by (type, preset, bytes hash)",
		Assumptions:  []string{"reference codec (refssz) and schemas (schemas/) written for this harness from the SSZ and consensus specs; crypto/sha256", "only the three malformation classes the statement names are demanded to be refused; stricter SSZ rules (padding bits, boolean range) are observed, not judged"},
		Batches:      func(tier string) int { return 16 },
		ChildTimeout: func(string) time.Duration { return 40 * time.Minute },
		Run:          func(b *fw.B) { runCorpus(b, false) },
		Finish:       finishRegistryScan,
		Required:     []string{"roundtrips", "json_roundtrips", "yaml_roundtrips", "malformed_truncated_refused", "malformed_overlimit_refused", "malformed_offsets_refused", "types_exercised"},
	})
	fw.Register(&fw.Prop{
		ID:    "C05",
		Level: "exploration",
		Rule: "(a) the C04 value corpus: struct HashTreeRoot, tree-view root (T.Type(spec).Deserialize(bytes)) and the reference merkleization of the spec schema must be identical for every registry type, preset and value; " +
			"(b) staleness: along simulator chains, after every slot and block, the live tree-backed state's root must equal the root of a state rebuilt from its own serialized bytes (fresh view and reference merkleization) — covers hand-built backings, upgrades and whole-subtree replacement; " +
			"(c) random accessor programs on states and structure-sharing copies (from the C15 machinery): root after every step equals the rebuilt root. A case is one (type, preset, value) or one chain step; non-trivial when the value is a container or list; distinct by (type, preset, bytes hash)",
		Assumptions:  []string{"reference merkleization (refssz) over crypto/sha256 with spec schemas from schemas/", "ztyp's tree cache is a dependency: exercised through zrnt, not the subject"},
		Batches:      func(tier string) int { return 16 },
		ChildTimeout: func(string) time.Duration { return 40 * time.Minute },
		Run: func(b *fw.B) {
			runCorpus(b, true)
			runC05Staleness(b)
			runAccessorPrograms(b, true)
		},
		Finish:   finishRegistryScan,
		Required: []string{"struct_roots_compared", "view_roots_compared", "types_exercised", "staleness_checks", "accessor_steps"},
	})
}

func runCorpus(b *fw.B, rootsOnly bool) {
	quick := fw.Quick(b.Tier)
	reg := schemas.Registry()
	n := 40
	if !quick {
		n = 600
	}
	presets := []struct {
		name string
		spec *common.Spec
	}{{"mainnet", configs.Mainnet}, {"minimal", configs.Minimal}}
	pr := fw.NewRng(b.Seed, "presets")
	for i := 0; i < 3; i++ {
		presets = append(presets, struct {
			name string
			spec *common.Spec
		}{fmt.Sprintf("custom%d", i), customPreset(pr)})
	}
	// values that were judged one by one are decoded, encoded and hashed again by 8 goroutines at the same time (each from the bytes,
	// into objects of its own): scratch space the library keeps between or during calls is the only thing such calls can share
	type keptValue struct {
		e      schemas.Entry
		preset string
		spec   *common.Spec
		enc    []byte
		root   common.Root
	}
	var keptValues []keptValue
	defer func() {
		if len(keptValues) == 0 {
			return
		}
		b.Case("overlapped", fmt.Sprintf("%d retained values on 8 goroutines", len(keptValues)))
		msgs := overlapped(8, len(keptValues), func(w, i int) string {
			k := keptValues[(w*5+i)%len(keptValues)]
			o := sszObj{k.spec, k.e.New()}
			if err := o.deserialize(k.enc); err != nil {
				return fmt.Sprintf("%s (%s preset): a canonical encoding is refused while other values are decoded at the same time: %v", k.e.Name, k.preset, err)
			}
			if rootsOnly {
				if r := o.root(); r != k.root {
					return fmt.Sprintf("%s (%s preset): HashTreeRoot gives %x while other values are hashed at the same time, %x alone", k.e.Name, k.preset, r[:6], k.root[:6])
				}
				return ""
			}
			out, err := o.serialize()
			if err != nil || !bytes.Equal(out, k.enc) {
				return fmt.Sprintf("%s (%s preset): decode then encode gives other bytes while other values are decoded and encoded at the same time (err %v)", k.e.Name, k.preset, err)
			}
			if bl, _ := o.lengths(); bl != uint64(len(k.enc)) {
				return fmt.Sprintf("%s (%s preset): ByteLength reports %d for %d bytes while other values are decoded and encoded at the same time", k.e.Name, k.preset, bl, len(k.enc))
			}
			data, err := json.Marshal(o.obj)
			if err != nil {
				return fmt.Sprintf("%s (%s preset): JSON marshalling fails while other values are marshalled at the same time: %v", k.e.Name, k.preset, err)
			}
			o2 := sszObj{k.spec, k.e.New()}
			if err := json.Unmarshal(data, o2.obj); err != nil {
				return fmt.Sprintf("%s (%s preset): JSON unmarshalling fails while other values are unmarshalled at the same time: %v", k.e.Name, k.preset, err)
			}
			if out2, err := o2.serialize(); err != nil || !bytes.Equal(out2, k.enc) {
				return fmt.Sprintf("%s (%s preset): the JSON form does not round-trip while other values make the same trip at the same time (err %v)", k.e.Name, k.preset, err)
			}
			return ""
		})
		b.Count("values_handled_while_others_are_handled", int64(8*len(keptValues)))
		for _, m := range msgs {
			b.Violate("overlapping-calls/"+firstWord(m), m, nil)
		}
	}()
	for ei, e := range reg {
		if ei%16 != b.Batch {
			continue
		}
		b.Inc("types_exercised")
		var used any // the object the previous case of this type was decoded into (possibly under another preset)
		for _, ps := range presets {
			S := schemas.New(ps.spec)
			sc := e.Schema(S)
			big := e.Name[len(e.Name)-11:] == "BeaconState" || (len(e.Name) > 12 && (e.Name[len(e.Name)-11:] == "RandaoMixes"))
			nn := n
			if big || ps.name == "mainnet" && !sc.IsFixed() {
				nn = n/8 + 2
			}
			if sc.IsFixed() && sc.Kind != rs.Container && sc.Kind != rs.Vector {
				nn = n/4 + 2
			}
			if rootsOnly {
				corpusZeroValue(b, e, ps.name, ps.spec, sc)
			}
			for k := 0; k < nn && !b.Stop(); k++ {
				budget := 3000
				if big {
					budget = 600
				}
				val := rs.Random(sc, b.Rng, &budget)
				if k == 0 {
					val = rs.Default(sc)
				}
				enc := rs.Encode(sc, val)
				b.Case("value", fmt.Sprintf("%s/%s #%d (%d bytes)", e.Name, ps.name, k, len(enc)))
				if sc.Kind == rs.Container || !sc.IsFixed() && len(enc) > 0 {
					b.Nontrivial(e.Name, ps.name, enc)
				}
				if k == 1 && ps.name == "minimal" && ei < 48 {
					b.Sample(map[string]any{"type": e.Name, "preset": ps.name, "ssz_hex": fmt.Sprintf("%x", enc[:min(len(enc), 120)]), "bytes": len(enc)})
				}
				o := sszObj{ps.spec, e.New()}
				var derr error
				if !b.NoPanic("decode/panic/"+e.Name, func() { derr = o.deserialize(enc) }) {
					break
				}
				if derr != nil {
					b.Violate("decode/refused-valid/"+e.Name, fmt.Sprintf("%s (%s preset): a canonical encoding (%d bytes, %x...) is refused: %v", e.Name, ps.name, len(enc), enc[:min(len(enc), 40)], derr), map[string]any{"ssz_hex": fmt.Sprintf("%x", enc)})
					break
				}
				if rootsOnly {
					corpusRoots(b, e, ps.name, ps.spec, sc, val, enc, o)
					if (k == 1 || k == 2) && len(enc) <= 60000 {
						b.NoPanic("root/panic/"+e.Name, func() { keptValues = append(keptValues, keptValue{e, ps.name, ps.spec, enc, o.root()}) })
					}
					continue
				}
				var out []byte
				var serr error
				if !b.NoPanic("encode/panic/"+e.Name, func() { out, serr = o.serialize() }) {
					break
				}
				if serr != nil || !bytes.Equal(out, enc) {
					d := rs.DiffBytes(sc, enc, out, 4)
					b.Violate("roundtrip/bytes-differ/"+e.Name, fmt.Sprintf("%s (%s preset): decode then encode gives other bytes (err %v): %v", e.Name, ps.name, serr, d), map[string]any{"ssz_hex": fmt.Sprintf("%x", enc)})
					break
				}
				b.Inc("roundtrips")
				bl, fl := o.lengths()
				if bl != uint64(len(enc)) {
					b.Violate("length/ByteLength/"+e.Name, fmt.Sprintf("%s (%s preset): ByteLength reports %d but %d bytes are written", e.Name, ps.name, bl, len(enc)), nil)
					break
				}
				wantFixed := uint64(0)
				if sc.IsFixed() {
					wantFixed = sc.FixedSize()
				}
				if fl != wantFixed {
					b.Violate("length/FixedLength/"+e.Name, fmt.Sprintf("%s (%s preset): FixedLength reports %d, the schema says %d (0 = variable size)", e.Name, ps.name, fl, wantFixed), nil)
					break
				}
				// decode once more, into an object that already holds another value of this type (objects are recycled as decode targets).
				// Fixed-size types only: their Deserialize overwrites the whole value. The list types of zrnt append to what the target
				// already holds (ztyp's dr.List callback pattern), i.e. they expect a fresh target; the property does not speak about that.
				if used != nil && !rootsOnly && sc.IsFixed() {
					ou := sszObj{ps.spec, used}
					var uerr error
					var uout []byte
					if !b.NoPanic("decode-into-used/panic/"+e.Name, func() {
						if uerr = ou.deserialize(enc); uerr == nil {
							uout, uerr = ou.serialize()
						}
					}) {
						break
					}
					if uerr != nil || !bytes.Equal(uout, enc) {
						b.Violate("roundtrip/into-used-object/"+e.Name, fmt.Sprintf("%s (%s preset): decoding into an object that held another value of the type, then encoding, gives other bytes (%d instead of %d, err %v): %v", e.Name, ps.name, len(uout), len(enc), uerr, rs.DiffBytes(sc, enc, uout, 4)), map[string]any{"ssz_hex": fmt.Sprintf("%x", enc[:min(len(enc), 4000)])})
						break
					}
					if ubl, _ := ou.lengths(); ubl != uint64(len(enc)) {
						b.Violate("length/ByteLength-of-used-object/"+e.Name, fmt.Sprintf("%s (%s preset): ByteLength of a recycled object reports %d but %d bytes are written", e.Name, ps.name, ubl, len(enc)), nil)
						break
					}
					b.Inc("roundtrips_into_used_objects")
				}
				used = o.obj
				// text forms
				corpusJSONMeaning(b, e, ps.name, sc, val, o)
				if !corpusText(b, e, ps.name, ps.spec, enc, o) {
					break
				}
				if (k == 1 || k == 2) && len(enc) <= 60000 {
					keptValues = append(keptValues, keptValue{e, ps.name, ps.spec, enc, common.Root{}})
				}
				// malformed variants
				if k%4 == 0 {
					corpusMalformed(b, e, ps.name, ps.spec, sc, val, enc)
				}
			}
		}
	}
}

func corpusRoots(b *fw.B, e schemas.Entry, preset string, spec *common.Spec, sc *rs.Schema, val *rs.Value, enc []byte, o sszObj) {
	want := rs.HashTreeRoot(sc, val)
	var got common.Root
	if !b.NoPanic("root/panic/"+e.Name, func() { got = o.root() }) {
		return
	}
	b.Inc("struct_roots_compared")
	if [32]byte(got) != want {
		b.Violate("root/struct/"+e.Name, fmt.Sprintf("%s (%s preset): struct HashTreeRoot %x differs from the SSZ merkleization of the schema %x (%d bytes: %x...)", e.Name, preset, got[:6], want[:6], len(enc), enc[:min(len(enc), 32)]), map[string]any{"ssz_hex": fmt.Sprintf("%x", enc[:min(len(enc), 4000)])})
		return
	}
	corpusConversions(b, e, preset, spec, want, enc, o)
	if e.ViewType == nil {
		return
	}
	var vroot common.Root
	var verr error
	if !b.NoPanic("root/view-panic/"+e.Name, func() {
		td := e.ViewType(spec)
		v, err := td.Deserialize(codec.NewDecodingReader(bytes.NewReader(enc), uint64(len(enc))))
		if err != nil {
			verr = err
			return
		}
		vroot = v.HashTreeRoot(tree.GetHashFn())
		// and the view must serialize back to the same bytes
		var buf bytes.Buffer
		if err := v.Serialize(codec.NewEncodingWriter(&buf)); err != nil || !bytes.Equal(buf.Bytes(), enc) {
			verr = fmt.Errorf("view serializes to other bytes (err %v)", err)
		}
	}) {
		return
	}
	if verr != nil {
		b.Violate("view/decode/"+e.Name, fmt.Sprintf("%s (%s preset): the tree-view type refuses or alters a canonical encoding: %v", e.Name, preset, verr), nil)
		return
	}
	b.Inc("view_roots_compared")
	if [32]byte(vroot) != want {
		b.Violate("root/view/"+e.Name, fmt.Sprintf("%s (%s preset): tree-view root %x differs from the SSZ merkleization of the schema %x", e.Name, preset, vroot[:6], want[:6]), nil)
	}
}

func corpusText(b *fw.B, e schemas.Entry, preset string, spec *common.Spec, enc []byte, o sszObj) bool {
	var jerr error
	var jout []byte
	textAltered := false
	if !b.NoPanic("json/panic/"+e.Name, func() {
		data, err := json.Marshal(o.obj)
		if err != nil {
			jerr = err
			return
		}
		o2 := sszObj{spec, e.New()}
		before := string(data)
		if err := json.Unmarshal(data, o2.obj); err != nil {
			jerr = fmt.Errorf("unmarshal: %v (json %s)", err, trunc(string(data), 200))
			return
		}
		// encoding/json hands text unmarshallers pieces of the caller's buffer: the text must still be what it was, and the
		// decoded value must not depend on what happens to the buffer afterwards
		textAltered = string(data) != before
		for i := range data {
			data[i] = 'f'
		}
		jout, jerr = o2.serialize()
	}) {
		return false
	}
	if textAltered {
		b.Violate("json/text-altered-by-decoding/"+e.Name, fmt.Sprintf("%s (%s preset): decoding the JSON text changed the caller's text buffer, the same text does not decode again", e.Name, preset), map[string]any{"ssz_hex": fmt.Sprintf("%x", enc[:min(len(enc), 2000)])})
		return false
	}
	if jerr != nil || !bytes.Equal(jout, enc) {
		b.Violate("json/roundtrip/"+e.Name, fmt.Sprintf("%s (%s preset): JSON form does not round-trip to the same value (judged after the text buffer was overwritten): %v", e.Name, preset, jerr), map[string]any{"ssz_hex": fmt.Sprintf("%x", enc[:min(len(enc), 2000)])})
		return false
	}
	b.Inc("json_roundtrips")
	// the same value held by value (not addressable): text marshallers with pointer receivers are invisible to encoding/json there
	if rv := reflect.ValueOf(o.obj); rv.Kind() == reflect.Ptr && !rv.IsNil() {
		var verr error
		var vout []byte
		if !b.NoPanic("json/panic/"+e.Name, func() {
			data, err := json.Marshal(rv.Elem().Interface())
			if err != nil {
				verr = err
				return
			}
			o2 := sszObj{spec, e.New()}
			if err := json.Unmarshal(data, o2.obj); err != nil {
				verr = fmt.Errorf("unmarshal: %v (json %s)", err, trunc(string(data), 200))
				return
			}
			vout, verr = o2.serialize()
		}) {
			return false
		}
		if verr != nil || !bytes.Equal(vout, enc) {
			b.Violate("json/roundtrip-by-value/"+e.Name, fmt.Sprintf("%s (%s preset): the JSON form of the value passed by value does not round-trip to the same value: %v", e.Name, preset, verr), map[string]any{"ssz_hex": fmt.Sprintf("%x", enc[:min(len(enc), 2000)])})
			return false
		}
		b.Inc("json_roundtrips_by_value")
	}
	var yerr error
	var yout []byte
	if !b.NoPanic("yaml/panic/"+e.Name, func() {
		data, err := yaml.Marshal(o.obj)
		if err != nil {
			yerr = err
			return
		}
		o2 := sszObj{spec, e.New()}
		if err := yaml.Unmarshal(data, o2.obj); err != nil {
			yerr = fmt.Errorf("unmarshal: %v (yaml %s)", err, trunc(string(data), 200))
			return
		}
		yout, yerr = o2.serialize()
	}) {
		return false
	}
	if yerr != nil || !bytes.Equal(yout, enc) {
		b.Violate("yaml/roundtrip/"+e.Name, fmt.Sprintf("%s (%s preset): YAML form does not round-trip to the same value: %v", e.Name, preset, yerr), map[string]any{"ssz_hex": fmt.Sprintf("%x", enc[:min(len(enc), 2000)])})
		return false
	}
	b.Inc("yaml_roundtrips")
	return true
}

func trunc(s string, n int) string {
	if len(s) > n {
		return s[:n] + "..."
	}
	return s
}

// overLimit returns a copy of val in which one list/bitlist/byte-list (chosen at random) holds limit+1 items; ok=false if none is materialisable.
func overLimit(sc *rs.Schema, val *rs.Value, rng *rand.Rand) (*rs.Value, bool) {
	type site struct {
		sc  *rs.Schema
		set func(*rs.Value)
	}
	var sites []func() bool
	var walk func(sc *rs.Schema, v *rs.Value)
	walk = func(sc *rs.Schema, v *rs.Value) {
		switch sc.Kind {
		case rs.List:
			if sc.Limit < 5000 {
				vv, ss := v, sc
				sites = append(sites, func() bool {
					for uint64(len(vv.Items)) <= ss.Limit {
						budget := 50
						vv.Items = append(vv.Items, rs.Random(ss.Elem, rng, &budget))
					}
					return true
				})
			}
			for _, it := range v.Items {
				walk(sc.Elem, it)
			}
		case rs.ByteList:
			if sc.Limit < 100000 {
				vv, ss := v, sc
				sites = append(sites, func() bool { vv.B = make([]byte, ss.Limit+1); return true })
			}
		case rs.Bitlist:
			if sc.Limit < 100000 {
				vv, ss := v, sc
				sites = append(sites, func() bool { vv.Bits = make([]bool, ss.Limit+1); vv.Bits[0] = true; return true })
			}
		case rs.Vector:
			for i, it := range v.Items {
				if i > 3 {
					break
				}
				walk(sc.Elem, it)
			}
		case rs.Container:
			for i, f := range sc.Fields {
				walk(f.S, v.Items[i])
			}
		}
	}
	cp := cloneValue(val)
	walk(sc, cp)
	if len(sites) == 0 {
		return nil, false
	}
	sites[rng.IntN(len(sites))]()
	return cp, true
}

func cloneValue(v *rs.Value) *rs.Value {
	c := &rs.Value{U: v.U, B: append([]byte(nil), v.B...), Bits: append([]bool(nil), v.Bits...)}
	if v.B != nil && c.B == nil {
		c.B = []byte{}
	}
	if v.Items != nil {
		c.Items = make([]*rs.Value, len(v.Items))
		for i, it := range v.Items {
			c.Items[i] = cloneValue(it)
		}
	}
	return c
}

func corpusMalformed(b *fw.B, e schemas.Entry, preset string, spec *common.Spec, sc *rs.Schema, val *rs.Value, enc []byte) {
	try := func(class string, data []byte) {
		_, refErr := rs.Decode(sc, data)
		o := sszObj{spec, e.New()}
		var derr error
		if !b.NoPanic("malformed/panic/"+e.Name, func() { derr = o.deserialize(data) }) {
			return
		}
		if refErr == nil {
			b.Inc("malformed_variant_still_valid")
			return
		}
		if derr == nil {
			// accepted: maybe it decodes to something that re-serializes differently
			b.Violate("malformed/"+class+"-accepted/"+e.Name, fmt.Sprintf("%s (%s preset): a %s encoding is accepted on decode (reference decoder: %v); bytes %x...", e.Name, preset, class, refErr, data[:min(len(data), 48)]), map[string]any{"ssz_hex": fmt.Sprintf("%x", data[:min(len(data), 4000)])})
			return
		}
		b.Inc("malformed_" + class + "_refused")
	}
	if len(enc) > 0 {
		cut := 1 + b.Rng.IntN(min(len(enc), 40))
		try("truncated", enc[:len(enc)-cut])
	}
	if ov, ok := overLimit(sc, val, b.Rng); ok {
		try("overlimit", rs.Encode(sc, ov))
	}
	// offset surgery: find 4-byte offsets in the fixed part of a variable-size container/list
	if !sc.IsFixed() && (sc.Kind == rs.Container || (sc.Kind == rs.List && !sc.Elem.IsFixed())) && len(enc) >= 4 {
		var offs []int
		if sc.Kind == rs.Container {
			pos := 0
			for _, f := range sc.Fields {
				if f.S.IsFixed() {
					pos += int(f.S.FixedSize())
				} else {
					offs = append(offs, pos)
					pos += 4
				}
			}
		} else if len(enc) >= 4 {
			first := int(binary.LittleEndian.Uint32(enc))
			for p := 0; p+4 <= first && p+4 <= len(enc); p += 4 {
				offs = append(offs, p)
			}
		}
		if len(offs) > 0 {
			p := offs[b.Rng.IntN(len(offs))]
			if p+4 <= len(enc) {
				data := append([]byte{}, enc...)
				old := binary.LittleEndian.Uint32(data[p:])
				var nw uint32
				switch b.Rng.IntN(4) {
				case 0:
					nw = old + 1 + uint32(b.Rng.IntN(8))
				case 1:
					nw = uint32(len(enc)) + 1 + uint32(b.Rng.IntN(100))
				case 2:
					if old > 0 {
						nw = old - 1 - uint32(b.Rng.IntN(int(min(old, 8))))
					}
				default:
					nw = 0xffffff00 + uint32(b.Rng.IntN(255))
				}
				binary.LittleEndian.PutUint32(data[p:], nw)
				try("offsets", data)
			}
		}
	}
}

// corpusConversions exercises the library's own conversions between the two representations:
// struct.View(...) must give a tree view with the same root and bytes, and view.Raw(...) must give back the same struct.
func corpusConversions(b *fw.B, e schemas.Entry, preset string, spec *common.Spec, want [32]byte, enc []byte, o sszObj) {
	specT := reflect.TypeOf(spec)
	call := func(recv reflect.Value, name string) (out []reflect.Value, ok bool) {
		m := recv.MethodByName(name)
		if !m.IsValid() {
			return nil, false
		}
		switch t := m.Type(); {
		case t.NumIn() == 0:
			return m.Call(nil), true
		case t.NumIn() == 1 && t.In(0) == specT:
			return m.Call([]reflect.Value{reflect.ValueOf(spec)}), true
		}
		return nil, false
	}
	var problem string
	var viewVal reflect.Value
	if !b.NoPanic("convert/View-panic/"+e.Name, func() {
		out, ok := call(reflect.ValueOf(o.obj), "View")
		if !ok || len(out) == 0 {
			return
		}
		if len(out) == 2 && !out[1].IsNil() {
			problem = fmt.Sprintf("View() returned an error: %v", out[1].Interface())
			return
		}
		v, isView := out[0].Interface().(view.View)
		if !isView || out[0].IsNil() {
			return
		}
		viewVal = out[0]
		b.Inc("struct_to_view_conversions")
		b.SetAdd("types_with_struct_to_view_conversion", e.Name)
		if r := v.HashTreeRoot(tree.GetHashFn()); [32]byte(r) != want {
			problem = fmt.Sprintf("the view made by View() has root %x, the SSZ merkleization of the value is %x", r[:6], want[:6])
			return
		}
		var buf bytes.Buffer
		if err := v.Serialize(codec.NewEncodingWriter(&buf)); err != nil || !bytes.Equal(buf.Bytes(), enc) {
			problem = fmt.Sprintf("the view made by View() serializes to other bytes (err %v)", err)
		}
	}) {
		return
	}
	if problem != "" {
		b.Violate("convert/View/"+e.Name, fmt.Sprintf("%s (%s preset): %s", e.Name, preset, problem), map[string]any{"ssz_hex": fmt.Sprintf("%x", enc[:min(len(enc), 4000)])})
		return
	}
	if !viewVal.IsValid() {
		return
	}
	if !b.NoPanic("convert/Raw-panic/"+e.Name, func() {
		out, ok := call(viewVal, "Raw")
		if !ok || len(out) == 0 {
			return
		}
		if len(out) == 2 && !out[1].IsNil() {
			problem = fmt.Sprintf("Raw() returned an error: %v", out[1].Interface())
			return
		}
		r := out[0]
		if r.Kind() != reflect.Ptr {
			p := reflect.New(r.Type())
			p.Elem().Set(r)
			r = p
		}
		if r.IsNil() || r.Type() != reflect.TypeOf(o.obj) {
			return
		}
		back, err := sszObj{spec, r.Interface()}.serialize()
		b.Inc("view_to_struct_conversions")
		b.SetAdd("types_with_view_to_struct_conversion", e.Name)
		if err != nil || !bytes.Equal(back, enc) {
			problem = fmt.Sprintf("View() then Raw() gives a struct that serializes to other bytes (err %v)", err)
		}
	}) {
		return
	}
	if problem != "" {
		b.Violate("convert/Raw/"+e.Name, fmt.Sprintf("%s (%s preset): %s", e.Name, preset, problem), map[string]any{"ssz_hex": fmt.Sprintf("%x", enc[:min(len(enc), 4000)])})
	}
}

// zeroValueNotAValue: types whose Go zero value is not a value of the SSZ type, because a fixed-length vector is held in a Go
// slice and nil has the wrong length (the library has no defaulting for these; its own code always allocates them).
var zeroValueNotAValue = map[string]bool{
	"phase0.HistoricalBatchRoots": true, "phase0.HistoricalBatch": true, "phase0.RandaoMixes": true, "phase0.SlashingsHistory": true,
	"common.SyncCommitteePubkeys": true, "common.SyncCommittee": true, "altair.LightClientSnapshot": true, "altair.LightClientUpdate": true,
	"phase0.BeaconState": true, "altair.BeaconState": true, "bellatrix.BeaconState": true, "capella.BeaconState": true, "deneb.BeaconState": true, "electra.BeaconState": true,
}

// corpusZeroValue: the Go zero value of a struct-form type (what `var x T` or a composite literal without that field gives)
// is the type's default value for every type outside zeroValueNotAValue (bitvector and byte-vector fields held in slices
// have an explicit nil branch in the library): its root must be the default value's root.
func corpusZeroValue(b *fw.B, e schemas.Entry, preset string, spec *common.Spec, sc *rs.Schema) {
	if zeroValueNotAValue[e.Name] {
		b.Inc("zero_values_not_judged")
		return
	}
	o := sszObj{spec, e.New()}
	var got common.Root
	if !b.NoPanic("root/zero-value-panic/"+e.Name, func() { got = o.root() }) {
		return
	}
	want := rs.HashTreeRoot(sc, rs.Default(sc))
	if [32]byte(got) != want {
		b.Violate("root/zero-value/"+e.Name, fmt.Sprintf("%s (%s preset): the root of the Go zero value is %x, the root of the type's default value is %x", e.Name, preset, got[:6], want[:6]), nil)
		return
	}
	b.Inc("zero_value_roots_equal_default")
}

// corpusJSONMeaning: the JSON text form names every field; rendered by the library from the decoded struct it must say the same
// as the value that was encoded, field by field. A decoder and encoder that agree with each other on a wrong field order
// round-trip every encoding and are only visible here (and in the roots).
func corpusJSONMeaning(b *fw.B, e schemas.Entry, preset string, sc *rs.Schema, val *rs.Value, o sszObj) {
	var data []byte
	var err error
	if p, _ := fw.Guard(func() { data, err = json.Marshal(o.obj) }); p != nil || err != nil {
		return // corpusText reports marshalling problems
	}
	dec := json.NewDecoder(bytes.NewReader(data))
	dec.UseNumber()
	var got any
	if dec.Decode(&got) != nil {
		return
	}
	got = rs.NormalizeJSON(got)
	want := rs.JSONOf(sc, val)
	if where := jsonDiff(want, got, ""); where != "" {
		if jsonStyleOnly[e.Name] {
			b.Inc("json_meaning_not_judged_other_text_convention")
			return
		}
		b.Violate("json/meaning/"+e.Name, fmt.Sprintf("%s (%s preset): the JSON form of the decoded value differs from the value that was encoded at %s", e.Name, preset, where), nil)
		return
	}
	b.Inc("json_meaning_compared")
}

// types whose JSON form follows another convention than "object of spec field names / 0x-hex / decimal strings" by design
var jsonStyleOnly = map[string]bool{}

func jsonDiff(want, got any, path string) string {
	switch w := want.(type) {
	case map[string]any:
		g, ok := got.(map[string]any)
		if !ok {
			return path + ": not an object"
		}
		// field names are matched without regard to case and underscores: the property asks for a text form that round-trips,
		// not for particular key spellings; what is compared is the value under each field
		norm := func(k string) string { return strings.ToLower(strings.ReplaceAll(k, "_", "")) }
		gn := map[string]any{}
		for k, v := range g {
			gn[norm(k)] = v
		}
		if len(gn) != len(w) {
			return fmt.Sprintf("%s: %d fields, expected %d", path, len(gn), len(w))
		}
		for k, wv := range w {
			gv, ok := gn[norm(k)]
			if !ok {
				return path + "." + k + ": field missing"
			}
			if d := jsonDiff(wv, gv, path+"."+k); d != "" {
				return d
			}
		}
		return ""
	case []any:
		g, ok := got.([]any)
		if !ok {
			return path + ": not an array"
		}
		if len(g) != len(w) {
			return fmt.Sprintf("%s: %d elements, expected %d", path, len(g), len(w))
		}
		for i := range w {
			if d := jsonDiff(w[i], g[i], fmt.Sprintf("%s[%d]", path, i)); d != "" {
				return d
			}
		}
		return ""
	case string:
		if arr, isArr := got.([]any); isArr && strings.HasPrefix(w, "0x") {
			// a byte string written as an array of numbers
			hexs := "0x"
			for _, x := range arr {
				n, err := strconv.Atoi(fmt.Sprint(x))
				if err != nil || n < 0 || n > 255 {
					return path + ": not a scalar"
				}
				hexs += fmt.Sprintf("%02x", n)
			}
			got = hexs
		}
		g, ok := got.(string)
		if !ok {
			return path + ": not a scalar"
		}
		if !strings.EqualFold(g, w) {
			return fmt.Sprintf("%s: %s, expected %s", path, trunc(g, 40), trunc(w, 40))
		}
		return ""
	}
	return path + ": unexpected kind"
}
