package props

import (
	"bytes"
	"context"
	"encoding/binary"
	"fmt"
	"go/ast"
	"go/parser"
	"go/token"
	"path/filepath"
	"reflect"
	"sort"
	"strings"
	"sync"
	"time"

	"github.com/protolambda/zrnt/eth2/beacon"
	"github.com/protolambda/zrnt/eth2/beacon/altair"
	"github.com/protolambda/zrnt/eth2/beacon/bellatrix"
	"github.com/protolambda/zrnt/eth2/beacon/capella"
	"github.com/protolambda/zrnt/eth2/beacon/common"
	"github.com/protolambda/zrnt/eth2/beacon/deneb"
	"github.com/protolambda/zrnt/eth2/beacon/electra"
	"github.com/protolambda/zrnt/eth2/configs"
	"github.com/protolambda/ztyp/codec"
	"github.com/protolambda/ztyp/tree"
	"github.com/protolambda/ztyp/view"

	"verif/fw"
	rs "verif/refssz"
	"verif/schemas"
	"verif/sim"
)

// C15 — state accessors are exact and state copies are independent.
// The model of a state is a generic SSZ value tree (refssz) decoded from the state's own bytes; every
// accessor call is mirrored on the model at the schema path it names; after each call the state's
// bytes must equal the model's bytes (so a setter changed its field and nothing else), getters are
// compared with the model, and every other live copy must still equal its own model.

var stateForkNames = []string{"phase0", "altair", "bellatrix", "capella", "deneb", "electra"}

func init() {
	fw.Register(&fw.Prop{
		ID:    "C15",
		Level: "exploration",
		Rule: "random accessor programs (<=30 calls) over the six fork state types x {minimal, custom} presets, on states loaded from random encoded bytes and on up to 3 structure-sharing copies (CopyState): every getter/setter of the BeaconState interface, the typed sub-views " +
			"(block/state roots, historical roots/summaries, eth1 votes, validators and each validator field, balances incl. whole-list replacement and AddValidator, randao mixes incl. SeedRandao, slashings, checkpoints, headers, participation, inactivity scores, sync committees, execution header, withdrawal indices, electra balances/epochs); " +
			"after each call: bytes of the touched state == model with exactly that path changed, getters == model, all other copies unchanged; plus sibling simulator lineages (full state transitions on copies with cloned contexts) with the parent's bytes, root and context fingerprint re-checked. " +
			"A case is one program; non-trivial when it touched >=2 copies; distinct by op-sequence hash",
		Assumptions:  []string{"model = refssz value tree under the spec schema of the state type (schemas/)", "sibling-lineage part reuses the C08 forky scenario: context independence is judged through NewEpochsContext comparisons on both lineages after each step of either"},
		Batches:      func(tier string) int { return 16 },
		ChildTimeout: func(string) time.Duration { return 40 * time.Minute },
		Run: func(b *fw.B) {
			runAccessorPrograms(b, false)
			if b.Batch%2 == 0 || !fw.Quick(b.Tier) {
				nf := 1
				if !fw.Quick(b.Tier) {
					nf = 4
				}
				for k := 0; k < nf; k++ {
					c08Forky(b, k+b.Batch/2)
				}
			}
		},
		Required: []string{"accessor_steps", "getter_checks", "copies_checked_unchanged", "programs_with_copies", "fork_phase0", "fork_altair", "fork_bellatrix", "fork_capella", "fork_deneb", "fork_electra", "op_SetBalances", "op_AddValidator", "op_ValidatorSet", "op_SeedRandao", "op_SubViews", "subview_getter_checks", "forky_sibling_deposits"},
	})
}

type accState struct {
	st    common.BeaconState
	model *rs.Value
	name  string
}

type accCtx struct {
	b    *fw.B
	spec *common.Spec
	sc   *rs.Schema
	fork string
}

func (a *accCtx) idx(name string) int {
	for i, f := range a.sc.Fields {
		if f.Name == name {
			return i
		}
	}
	return -1
}

func u64v(x uint64) *rs.Value    { return &rs.Value{U: x} }
func rootv(r [32]byte) *rs.Value { return &rs.Value{B: append([]byte{}, r[:]...)} }

func (a *accCtx) randRoot() (r common.Root) {
	for i := range r {
		r[i] = byte(a.b.Rng.Uint32())
	}
	return
}

func stateBytes(st common.BeaconState) []byte {
	var buf bytes.Buffer
	if v, ok := st.(view.View); ok {
		v.Serialize(codec.NewEncodingWriter(&buf))
	}
	return buf.Bytes()
}

func loadStateView(spec *common.Spec, fork string, data []byte) (common.BeaconState, error) {
	dr := codec.NewDecodingReader(bytes.NewReader(data), uint64(len(data)))
	switch fork {
	case "phase0":
		return sim.LoadZrntState(spec, 0, data)
	case "altair":
		return sim.LoadZrntState(spec, 1, data)
	case "bellatrix":
		return sim.LoadZrntState(spec, 2, data)
	case "capella":
		return sim.LoadZrntState(spec, 3, data)
	case "deneb":
		return sim.LoadZrntState(spec, 4, data)
	case "electra":
		return electra.AsBeaconStateView(electra.BeaconStateType(spec).Deserialize(dr))
	}
	return nil, fmt.Errorf("fork %s", fork)
}

type partViews interface {
	PreviousEpochParticipation() (*altair.ParticipationRegistryView, error)
	CurrentEpochParticipation() (*altair.ParticipationRegistryView, error)
	InactivityScores() (*altair.InactivityScoresView, error)
}

type withdrawalAcc interface {
	NextWithdrawalIndex() (common.WithdrawalIndex, error)
	SetNextWithdrawalIndex(common.WithdrawalIndex) error
	IncrementNextWithdrawalIndex() error
	NextWithdrawalValidatorIndex() (common.ValidatorIndex, error)
	SetNextWithdrawalValidatorIndex(common.ValidatorIndex) error
	HistoricalSummaries() (capella.HistoricalSummariesList, error)
}

type electraAcc interface {
	DepositRequestsStartIndex() (view.Uint64View, error)
	SetDepositRequestsStartIndex(view.Uint64View) error
	DepositBalanceToConsume() (common.Gwei, error)
	SetDepositBalanceToConsume(common.Gwei) error
	ExitBalanceToConsume() (common.Gwei, error)
	SetExitBalanceToConsume(common.Gwei) error
	EarliestExitEpoch() (common.Epoch, error)
	SetEarliestExitEpoch(common.Epoch) error
	ConsolidationBalanceToConsume() (common.Gwei, error)
	SetConsolidationBalanceToConsume(common.Gwei) error
	EarliestConsolidationEpoch() (common.Epoch, error)
	SetEarliestConsolidationEpoch(common.Epoch) error
}

// one accessor step on s; returns a description, or "" if not applicable. Violations are reported through viol.
func (a *accCtx) step(s *accState, viol func(sig, what string)) string {
	rng := a.b.Rng
	st, m := s.st, s.model
	fi := a.idx
	get := func(name string) *rs.Value { return m.Items[fi(name)] }
	set := func(name string, v *rs.Value) { m.Items[fi(name)] = v }
	nVals := len(get("validators").Items)
	cpv := func(cp common.Checkpoint) *rs.Value {
		return &rs.Value{Items: []*rs.Value{u64v(uint64(cp.Epoch)), rootv(cp.Root)}}
	}
	check := func(op string, err error) bool {
		if err != nil {
			viol("accessor-error/"+op, fmt.Sprintf("%s on a %s state returned an error: %v", op, a.fork, err))
			return false
		}
		return true
	}
	cmpU := func(op string, got uint64, want uint64) {
		a.b.Inc("getter_checks")
		if got != want {
			viol("getter/"+op, fmt.Sprintf("%s on a %s state returned %d, the stored value is %d", op, a.fork, got, want))
		}
	}
	cmpB := func(op string, got []byte, want []byte) {
		a.b.Inc("getter_checks")
		if !bytes.Equal(got, want) {
			viol("getter/"+op, fmt.Sprintf("%s on a %s state returned %x, the stored value is %x", op, a.fork, got[:min(len(got), 40)], want[:min(len(want), 40)]))
		}
	}
	x := rng.Uint64() >> uint(rng.IntN(64))
	choice := rng.IntN(36)
	switch choice {
	case 34, 35:
		return a.subViews(s, viol)
	case 0:
		g, err := st.Slot()
		if check("Slot", err) {
			cmpU("Slot", uint64(g), get("slot").U)
		}
		if check("SetSlot", st.SetSlot(common.Slot(x))) {
			set("slot", u64v(x))
		}
		return "SetSlot"
	case 1:
		g, err := st.GenesisTime()
		if check("GenesisTime", err) {
			cmpU("GenesisTime", uint64(g), get("genesis_time").U)
		}
		if check("SetGenesisTime", st.SetGenesisTime(common.Timestamp(x))) {
			set("genesis_time", u64v(x))
		}
		return "SetGenesisTime"
	case 2:
		g, err := st.GenesisValidatorsRoot()
		if check("GenesisValidatorsRoot", err) {
			cmpB("GenesisValidatorsRoot", g[:], get("genesis_validators_root").B)
		}
		r := a.randRoot()
		if check("SetGenesisValidatorsRoot", st.SetGenesisValidatorsRoot(r)) {
			set("genesis_validators_root", rootv(r))
		}
		return "SetGenesisValidatorsRoot"
	case 3:
		g, err := st.Fork()
		if check("Fork", err) {
			mf := get("fork")
			cmpB("Fork", append(append(append([]byte{}, g.PreviousVersion[:]...), g.CurrentVersion[:]...), u64le8(uint64(g.Epoch))...), append(append(append([]byte{}, mf.Items[0].B...), mf.Items[1].B...), u64le8(mf.Items[2].U)...))
		}
		f := common.Fork{PreviousVersion: common.Version{byte(x), 1}, CurrentVersion: common.Version{byte(x >> 8), 2}, Epoch: common.Epoch(x)}
		if check("SetFork", st.SetFork(f)) {
			set("fork", &rs.Value{Items: []*rs.Value{{B: f.PreviousVersion[:]}, {B: f.CurrentVersion[:]}, u64v(x)}})
		}
		return "SetFork"
	case 4:
		g, err := st.LatestBlockHeader()
		if check("LatestBlockHeader", err) && g != nil {
			mh := get("latest_block_header")
			cmpU("LatestBlockHeader.slot", uint64(g.Slot), mh.Items[0].U)
			cmpU("LatestBlockHeader.proposer_index", uint64(g.ProposerIndex), mh.Items[1].U)
			cmpB("LatestBlockHeader.parent_root", g.ParentRoot[:], mh.Items[2].B)
			cmpB("LatestBlockHeader.state_root", g.StateRoot[:], mh.Items[3].B)
			cmpB("LatestBlockHeader.body_root", g.BodyRoot[:], mh.Items[4].B)
		}
		h := &common.BeaconBlockHeader{Slot: common.Slot(x), ProposerIndex: common.ValidatorIndex(x >> 3), ParentRoot: a.randRoot(), StateRoot: a.randRoot(), BodyRoot: a.randRoot()}
		if check("SetLatestBlockHeader", st.SetLatestBlockHeader(h)) {
			set("latest_block_header", &rs.Value{Items: []*rs.Value{u64v(x), u64v(x >> 3), rootv(h.ParentRoot), rootv(h.StateRoot), rootv(h.BodyRoot)}})
		}
		// the caller keeps using its own structs: neither the argument nor a returned header may alias the state
		h.Slot++
		h.ParentRoot[0] ^= 0xff
		h.StateRoot[31] ^= 0xff
		h.BodyRoot[7] ^= 0xff
		if g != nil {
			g.Slot += 3
			g.ParentRoot[1] ^= 0xff
			g.StateRoot[1] ^= 0xff
		}
		a.b.Inc("arguments_and_results_scribbled_on_after_the_call")
		return "SetLatestBlockHeader"
	case 5, 6:
		name, field := "BlockRoots", "block_roots"
		br, err := st.BlockRoots()
		if choice == 6 {
			name, field = "StateRoots", "state_roots"
			br, err = st.StateRoots()
		}
		if !check(name, err) {
			return name
		}
		n := uint64(len(get(field).Items))
		slot := common.Slot(rng.Uint64() >> uint(20+rng.IntN(44)))
		g, err := br.GetRoot(slot)
		if check(name+".GetRoot", err) {
			cmpB(name+".GetRoot", g[:], get(field).Items[uint64(slot)%n].B)
		}
		r := a.randRoot()
		if check(name+".SetRoot", br.SetRoot(slot, r)) {
			get(field).Items[uint64(slot)%n] = rootv(r)
		}
		return name + ".SetRoot"
	case 7:
		hr, err := st.HistoricalRoots()
		if !check("HistoricalRoots", err) || uint64(len(get("historical_roots").Items)) >= uint64(a.spec.HISTORICAL_ROOTS_LIMIT) {
			return ""
		}
		r := a.randRoot()
		if check("HistoricalRoots.Append", hr.Append(r)) {
			get("historical_roots").Items = append(get("historical_roots").Items, rootv(r))
		}
		return "HistoricalRoots.Append"
	case 8:
		g, err := st.Eth1Data()
		if check("Eth1Data", err) {
			me := get("eth1_data")
			cmpB("Eth1Data.deposit_root", g.DepositRoot[:], me.Items[0].B)
			cmpU("Eth1Data.deposit_count", uint64(g.DepositCount), me.Items[1].U)
			cmpB("Eth1Data.block_hash", g.BlockHash[:], me.Items[2].B)
		}
		d := common.Eth1Data{DepositRoot: a.randRoot(), DepositCount: common.DepositIndex(x), BlockHash: a.randRoot()}
		if check("SetEth1Data", st.SetEth1Data(d)) {
			set("eth1_data", &rs.Value{Items: []*rs.Value{rootv(d.DepositRoot), u64v(x), rootv(d.BlockHash)}})
		}
		return "SetEth1Data"
	case 9:
		votes, err := st.Eth1DataVotes()
		if !check("Eth1DataVotes", err) {
			return ""
		}
		mv := get("eth1_data_votes")
		l, err := votes.Length()
		if check("Eth1DataVotes.Length", err) {
			cmpU("Eth1DataVotes.Length", l, uint64(len(mv.Items)))
		}
		limit := uint64(a.spec.EPOCHS_PER_ETH1_VOTING_PERIOD) * uint64(a.spec.SLOTS_PER_EPOCH)
		if rng.IntN(5) == 0 {
			if check("Eth1DataVotes.Reset", votes.Reset()) {
				mv.Items = []*rs.Value{}
			}
			return "Eth1DataVotes.Reset"
		}
		if uint64(len(mv.Items)) >= limit {
			return ""
		}
		d := common.Eth1Data{DepositRoot: common.Root{byte(rng.IntN(3))}, DepositCount: common.DepositIndex(rng.IntN(2)), BlockHash: common.Root{7}}
		cnt, err := votes.Count(d)
		if check("Eth1DataVotes.Count", err) {
			want := uint64(0)
			for _, it := range mv.Items {
				if bytes.Equal(it.Items[0].B, d.DepositRoot[:]) && it.Items[1].U == uint64(d.DepositCount) && bytes.Equal(it.Items[2].B, d.BlockHash[:]) {
					want++
				}
			}
			cmpU("Eth1DataVotes.Count", cnt, want)
		}
		if check("Eth1DataVotes.Append", votes.Append(d)) {
			mv.Items = append(mv.Items, &rs.Value{Items: []*rs.Value{rootv(d.DepositRoot), u64v(uint64(d.DepositCount)), rootv(d.BlockHash)}})
		}
		return "Eth1DataVotes.Append"
	case 10:
		g, err := st.Eth1DepositIndex()
		if check("Eth1DepositIndex", err) {
			cmpU("Eth1DepositIndex", uint64(g), get("eth1_deposit_index").U)
		}
		if get("eth1_deposit_index").U == ^uint64(0) {
			return ""
		}
		if check("IncrementDepositIndex", st.IncrementDepositIndex()) {
			set("eth1_deposit_index", u64v(get("eth1_deposit_index").U+1))
		}
		return "IncrementDepositIndex"
	case 11, 12, 13:
		if nVals == 0 {
			return ""
		}
		vals, err := st.Validators()
		if !check("Validators", err) {
			return ""
		}
		cnt, err := vals.ValidatorCount()
		if check("ValidatorCount", err) {
			cmpU("ValidatorCount", cnt, uint64(nVals))
		}
		i := rng.IntN(nVals)
		v, err := vals.Validator(common.ValidatorIndex(i))
		if !check("Validator", err) {
			return ""
		}
		mv := get("validators").Items[i]
		pk, e1 := v.Pubkey()
		wc, e2 := v.WithdrawalCredentials()
		eb, e3 := v.EffectiveBalance()
		sl, e4 := v.Slashed()
		ae, e5 := v.ActivationEligibilityEpoch()
		ac, e6 := v.ActivationEpoch()
		ex, e7 := v.ExitEpoch()
		we, e8 := v.WithdrawableEpoch()
		for _, e := range []error{e1, e2, e3, e4, e5, e6, e7, e8} {
			if !check("Validator getters", e) {
				return ""
			}
		}
		cmpB("Validator.Pubkey", pk[:], mv.Items[0].B)
		cmpB("Validator.WithdrawalCredentials", wc[:], mv.Items[1].B)
		cmpU("Validator.EffectiveBalance", uint64(eb), mv.Items[2].U)
		sb := uint64(0)
		if sl {
			sb = 1
		}
		cmpU("Validator.Slashed", sb, mv.Items[3].U)
		cmpU("Validator.ActivationEligibilityEpoch", uint64(ae), mv.Items[4].U)
		cmpU("Validator.ActivationEpoch", uint64(ac), mv.Items[5].U)
		cmpU("Validator.ExitEpoch", uint64(ex), mv.Items[6].U)
		cmpU("Validator.WithdrawableEpoch", uint64(we), mv.Items[7].U)
		a.b.Inc("op_ValidatorSet")
		switch rng.IntN(7) {
		case 0:
			r := a.randRoot()
			if check("SetWithdrawalCredentials", v.SetWithdrawalCredentials(r)) {
				mv.Items[1] = rootv(r)
			}
			return "Validator.SetWithdrawalCredentials"
		case 1:
			if check("SetEffectiveBalance", v.SetEffectiveBalance(common.Gwei(x))) {
				mv.Items[2] = u64v(x)
			}
			return "Validator.SetEffectiveBalance"
		case 2:
			if check("MakeSlashed", v.MakeSlashed()) {
				mv.Items[3] = u64v(1)
			}
			return "Validator.MakeSlashed"
		case 3:
			if check("SetActivationEligibilityEpoch", v.SetActivationEligibilityEpoch(common.Epoch(x))) {
				mv.Items[4] = u64v(x)
			}
			return "Validator.SetActivationEligibilityEpoch"
		case 4:
			if check("SetActivationEpoch", v.SetActivationEpoch(common.Epoch(x))) {
				mv.Items[5] = u64v(x)
			}
			return "Validator.SetActivationEpoch"
		case 5:
			if check("SetExitEpoch", v.SetExitEpoch(common.Epoch(x))) {
				mv.Items[6] = u64v(x)
			}
			return "Validator.SetExitEpoch"
		default:
			if check("SetWithdrawableEpoch", v.SetWithdrawableEpoch(common.Epoch(x))) {
				mv.Items[7] = u64v(x)
			}
			return "Validator.SetWithdrawableEpoch"
		}
	case 14, 15:
		bals, err := st.Balances()
		if !check("Balances", err) {
			return ""
		}
		mb := get("balances")
		l, err := bals.Length()
		if check("Balances.Length", err) {
			cmpU("Balances.Length", l, uint64(len(mb.Items)))
		}
		if len(mb.Items) == 0 {
			return ""
		}
		i := rng.IntN(len(mb.Items))
		g, err := bals.GetBalance(common.ValidatorIndex(i))
		if check("GetBalance", err) {
			cmpU("GetBalance", uint64(g), mb.Items[i].U)
		}
		if check("SetBalance", bals.SetBalance(common.ValidatorIndex(i), common.Gwei(x))) {
			mb.Items[i] = u64v(x)
		}
		if rng.IntN(4) == 0 {
			all, err := bals.AllBalances()
			if check("AllBalances", err) {
				ok := len(all) == len(mb.Items)
				for k := 0; ok && k < len(all); k++ {
					ok = uint64(all[k]) == mb.Items[k].U
				}
				a.b.Inc("getter_checks")
				if !ok {
					viol("getter/AllBalances", "AllBalances differs from the stored list")
				}
			}
		}
		return "Balances.SetBalance"
	case 16:
		// whole-list replacement
		n := []int{len(get("balances").Items), 0, 1, 3, 4, 5, 8, 9}[rng.IntN(8)]
		if uint64(n) > uint64(a.spec.VALIDATOR_REGISTRY_LIMIT) {
			n = int(a.spec.VALIDATOR_REGISTRY_LIMIT)
		}
		list := make([]common.Gwei, n)
		mv := &rs.Value{Items: make([]*rs.Value, n)}
		for k := range list {
			list[k] = common.Gwei(rng.Uint64())
			mv.Items[k] = u64v(uint64(list[k]))
		}
		a.b.Inc("op_SetBalances")
		if check("SetBalances", st.SetBalances(list)) {
			set("balances", mv)
		}
		for k := range list {
			list[k] ^= 0xffff // the caller's slice is its own
		}
		a.b.Inc("arguments_and_results_scribbled_on_after_the_call")
		return fmt.Sprintf("SetBalances(%d)", n)
	case 17:
		if uint64(nVals) >= uint64(a.spec.VALIDATOR_REGISTRY_LIMIT) || len(get("balances").Items) != nVals {
			return ""
		}
		if pi := fi("previous_epoch_participation"); pi >= 0 && (len(m.Items[pi].Items) != nVals || len(get("current_epoch_participation").Items) != nVals || len(get("inactivity_scores").Items) != nVals) {
			return ""
		}
		var pk common.BLSPubkey
		for k := range pk {
			pk[k] = byte(rng.Uint32())
		}
		wc := a.randRoot()
		bal := common.Gwei(uint64(a.spec.EFFECTIVE_BALANCE_INCREMENT)*uint64(rng.IntN(40)) + uint64(rng.IntN(1000)))
		a.b.Inc("op_AddValidator")
		if check("AddValidator", st.AddValidator(a.spec, pk, wc, bal)) {
			eff := uint64(bal) - uint64(bal)%uint64(a.spec.EFFECTIVE_BALANCE_INCREMENT)
			if eff > uint64(a.spec.MAX_EFFECTIVE_BALANCE) {
				eff = uint64(a.spec.MAX_EFFECTIVE_BALANCE)
			}
			ffv := ^uint64(0)
			get("validators").Items = append(get("validators").Items, &rs.Value{Items: []*rs.Value{{B: pk[:]}, rootv(wc), u64v(eff), u64v(0), u64v(ffv), u64v(ffv), u64v(ffv), u64v(ffv)}})
			get("balances").Items = append(get("balances").Items, u64v(uint64(bal)))
			if pi := fi("previous_epoch_participation"); pi >= 0 {
				m.Items[pi].Items = append(m.Items[pi].Items, u64v(0))
				get("current_epoch_participation").Items = append(get("current_epoch_participation").Items, u64v(0))
				get("inactivity_scores").Items = append(get("inactivity_scores").Items, u64v(0))
			}
		}
		return "AddValidator"
	case 18, 19:
		mixes, err := st.RandaoMixes()
		if !check("RandaoMixes", err) {
			return ""
		}
		mm := get("randao_mixes")
		n := uint64(len(mm.Items))
		ep := common.Epoch(rng.Uint64() >> uint(20+rng.IntN(44)))
		g, err := mixes.GetRandomMix(ep)
		if check("GetRandomMix", err) {
			cmpB("GetRandomMix", g[:], mm.Items[uint64(ep)%n].B)
		}
		if choice == 19 && rng.IntN(3) == 0 {
			seed := a.randRoot()
			a.b.Inc("op_SeedRandao")
			if check("SeedRandao", st.SeedRandao(a.spec, seed)) {
				for k := range mm.Items {
					mm.Items[k] = rootv(seed)
				}
			}
			return "SeedRandao"
		}
		r := a.randRoot()
		if check("SetRandomMix", mixes.SetRandomMix(ep, r)) {
			mm.Items[uint64(ep)%n] = rootv(r)
		}
		return "RandaoMixes.SetRandomMix"
	case 20, 21:
		sl, err := st.Slashings()
		if !check("Slashings", err) {
			return ""
		}
		ms := get("slashings")
		n := uint64(len(ms.Items))
		ep := common.Epoch(rng.Uint64() >> uint(20+rng.IntN(44)))
		g, err := sl.GetSlashingsValue(ep)
		if check("GetSlashingsValue", err) {
			cmpU("GetSlashingsValue", uint64(g), ms.Items[uint64(ep)%n].U)
		}
		if rng.IntN(3) == 0 {
			if check("ResetSlashings", sl.ResetSlashings(ep)) {
				ms.Items[uint64(ep)%n] = u64v(0)
			}
			return "Slashings.ResetSlashings"
		}
		add := rng.Uint64() >> 8
		cur := ms.Items[uint64(ep)%n].U
		if cur+add < cur {
			return ""
		}
		if check("AddSlashing", sl.AddSlashing(ep, common.Gwei(add))) {
			ms.Items[uint64(ep)%n] = u64v(cur + add)
		}
		return "Slashings.AddSlashing"
	case 22:
		g, err := st.JustificationBits()
		if check("JustificationBits", err) {
			want := byte(0)
			for k, bit := range get("justification_bits").Bits {
				if bit {
					want |= 1 << uint(k)
				}
			}
			cmpU("JustificationBits", uint64(g[0]), uint64(want))
		}
		nb := common.JustificationBits{byte(rng.IntN(16))}
		if check("SetJustificationBits", st.SetJustificationBits(nb)) {
			bits := make([]bool, 4)
			for k := range bits {
				bits[k] = nb[0]&(1<<uint(k)) != 0
			}
			set("justification_bits", &rs.Value{Bits: bits})
		}
		return "SetJustificationBits"
	case 23, 24, 25:
		names := []string{"previous_justified_checkpoint", "current_justified_checkpoint", "finalized_checkpoint"}
		name := names[choice-23]
		var g common.Checkpoint
		var err error
		switch choice {
		case 23:
			g, err = st.PreviousJustifiedCheckpoint()
		case 24:
			g, err = st.CurrentJustifiedCheckpoint()
		default:
			g, err = st.FinalizedCheckpoint()
		}
		if check(name, err) {
			cmpU(name+".epoch", uint64(g.Epoch), get(name).Items[0].U)
			cmpB(name+".root", g.Root[:], get(name).Items[1].B)
		}
		cp := common.Checkpoint{Epoch: common.Epoch(x), Root: a.randRoot()}
		switch rng.IntN(4) {
		case 0:
			cp.Epoch = g.Epoch // same epoch, other root
		case 1:
			cp.Root = g.Root // same root, other epoch
		}
		switch choice {
		case 23:
			err = st.SetPreviousJustifiedCheckpoint(cp)
		case 24:
			err = st.SetCurrentJustifiedCheckpoint(cp)
		default:
			err = st.SetFinalizedCheckpoint(cp)
		}
		if check("Set "+name, err) {
			set(name, cpv(cp))
		}
		return "Set " + name
	case 26, 27:
		pv, ok := st.(partViews)
		if !ok {
			return ""
		}
		field := "previous_epoch_participation"
		reg, err := pv.PreviousEpochParticipation()
		if choice == 27 {
			field = "current_epoch_participation"
			reg, err = pv.CurrentEpochParticipation()
		}
		if !check(field, err) || len(get(field).Items) == 0 {
			return ""
		}
		i := rng.IntN(len(get(field).Items))
		g, err := reg.GetFlags(common.ValidatorIndex(i))
		if check("GetFlags", err) {
			cmpU(field+".GetFlags", uint64(g), get(field).Items[i].U)
		}
		f := altair.ParticipationFlags(rng.IntN(256))
		if check("SetFlags", reg.SetFlags(common.ValidatorIndex(i), f)) {
			get(field).Items[i] = u64v(uint64(f))
		}
		return field + ".SetFlags"
	case 28:
		pv, ok := st.(partViews)
		if !ok || len(get("inactivity_scores").Items) == 0 {
			return ""
		}
		sc, err := pv.InactivityScores()
		if !check("InactivityScores", err) {
			return ""
		}
		i := rng.IntN(len(get("inactivity_scores").Items))
		g, err := sc.GetScore(common.ValidatorIndex(i))
		if check("GetScore", err) {
			cmpU("InactivityScores.GetScore", g, get("inactivity_scores").Items[i].U)
		}
		if check("SetScore", sc.SetScore(common.ValidatorIndex(i), x)) {
			get("inactivity_scores").Items[i] = u64v(x)
		}
		return "InactivityScores.SetScore"
	case 29:
		ss, ok := st.(common.SyncCommitteeBeaconState)
		if !ok {
			return ""
		}
		n := int(a.spec.SYNC_COMMITTEE_SIZE)
		scm := common.SyncCommittee{Pubkeys: make([]common.BLSPubkey, n)}
		mv := &rs.Value{Items: []*rs.Value{{Items: make([]*rs.Value, n)}, nil}}
		for k := range scm.Pubkeys {
			for q := 0; q < 48; q += 8 {
				binary.LittleEndian.PutUint64(scm.Pubkeys[k][q:], rng.Uint64())
			}
			mv.Items[0].Items[k] = &rs.Value{B: append([]byte{}, scm.Pubkeys[k][:]...)}
		}
		scm.AggregatePubkey[0] = byte(x)
		mv.Items[1] = &rs.Value{B: append([]byte{}, scm.AggregatePubkey[:]...)}
		sv, err := scm.View(a.spec)
		if !check("SyncCommittee.View", err) {
			return ""
		}
		defer func() { // after the setter ran: the caller's struct is its own
			for k := range scm.Pubkeys {
				scm.Pubkeys[k][k%48] ^= 0xff
			}
			scm.AggregatePubkey[1] ^= 0xff
		}()
		switch rng.IntN(3) {
		case 0:
			if check("SetCurrentSyncCommittee", ss.SetCurrentSyncCommittee(sv)) {
				set("current_sync_committee", mv)
			}
			return "SetCurrentSyncCommittee"
		case 1:
			if check("SetNextSyncCommittee", ss.SetNextSyncCommittee(sv)) {
				set("next_sync_committee", mv)
			}
			return "SetNextSyncCommittee"
		default:
			if check("RotateSyncCommittee", ss.RotateSyncCommittee(sv)) {
				set("current_sync_committee", cloneValue(get("next_sync_committee")))
				set("next_sync_committee", mv)
			}
			return "RotateSyncCommittee"
		}
	case 30:
		wa, ok := st.(withdrawalAcc)
		if !ok {
			return ""
		}
		g, err := wa.NextWithdrawalIndex()
		if check("NextWithdrawalIndex", err) {
			cmpU("NextWithdrawalIndex", uint64(g), get("next_withdrawal_index").U)
		}
		g2, err := wa.NextWithdrawalValidatorIndex()
		if check("NextWithdrawalValidatorIndex", err) {
			cmpU("NextWithdrawalValidatorIndex", uint64(g2), get("next_withdrawal_validator_index").U)
		}
		switch rng.IntN(4) {
		case 0:
			if check("SetNextWithdrawalIndex", wa.SetNextWithdrawalIndex(common.WithdrawalIndex(x))) {
				set("next_withdrawal_index", u64v(x))
			}
			return "SetNextWithdrawalIndex"
		case 1:
			if get("next_withdrawal_index").U == ^uint64(0) {
				return ""
			}
			if check("IncrementNextWithdrawalIndex", wa.IncrementNextWithdrawalIndex()) {
				set("next_withdrawal_index", u64v(get("next_withdrawal_index").U+1))
			}
			return "IncrementNextWithdrawalIndex"
		case 2:
			if check("SetNextWithdrawalValidatorIndex", wa.SetNextWithdrawalValidatorIndex(common.ValidatorIndex(x))) {
				set("next_withdrawal_validator_index", u64v(x))
			}
			return "SetNextWithdrawalValidatorIndex"
		default:
			if uint64(len(get("historical_summaries").Items)) >= uint64(a.spec.HISTORICAL_ROOTS_LIMIT) {
				return ""
			}
			hs, err := wa.HistoricalSummaries()
			if !check("HistoricalSummaries", err) {
				return ""
			}
			s := capella.HistoricalSummary{BlockSummaryRoot: a.randRoot(), StateSummaryRoot: a.randRoot()}
			if check("HistoricalSummaries.Append", hs.Append(s)) {
				get("historical_summaries").Items = append(get("historical_summaries").Items, &rs.Value{Items: []*rs.Value{rootv(s.BlockSummaryRoot), rootv(s.StateSummaryRoot)}})
			}
			return "HistoricalSummaries.Append"
		}
	case 31:
		// execution payload header replacement (per fork type)
		hi := fi("latest_execution_payload_header")
		if hi < 0 {
			return ""
		}
		hsc := a.sc.Fields[hi].S
		budget := 200
		hv := rs.Random(hsc, rng, &budget)
		enc := rs.Encode(hsc, hv)
		dr := func() *codec.DecodingReader { return codec.NewDecodingReader(bytes.NewReader(enc), uint64(len(enc))) }
		var err error
		switch t := st.(type) {
		case *bellatrix.BeaconStateView:
			var h bellatrix.ExecutionPayloadHeader
			if err = h.Deserialize(dr()); err == nil {
				err = t.SetLatestExecutionPayloadHeader(&h)
			}
			scribbleExecHeader(&h.ParentHash, &h.StateRoot, &h.ReceiptsRoot, &h.PrevRandao, &h.BlockHash, &h.TransactionsRoot, &h.LogsBloom, h.ExtraData)
			h.BlockNumber, h.GasLimit, h.GasUsed, h.Timestamp = h.BlockNumber+1, h.GasLimit+1, h.GasUsed+1, h.Timestamp+1
		case *capella.BeaconStateView:
			var h capella.ExecutionPayloadHeader
			if err = h.Deserialize(dr()); err == nil {
				err = t.SetLatestExecutionPayloadHeader(&h)
			}
			scribbleExecHeader(&h.ParentHash, &h.StateRoot, &h.ReceiptsRoot, &h.PrevRandao, &h.BlockHash, &h.TransactionsRoot, &h.LogsBloom, h.ExtraData)
			h.BlockNumber, h.GasLimit, h.GasUsed, h.Timestamp = h.BlockNumber+1, h.GasLimit+1, h.GasUsed+1, h.Timestamp+1
		case *deneb.BeaconStateView:
			var h deneb.ExecutionPayloadHeader
			if err = h.Deserialize(dr()); err == nil {
				err = t.SetLatestExecutionPayloadHeader(&h)
			}
			scribbleExecHeader(&h.ParentHash, &h.StateRoot, &h.ReceiptsRoot, &h.PrevRandao, &h.BlockHash, &h.TransactionsRoot, &h.LogsBloom, h.ExtraData)
			h.BlockNumber, h.GasLimit, h.GasUsed, h.Timestamp = h.BlockNumber+1, h.GasLimit+1, h.GasUsed+1, h.Timestamp+1
		case *electra.BeaconStateView:
			var h deneb.ExecutionPayloadHeader
			if err = h.Deserialize(dr()); err == nil {
				err = t.SetLatestExecutionPayloadHeader(&h)
			}
			scribbleExecHeader(&h.ParentHash, &h.StateRoot, &h.ReceiptsRoot, &h.PrevRandao, &h.BlockHash, &h.TransactionsRoot, &h.LogsBloom, h.ExtraData)
			h.BlockNumber, h.GasLimit, h.GasUsed, h.Timestamp = h.BlockNumber+1, h.GasLimit+1, h.GasUsed+1, h.Timestamp+1
		default:
			return ""
		}
		if check("SetLatestExecutionPayloadHeader", err) {
			m.Items[hi] = hv
		}
		return "SetLatestExecutionPayloadHeader"
	case 32, 33:
		ea, ok := st.(electraAcc)
		if !ok {
			return ""
		}
		names := []string{"deposit_requests_start_index", "deposit_balance_to_consume", "exit_balance_to_consume", "earliest_exit_epoch", "consolidation_balance_to_consume", "earliest_consolidation_epoch"}
		k := rng.IntN(6)
		var g uint64
		var err error
		switch k {
		case 0:
			var v view.Uint64View
			v, err = ea.DepositRequestsStartIndex()
			g = uint64(v)
		case 1:
			var v common.Gwei
			v, err = ea.DepositBalanceToConsume()
			g = uint64(v)
		case 2:
			var v common.Gwei
			v, err = ea.ExitBalanceToConsume()
			g = uint64(v)
		case 3:
			var v common.Epoch
			v, err = ea.EarliestExitEpoch()
			g = uint64(v)
		case 4:
			var v common.Gwei
			v, err = ea.ConsolidationBalanceToConsume()
			g = uint64(v)
		default:
			var v common.Epoch
			v, err = ea.EarliestConsolidationEpoch()
			g = uint64(v)
		}
		if check("get "+names[k], err) {
			cmpU(names[k], g, get(names[k]).U)
		}
		switch k {
		case 0:
			err = ea.SetDepositRequestsStartIndex(view.Uint64View(x))
		case 1:
			err = ea.SetDepositBalanceToConsume(common.Gwei(x))
		case 2:
			err = ea.SetExitBalanceToConsume(common.Gwei(x))
		case 3:
			err = ea.SetEarliestExitEpoch(common.Epoch(x))
		case 4:
			err = ea.SetConsolidationBalanceToConsume(common.Gwei(x))
		default:
			err = ea.SetEarliestConsolidationEpoch(common.Epoch(x))
		}
		if check("set "+names[k], err) {
			set(names[k], u64v(x))
		}
		return "Set " + names[k]
	}
	return ""
}

func u64le8(x uint64) []byte {
	var b [8]byte
	binary.LittleEndian.PutUint64(b[:], x)
	return b[:]
}

// runAccessorPrograms runs random accessor programs; with rootsMode the live root is also compared with the model's merkleization after every step.
func runAccessorPrograms(b *fw.B, rootsMode bool) {
	quick := fw.Quick(b.Tier)
	n := 500 / 16
	if !quick {
		n = 30000 / 16
	}
	if rootsMode {
		n = 300 / 16
		if !quick {
			n = 20000 / 16
		}
	}
	pr := fw.NewRng(b.Seed, "acc-presets", b.Batch)
	custom := customPreset(pr)
	for pI := 0; pI < n && !b.Stop(); pI++ {
		fork := stateForkNames[(pI+b.Batch)%len(stateForkNames)]
		spec := configs.Minimal
		presetName := "minimal"
		if pI%3 == 1 {
			spec, presetName = custom, "custom"
		}
		S := schemas.New(spec)
		sc := S.Get(fork + ".BeaconState")
		a := &accCtx{b: b, spec: spec, sc: sc, fork: fork}
		budget := 400
		val := rs.Random(sc, b.Rng, &budget)
		// keep the per-validator lists aligned so that AddValidator is applicable
		vi := a.idx("validators")
		nv := len(val.Items[vi].Items)
		for _, name := range []string{"balances", "previous_epoch_participation", "current_epoch_participation", "inactivity_scores"} {
			if i := a.idx(name); i >= 0 {
				for len(val.Items[i].Items) < nv {
					val.Items[i].Items = append(val.Items[i].Items, u64v(uint64(b.Rng.IntN(250))))
				}
				val.Items[i].Items = val.Items[i].Items[:nv]
			}
		}
		enc := rs.Encode(sc, val)
		b.Case("accessor-program", fmt.Sprintf("%s/%s state of %d bytes, %d validators", fork, presetName, len(enc), nv))
		b.Inc("fork_" + fork)
		var st0 common.BeaconState
		var err error
		if !b.NoPanic("load/panic/"+fork, func() { st0, err = loadStateView(spec, fork, enc) }) {
			continue
		}
		if err != nil {
			b.Violate("load/refused/"+fork, fmt.Sprintf("%s state type refuses a canonical encoding: %v", fork, err), nil)
			continue
		}
		states := []*accState{{st: st0, model: val, name: "original"}}
		var trace []string
		bad := false
		viol := func(sig, what string) {
			if !bad {
				b.Violate(sig+"/"+fork, what+" — program: "+fmt.Sprint(trace), map[string]any{"program": trace, "state_ssz_hex": fmt.Sprintf("%x", enc[:min(len(enc), 3000)])})
			}
			bad = true
		}
		nOps := 5 + b.Rng.IntN(26)
		for op := 0; op < nOps && !bad; op++ {
			if len(states) < 4 && b.Rng.IntN(6) == 0 {
				src := states[b.Rng.IntN(len(states))]
				var cp common.BeaconState
				var cerr error
				if !b.NoPanic("CopyState/panic/"+fork, func() { cp, cerr = src.st.CopyState() }) || cerr != nil {
					viol("CopyState/error", fmt.Sprintf("CopyState failed: %v", cerr))
					break
				}
				states = append(states, &accState{st: cp, model: cloneValue(src.model), name: fmt.Sprintf("copy%d-of-%s", len(states), src.name)})
				trace = append(trace, "CopyState("+src.name+")")
				continue
			}
			s := states[b.Rng.IntN(len(states))]
			var desc string
			if !b.NoPanic("accessor/panic/"+fork, func() { desc = a.step(s, viol) }) {
				bad = true
				break
			}
			if desc == "" {
				continue
			}
			trace = append(trace, s.name+"."+desc)
			b.LogStep("%s.%s", s.name, desc)
			b.Inc("accessor_steps")
			// every live state must equal its model
			for _, o := range states {
				var got []byte
				if !b.NoPanic("serialize/panic/"+fork, func() { got = stateBytes(o.st) }) {
					bad = true
					break
				}
				want := rs.Encode(sc, o.model)
				if !bytes.Equal(got, want) {
					diff := rs.DiffBytes(sc, want, got, 6)
					if o == s {
						viol("setter-effect/"+firstWord(desc), fmt.Sprintf("after %s on the %s: state differs from 'exactly that field changed' (expected != actual): %v", desc, s.name, diff))
					} else {
						viol("copy-disturbed/"+firstWord(desc), fmt.Sprintf("after %s on the %s, the %s changed: %v", desc, s.name, o.name, diff))
					}
					break
				}
				if o != s {
					b.Inc("copies_checked_unchanged")
				}
				if op%4 == 0 {
					// Raw(): the whole state converted to its struct form must hold the same content
					var rawBytes []byte
					var rawErr error
					have := false
					if !b.NoPanic("Raw/panic/"+fork, func() { rawBytes, rawErr, have = stateRawBytes(a.spec, o.st) }) {
						bad = true
						break
					}
					if have {
						b.Inc("state_raw_conversions")
						if rawErr != nil || !bytes.Equal(rawBytes, want) {
							viol("getter/Raw", fmt.Sprintf("after %s on the %s: Raw() of the %s %s state does not hold the state's content (err %v): %v", desc, s.name, o.name, fork, rawErr, rs.DiffBytes(sc, want, rawBytes, 6)))
							break
						}
					}
				}
				if rootsMode || op%5 == 0 {
					var root common.Root
					if !b.NoPanic("root/panic/"+fork, func() { root = o.st.HashTreeRoot(tree.GetHashFn()) }) {
						bad = true
						break
					}
					if [32]byte(root) != rs.HashTreeRoot(sc, o.model) {
						viol("stale-root/"+firstWord(desc), fmt.Sprintf("after %s on the %s, the %s reports a root that differs from the merkleization of its own content", desc, s.name, o.name))
						break
					}
					b.Inc("live_roots_compared")
				}
			}
		}
		if len(states) > 1 {
			b.Inc("programs_with_copies")
			b.Nontrivial(fmt.Sprint(trace), fork)
		}
		if pI < 2 && b.Batch == 0 {
			b.Sample(map[string]any{"fork": fork, "preset": presetName, "program": trace})
		}
	}
}

// runC05Staleness: chains with the live root re-derived from the state's own bytes after every step.
func runC05Staleness(b *fw.B) {
	quick := fw.Quick(b.Tier)
	n := 1
	if !quick {
		n = 6
	}
	fams := []string{"churn", "capella", "custom", "ragged", "leak", "steady"}
	for k := 0; k < n && !b.Stop(); k++ {
		if quick && b.Batch%3 != 0 {
			break
		}
		sc := drawScenario(b.Rng, fams[(b.Batch+k)%len(fams)], quick, k%3 == 0)
		sc.StepEvery = true
		if quick {
			sc.Epochs = min(sc.Epochs, 8)
		}
		if (b.Batch/3+k)%2 == 0 && sc.ForkEpochs[0] < 2 {
			// several phase0 epochs before the first upgrade (an upgrade rebuilds much of the tree and would hide a stale node)
			sc.ForkEpochs = [4]uint64{3, 4, 5, 6}
		}
		b.Case("staleness-chain", sc.String())
		var c05spec *common.Spec
		check := func(z common.BeaconState, where string) bool {
			data, err := sim.ZrntStateBytes(z)
			if err != nil {
				return true
			}
			live := sim.ZrntStateRoot(z)
			re, err := sim.LoadZrntState(c05spec, sim.ZrntFork(z), data)
			if err != nil {
				b.Violate("staleness/reload", fmt.Sprintf("%s: zrnt cannot reload its own state bytes: %v", where, err), nil)
				return false
			}
			b.Inc("staleness_checks")
			if rr := sim.ZrntStateRoot(re); rr != live {
				b.Violate("staleness/stale-root", fmt.Sprintf("%s: the live state's root %x differs from the root %x of the same content rebuilt from its bytes — scenario %s", where, live[:6], rr[:6], sc.String()), nil)
				return false
			}
			return true
		}
		var last *sim.Chain
		hooks := chainHooks{afterStep: func(c *sim.Chain, where string, isBlock bool, built *sim.Built) bool {
			c05spec = c.ZSpec
			last = c
			return check(c.Z, where)
		}, beforeBlock: func(c *sim.Chain, built *sim.Built) bool {
			// the block's own transition checks the state root and would stop the chain first:
			// look at the state advanced to the block's slot on a copy
			c05spec = c.ZSpec
			cp, err := c.Z.BeaconState.CopyState()
			if err != nil {
				return false
			}
			z := &beacon.StandardUpgradeableBeaconState{BeaconState: cp}
			if cur, _ := z.Slot(); uint64(cur) < built.Signed.Message.Slot {
				if err := common.ProcessSlots(context.Background(), c.ZSpec, c.Epc.Clone(), z, common.Slot(built.Signed.Message.Slot)); err == nil {
					b.Inc("staleness_checks_before_blocks")
					check(z, fmt.Sprintf("state advanced to slot %d before its block", built.Signed.Message.Slot))
				}
			}
			return false
		}}
		ok := runChain(b, sc, hooks, func(m *sim.Mismatch, trace []string) {
			if m.Kind == "root-mismatch" {
				b.Violate("staleness/root-vs-reference", m.What+" — scenario "+sc.String(), nil)
			}
		})
		for r := 0; r < 3 && ok && last != nil && !b.Stop(); r++ {
			c05ConcurrentStates(b, last, sc)
		}
	}
}

// c05ConcurrentStates: the chain's last state is loaded several times from its bytes (no shared tree nodes, own contexts) and the copies
// are advanced over the next epoch boundary at the same time in different goroutines; each must arrive at the root the same steps give
// when run alone, and each live root must equal the root rebuilt from the state's own bytes. Anything the library keeps process-wide
// while hashing (a shared hasher, a shared scratch buffer) would let independent states disturb each other's roots.
func c05ConcurrentStates(b *fw.B, c *sim.Chain, sc scenario) {
	data, err := sim.ZrntStateBytes(c.Z)
	if err != nil {
		return
	}
	fork := sim.ZrntFork(c.Z)
	spe := uint64(c.ZSpec.SLOTS_PER_EPOCH)
	target := common.Slot(c.Ref.Slot + spe + 2)
	run := func() (root common.Root, rebuilt common.Root, err error) {
		z, err := sim.LoadZrntState(c.ZSpec, fork, data)
		if err != nil {
			return root, rebuilt, err
		}
		epc, err := common.NewEpochsContext(c.ZSpec, z)
		if err != nil {
			return root, rebuilt, err
		}
		st := &beacon.StandardUpgradeableBeaconState{BeaconState: z}
		if err := common.ProcessSlots(context.Background(), c.ZSpec, epc, st, target); err != nil {
			return root, rebuilt, err
		}
		root = sim.ZrntStateRoot(st)
		out, err := sim.ZrntStateBytes(st)
		if err != nil {
			return root, rebuilt, err
		}
		re, err := sim.LoadZrntState(c.ZSpec, sim.ZrntFork(st), out)
		if err != nil {
			return root, rebuilt, err
		}
		return root, sim.ZrntStateRoot(re), nil
	}
	want, wantRe, err := run()
	if err != nil || want != wantRe {
		return // the sequential run is judged by the chain part
	}
	const G = 6
	type res struct {
		root, re common.Root
		err      error
		p        any
	}
	out := make([]res, G)
	var wg sync.WaitGroup
	for g := 0; g < G; g++ {
		wg.Add(1)
		go func(g int) {
			defer wg.Done()
			defer func() {
				if p := recover(); p != nil {
					out[g].p = p
				}
			}()
			out[g].root, out[g].re, out[g].err = run()
		}(g)
	}
	wg.Wait()
	b.Inc("concurrent_independent_state_runs")
	for g := range out {
		if out[g].p != nil || out[g].err != nil {
			b.Violate("concurrent-states/failed", fmt.Sprintf("advancing an independent copy of the state next to %d others failed (panic %v, err %v) although the same steps succeed alone — scenario %s", G-1, out[g].p, out[g].err, sc.String()), nil)
			return
		}
		if out[g].root != want || out[g].re != out[g].root {
			b.Violate("concurrent-states/root-differs", fmt.Sprintf("an independent copy of the state advanced to slot %d next to %d others reports root %x (rebuilt from its bytes: %x); the same steps alone give %x — scenario %s", target, G-1, out[g].root[:6], out[g].re[:6], want[:6], sc.String()), nil)
			return
		}
	}
}

// finishRegistryScan reports exported SSZ types of the repository that the registry does not cover.
func finishRegistryScan(m *fw.Merged) {
	have := map[string]bool{}
	for _, e := range schemas.Registry() {
		have[e.Name] = true
	}
	ignore := map[string]string{"common.specObj": "internal wrapper"}
	var missing []string
	total := 0
	fset := token.NewFileSet()
	for _, pkg := range []string{"common", "phase0", "altair", "bellatrix", "capella", "deneb", "electra"} {
		files, _ := filepath.Glob(filepath.Join(fw.RepoDir, "eth2/beacon", pkg, "*.go"))
		seen := map[string]bool{}
		for _, f := range files {
			if strings.HasSuffix(f, "_test.go") {
				continue
			}
			af, err := parser.ParseFile(fset, f, nil, 0)
			if err != nil {
				continue
			}
			for _, d := range af.Decls {
				fd, ok := d.(*ast.FuncDecl)
				if !ok || fd.Recv == nil || fd.Name.Name != "Deserialize" || len(fd.Recv.List) == 0 {
					continue
				}
				t := fd.Recv.List[0].Type
				if s, ok := t.(*ast.StarExpr); ok {
					t = s.X
				}
				id, ok := t.(*ast.Ident)
				if !ok {
					continue
				}
				name := pkg + "." + id.Name
				if seen[name] {
					continue
				}
				seen[name] = true
				if _, ig := ignore[name]; ig {
					continue
				}
				total++
				if !have[name] {
					missing = append(missing, name)
				}
			}
		}
	}
	sort.Strings(missing)
	m.Extra["types_in_repo"] = total
	m.Extra["types_covered"] = total - len(missing)
	m.Extra["types_not_in_registry"] = missing
	m.Counters["types_in_repo"] = int64(total)
	m.Counters["types_covered"] = int64(total - len(missing))
	if len(missing) > 0 {
		m.Inconclusive = append(m.Inconclusive, fmt.Sprintf("exported SSZ types without a schema in the registry: %v", missing))
	}
}

var _ = context.Background

// scribbleExecHeader overwrites the caller's header after it was handed to a setter: the state must not alias it.
func scribbleExecHeader(parentHash *common.Hash32, stateRoot, receiptsRoot, prevRandao *common.Bytes32, blockHash *common.Hash32, txRoot *common.Root, bloom *common.LogsBloom, extra []byte) {
	parentHash[0] ^= 0xff
	stateRoot[1] ^= 0xff
	receiptsRoot[2] ^= 0xff
	prevRandao[3] ^= 0xff
	blockHash[4] ^= 0xff
	txRoot[5] ^= 0xff
	bloom[6] ^= 0xff
	for i := range extra {
		extra[i] ^= 0xff
	}
}

// stateRawBytes calls the state view's Raw(spec) (struct form of the whole state) and serializes the result.
func stateRawBytes(spec *common.Spec, st common.BeaconState) (data []byte, err error, have bool) {
	m := reflect.ValueOf(st).MethodByName("Raw")
	if !m.IsValid() || m.Type().NumIn() != 1 || m.Type().NumOut() != 2 {
		return nil, nil, false
	}
	out := m.Call([]reflect.Value{reflect.ValueOf(spec)})
	if !out[1].IsNil() {
		return nil, out[1].Interface().(error), true
	}
	obj, ok := out[0].Interface().(common.SpecObj)
	if !ok {
		return nil, nil, false
	}
	var buf bytes.Buffer
	err = obj.Serialize(spec, codec.NewEncodingWriter(&buf))
	return buf.Bytes(), err, true
}
