package props

import (
	"fmt"
	"runtime/debug"
	"time"

	"github.com/protolambda/zrnt/eth2/beacon/common"

	"verif/fw"
)

// C16 — pubkey cache maps index and key exactly along each deposit history.
// Oracle: per handle an explicit list of pubkeys (index = position); full look-up battery on every
// live handle after every call. Non-termination shows as a fatal stack overflow of the child
// (attributed through the mmap'd case record) or as the watchdog (inconclusive).

func init() {
	fw.Register(&fw.Prop{
		ID:    "C16",
		Level: "exploration",
		Rule: "random histories of AddValidator calls over up to 6 handles forked from one another; each call is drawn from {known pair, next index with new key, conflicting key at a known index, " +
			"key known at a later index (deposit order differs between siblings), index beyond next}; pubkeys from a pool of 12 so the same key appears at different indices on sibling branches; " +
			"after every call every live handle answers Pubkey(i) for all i and ValidatorIndex(p) for all pool keys and is compared with the model list. A case is one history; non-trivial when it created >=1 forked handle; distinct by op sequence hash",
		Assumptions: []string{
			"a handle is the *PubkeyCache pointer; its history is the sequence of pairs appended through it (appends through a shared handle are visible to all holders, as documented in the code)",
			"AddValidator(i, p) where p is already known at an index j < i has no defined outcome in the statement (conflict vs beyond-next): only termination and non-disturbance of existing handles are judged for it",
		},
		Batches:      func(tier string) int { return 16 },
		Run:          runC16,
		Required:     []string{"op_known_pair", "op_next_new", "op_conflict_index", "op_conflict_key_later", "op_beyond", "forked_handles", "lookups_on_forked_handle", "sibling_only_key_queried"},
		ChildTimeout: func(tier string) time.Duration { return 10 * time.Minute },
	})
}

type pkModel struct {
	list []int // pubkey ids
}

func pkOf(id int) (p common.BLSPubkey) {
	p[0] = 0xa0
	p[1] = byte(id)
	p[47] = byte(id * 7)
	return
}

func runC16(b *fw.B) {
	debug.SetMaxStack(4 << 20)
	nHist := 5000 / 16
	if !fw.Quick(b.Tier) {
		nHist = 300000 / 16
	}
	const pool = 12
	for hI := 0; hI < nHist && !b.Stop(); hI++ {
		b.Case("history", fmt.Sprintf("history %d", hI))
		root := common.EmptyPubkeyCache()
		handles := []*common.PubkeyCache{root}
		models := map[*common.PubkeyCache]*pkModel{root: {}}
		forks := 0
		var opsDesc []string
		nOps := 5 + b.Rng.IntN(36)
		bad := false
		for op := 0; op < nOps && !bad; op++ {
			h := handles[b.Rng.IntN(len(handles))]
			m := models[h]
			L := m.list
			find := func(id int) int {
				for i, x := range L {
					if x == id {
						return i
					}
				}
				return -1
			}
			fresh := func() int { // id not in L
				for t := 0; t < 50; t++ {
					id := b.Rng.IntN(pool)
					if find(id) < 0 {
						return id
					}
				}
				return -1
			}
			kind := b.Rng.IntN(6)
			var idx, id int
			expect := ""
			switch kind {
			case 0: // known pair
				if len(L) == 0 {
					continue
				}
				idx = b.Rng.IntN(len(L))
				id = L[idx]
				expect = "noop"
			case 1, 5: // next index, new key
				id = fresh()
				if id < 0 {
					continue
				}
				idx = len(L)
				expect = "append"
			case 2: // conflicting key at known index
				id = fresh()
				if id < 0 || len(L) == 0 {
					continue
				}
				idx = b.Rng.IntN(len(L))
				expect = "fork"
			case 3: // key known at a later index j, added at i <= j, i != j
				if len(L) < 2 {
					continue
				}
				j := 1 + b.Rng.IntN(len(L)-1)
				idx = b.Rng.IntN(j)
				id = L[j]
				expect = "fork"
			case 4: // beyond next or key known earlier
				if b.Rng.IntN(3) == 0 && len(L) >= 1 {
					j := b.Rng.IntN(len(L))
					id = L[j]
					idx = j + 1 + b.Rng.IntN(len(L)-j+1)
					expect = "unjudged"
				} else {
					id = fresh()
					if id < 0 {
						continue
					}
					idx = len(L) + 1 + b.Rng.IntN(3)
					expect = "error"
				}
			}
			hNo := 0
			for i, x := range handles {
				if x == h {
					hNo = i
				}
			}
			desc := fmt.Sprintf("h%d.AddValidator(%d,k%d)->%s", hNo, idx, id, expect)
			opsDesc = append(opsDesc, desc)
			b.LogStep("%s", desc)
			var ret *common.PubkeyCache
			var err error
			if !b.NoPanic("AddValidator/panic", func() { ret, err = h.AddValidator(common.ValidatorIndex(idx), pkOf(id)) }) {
				bad = true
				break
			}
			viol := func(sig, what string) {
				b.Violate(sig, what+" — ops: "+fmt.Sprint(opsDesc), map[string]any{"ops": opsDesc})
				bad = true
			}
			switch expect {
			case "noop":
				b.Inc("op_known_pair")
				if err != nil || ret == nil {
					viol("known-pair/error", fmt.Sprintf("appending a known pair returned err=%v", err))
				} else if ret != h {
					if _, ok := models[ret]; !ok {
						models[ret] = &pkModel{list: append([]int{}, L...)}
						handles = append(handles, ret)
					}
				}
			case "append":
				b.Inc("op_next_new")
				if err != nil || ret == nil {
					viol("next-index/error", fmt.Sprintf("appending (next index, new key) returned err=%v", err))
				} else if ret == h {
					m.list = append(m.list, id)
				} else {
					models[ret] = &pkModel{list: append(append([]int{}, L...), id)}
					handles = append(handles, ret)
				}
			case "fork":
				if kind == 2 {
					b.Inc("op_conflict_index")
				} else {
					b.Inc("op_conflict_key_later")
				}
				if err != nil || ret == nil {
					viol("conflict/error", fmt.Sprintf("appending a conflicting pair returned err=%v instead of a new handle", err))
				} else if ret == h {
					viol("conflict/same-handle", "appending a conflicting pair returned the same handle")
				} else {
					if _, ok := models[ret]; ok {
						viol("conflict/existing-handle", "appending a conflicting pair returned an already existing handle")
					} else {
						models[ret] = &pkModel{list: append(append([]int{}, L[:idx]...), id)}
						if len(handles) < 6 {
							handles = append(handles, ret)
						} else {
							// replace a random non-root handle but keep checking only live ones
							k := 1 + b.Rng.IntN(len(handles)-1)
							handles[k] = ret
						}
						forks++
						b.Inc("forked_handles")
					}
				}
			case "error":
				b.Inc("op_beyond")
				if err == nil {
					viol("beyond-next/accepted", fmt.Sprintf("appending index %d beyond next index %d was accepted", idx, len(L)))
				}
			case "unjudged":
				b.Inc("op_unjudged_key_known_earlier")
				// outcome not judged; a returned new handle is not tracked. Whatever the outcome, a handle that is handed out must be
				// consistent with itself: a key it reports at index i is the key it reports for index i.
				if err == nil && ret != nil && ret != h {
					if _, known := models[ret]; !known {
						b.Inc("handles_from_the_unjudged_case_checked_for_self_consistency")
						for kid := 0; kid < pool && !bad; kid++ {
							var gi common.ValidatorIndex
							var ok bool
							if !b.NoPanic("ValidatorIndex/panic", func() { gi, ok = ret.ValidatorIndex(pkOf(kid)) }) {
								bad = true
								break
							}
							if !ok {
								continue
							}
							var cp *common.CachedPubkey
							var ok2 bool
							if !b.NoPanic("Pubkey/panic", func() { cp, ok2 = ret.Pubkey(gi) }) {
								bad = true
								break
							}
							if !ok2 || cp == nil || cp.Compressed != pkOf(kid) {
								viol("lookup/handle-contradicts-itself", fmt.Sprintf("a handle returned for (index %d, key k%d already known earlier) reports key k%d at index %d, but Pubkey(%d) ok=%v does not give that key", idx, id, kid, gi, gi, ok2))
							}
						}
					}
				}
			}
			if bad {
				break
			}
			// battery on every live handle
			for hn, hh := range handles {
				mm := models[hh]
				isFork := hh != root
				for i := 0; i <= len(mm.list)+1; i++ {
					var cp *common.CachedPubkey
					var ok bool
					if !b.NoPanic("Pubkey/panic", func() { cp, ok = hh.Pubkey(common.ValidatorIndex(i)) }) {
						bad = true
						break
					}
					if i < len(mm.list) {
						if !ok || cp == nil || cp.Compressed != pkOf(mm.list[i]) {
							viol("lookup/Pubkey-wrong", fmt.Sprintf("handle h%d: Pubkey(%d) ok=%v, history says key k%d", hn, i, ok, mm.list[i]))
							break
						}
					} else if ok {
						viol("lookup/Pubkey-phantom", fmt.Sprintf("handle h%d: Pubkey(%d) reports an entry, history has only %d entries", hn, i, len(mm.list)))
						break
					}
					if isFork {
						b.Inc("lookups_on_forked_handle")
					}
				}
				if bad {
					break
				}
				for id := 0; id < pool; id++ {
					want := -1
					for i, x := range mm.list {
						if x == id {
							want = i
						}
					}
					var gi common.ValidatorIndex
					var ok bool
					if !b.NoPanic("ValidatorIndex/panic", func() { gi, ok = hh.ValidatorIndex(pkOf(id)) }) {
						bad = true
						break
					}
					if want < 0 {
						// is it known on some other handle?
						for _, oh := range handles {
							if oh != hh {
								for _, x := range models[oh].list {
									if x == id {
										b.Inc("sibling_only_key_queried")
									}
								}
							}
						}
						if ok {
							viol("lookup/ValidatorIndex-sibling-leak", fmt.Sprintf("handle h%d: ValidatorIndex(k%d)=%d but the key is not in this handle's history %v", hn, id, gi, mm.list))
							break
						}
					} else if !ok || int(gi) != want {
						viol("lookup/ValidatorIndex-wrong", fmt.Sprintf("handle h%d: ValidatorIndex(k%d)=%d,%v, history says %d", hn, id, gi, ok, want))
						break
					}
				}
				if bad {
					break
				}
			}
		}
		if forks > 0 {
			b.Nontrivial(fmt.Sprint(opsDesc))
		}
		if hI < 2 {
			b.Sample(map[string]any{"history": opsDesc})
		}
	}
}
