package props

import (
	"context"
	"crypto/sha256"
	"encoding/binary"
	"errors"
	"fmt"
	"sort"
	"time"

	blsu "github.com/protolambda/bls12-381-util"
	"github.com/protolambda/zrnt/eth2/beacon"
	"github.com/protolambda/zrnt/eth2/beacon/altair"
	"github.com/protolambda/zrnt/eth2/beacon/common"
	"github.com/protolambda/zrnt/eth2/beacon/phase0"
	"github.com/protolambda/zrnt/eth2/gossipval"
	"github.com/protolambda/ztyp/tree"
	"github.com/protolambda/ztyp/view"

	"verif/fw"
	"verif/refspec"
	"verif/refssz"
	"verif/sim"
)

// C12 — gossip validation returns the p2p spec's verdict for every message.
//
// The chain view is an in-memory beacon.Chain built from a simulator run (ancestry by parent-root
// walk; deliberately not the proto-array). Messages are produced from the reference states; each
// corruption falsifies exactly one condition of the p2p-interface list of its topic, whose class
// (IGNORE = can fail through timing alone, REJECT) is taken from the spec.

// ---------------------------------------------------------------------------------------
// chain view

type gEntry struct {
	step   common.Step
	root   common.Root
	parent common.Root
	state  common.BeaconState
	epc    *common.EpochsContext
	ref    *refspec.State
}

func (e *gEntry) Step() common.Step                { return e.step }
func (e *gEntry) BlockRoot() (common.Root, error)  { return e.root, nil }
func (e *gEntry) ParentRoot() (common.Root, error) { return e.parent, nil }
func (e *gEntry) StateRoot() (common.Root, error)  { return sim.ZrntStateRoot(e.state), nil }
func (e *gEntry) EpochsContext(ctx context.Context) (*common.EpochsContext, error) {
	return e.epc, nil
}
func (e *gEntry) State(ctx context.Context) (common.BeaconState, error) { return e.state, nil }

type gView struct {
	zspec       *common.Spec
	sp          *refspec.Spec
	blocks      map[common.Root]*gEntry
	slotted     map[[40]byte]*gEntry
	head        common.Root
	fin         common.Checkpoint
	just        common.Checkpoint
	gvr         common.Root
	genesisTime uint64
	nowMs       int64 // milliseconds since genesis
	bad         map[common.Root]bool
	seen        map[string]bool
	marks       []string
}

func (v *gView) Spec() *common.Spec                 { return v.zspec }
func (v *gView) Chain() beacon.Chain                { return v }
func (v *gView) GenesisValidatorsRoot() common.Root { return v.gvr }
func (v *gView) IsBadBlock(r common.Root) bool      { return v.bad[r] }
func (v *gView) SlotAfter(delta time.Duration) common.Slot {
	t := v.nowMs + delta.Milliseconds()
	if t < 0 {
		return 0
	}
	return common.Slot(uint64(t) / (uint64(v.zspec.SECONDS_PER_SLOT) * 1000))
}
func (v *gView) HeadInfo(ctx context.Context) (beacon.ChainEntry, *common.EpochsContext, common.BeaconState, error) {
	return gossipval.RetrieveHeadInfo(ctx, v)
}
func (v *gView) GetDomain(typ common.BLSDomainType, epoch common.Epoch) (common.BLSDomain, error) {
	return common.GetDomain(v.blocks[v.head].state, typ, epoch)
}

// seen caches, every Mark is recorded
func (v *gView) see(k string) bool { return v.seen[k] }
func (v *gView) mark(k string)     { v.seen[k] = true; v.marks = append(v.marks, k) }
func (v *gView) SeenBlock(s common.Slot, p common.ValidatorIndex) bool {
	return v.see(fmt.Sprint("block", s, p))
}
func (v *gView) MarkBlock(s common.Slot, p common.ValidatorIndex) { v.mark(fmt.Sprint("block", s, p)) }
func (v *gView) SeenAttestation(e common.Epoch, i common.ValidatorIndex) bool {
	return v.see(fmt.Sprint("att", e, i))
}
func (v *gView) MarkAttestation(e common.Epoch, i common.ValidatorIndex) {
	v.mark(fmt.Sprint("att", e, i))
}
func (v *gView) SeenAggregate(r common.Root) bool { return v.see(fmt.Sprint("agg", r)) }
func (v *gView) MarkAggregate(r common.Root)      { v.mark(fmt.Sprint("agg", r)) }
func (v *gView) SeenAggregator(e common.Epoch, i common.ValidatorIndex) bool {
	return v.see(fmt.Sprint("aggr", e, i))
}
func (v *gView) MarkAggregator(e common.Epoch, i common.ValidatorIndex) {
	v.mark(fmt.Sprint("aggr", e, i))
}
func (v *gView) SeenExit(i common.ValidatorIndex) bool             { return v.see(fmt.Sprint("exit", i)) }
func (v *gView) MarkExit(i common.ValidatorIndex)                  { v.mark(fmt.Sprint("exit", i)) }
func (v *gView) SeenProposerSlashing(i common.ValidatorIndex) bool { return v.see(fmt.Sprint("ps", i)) }
func (v *gView) MarkProposerSlashing(i common.ValidatorIndex)      { v.mark(fmt.Sprint("ps", i)) }
func (v *gView) AttesterSlashableAllSeen(ix []common.ValidatorIndex) bool {
	for _, i := range ix {
		if !v.see(fmt.Sprint("as", i)) {
			return false
		}
	}
	return true
}
func (v *gView) MarkAttesterSlashings(ix []common.ValidatorIndex) {
	for _, i := range ix {
		v.mark(fmt.Sprint("as", i))
	}
}
func (v *gView) SeenSyncCommMsg(i common.ValidatorIndex, s common.Slot, sub uint64) bool {
	return v.see(fmt.Sprint("sync", i, s, sub))
}
func (v *gView) MarkSyncCommMsg(i common.ValidatorIndex, s common.Slot, sub uint64) {
	v.mark(fmt.Sprint("sync", i, s, sub))
}
func (v *gView) SeenContribution(i common.ValidatorIndex, s common.Slot, sub uint64) bool {
	return v.see(fmt.Sprint("contrib", i, s, sub))
}
func (v *gView) MarkContribution(i common.ValidatorIndex, s common.Slot, sub uint64) {
	v.mark(fmt.Sprint("contrib", i, s, sub))
}

// beacon.Chain
func (v *gView) ByStateRoot(root common.Root) (beacon.ChainEntry, bool) { return nil, false }
func (v *gView) ByBlock(root common.Root) (beacon.ChainEntry, bool) {
	e, ok := v.blocks[root]
	if !ok {
		return nil, false
	}
	return e, true
}
func (v *gView) at(root common.Root, slot common.Slot) (*gEntry, error) {
	e, ok := v.blocks[root]
	if !ok {
		return nil, errors.New("unknown block")
	}
	if e.step.Slot() > slot {
		return nil, errors.New("block is after the requested slot")
	}
	if e.step.Slot() == slot {
		return e, nil
	}
	var key [40]byte
	copy(key[:32], root[:])
	for i := 0; i < 8; i++ {
		key[32+i] = byte(uint64(slot) >> (8 * i))
	}
	if c, ok := v.slotted[key]; ok {
		return c, nil
	}
	cp, err := e.state.CopyState()
	if err != nil {
		return nil, err
	}
	z := &beacon.StandardUpgradeableBeaconState{BeaconState: cp}
	epc := e.epc.Clone()
	if err := common.ProcessSlots(context.Background(), v.zspec, epc, z, slot); err != nil {
		return nil, err
	}
	ref := e.ref.Copy()
	if err := v.sp.ProcessSlots(ref, uint64(slot)); err != nil {
		return nil, err
	}
	ne := &gEntry{step: common.AsStep(slot, false), root: root, parent: e.parent, state: z.BeaconState, epc: epc, ref: ref}
	v.slotted[key] = ne
	return ne, nil
}
func (v *gView) ByBlockSlot(root common.Root, slot common.Slot) (beacon.ChainEntry, bool) {
	if slot > v.SlotAfter(0)+1 {
		return nil, false
	}
	e, err := v.at(root, slot)
	if err != nil {
		return nil, false
	}
	return e, true
}
func (v *gView) Search(parentRoot *common.Root, slot *common.Slot) ([]beacon.SearchEntry, error) {
	return nil, errors.New("not supported by the test view")
}
func (v *gView) Closest(from common.Root, toSlot common.Slot) (beacon.ChainEntry, bool) {
	return v.ByBlock(from)
}
func (v *gView) InSubtree(anchor common.Root, root common.Root) (unknown bool, inSubtree bool) {
	if anchor == root {
		return false, true
	}
	a, ok1 := v.blocks[anchor]
	r, ok2 := v.blocks[root]
	if !ok1 || !ok2 {
		return true, false
	}
	for r != nil && r.step.Slot() > a.step.Slot() {
		if r.parent == anchor {
			return false, true
		}
		r = v.blocks[r.parent]
	}
	return false, false
}
func (v *gView) ByCanonStep(step common.Step) (beacon.ChainEntry, bool) { return nil, false }
func (v *gView) Iter() (beacon.ChainIter, error)                        { return nil, errors.New("not supported") }
func (v *gView) JustifiedCheckpoint() common.Checkpoint                 { return v.just }
func (v *gView) FinalizedCheckpoint() common.Checkpoint                 { return v.fin }
func (v *gView) Justified() (beacon.ChainEntry, error)                  { return v.blocks[v.just.Root], nil }
func (v *gView) Finalized() (beacon.ChainEntry, error)                  { return v.blocks[v.fin.Root], nil }
func (v *gView) Head() (beacon.ChainEntry, error)                       { return v.blocks[v.head], nil }
func (v *gView) Towards(ctx context.Context, from common.Root, toSlot common.Slot) (beacon.ChainEntry, error) {
	e, err := v.at(from, toSlot)
	if err != nil {
		return nil, err
	}
	return e, nil
}
func (v *gView) Genesis() beacon.GenesisInfo {
	return beacon.GenesisInfo{Time: common.Timestamp(v.genesisTime), ValidatorsRoot: v.gvr}
}

func (v *gView) setClock(slot uint64, offsetMs int64) {
	v.nowMs = int64(slot)*int64(v.zspec.SECONDS_PER_SLOT)*1000 + offsetMs
}

func (v *gView) fresh() {
	v.seen = map[string]bool{}
	v.marks = nil
	v.bad = map[common.Root]bool{}
}

// ---------------------------------------------------------------------------------------

func init() {
	fw.Register(&fw.Prop{
		ID:    "C12",
		Level: "exploration",
		Rule: "chain views built from simulator runs (phase0 -> altair -> bellatrix -> capella, finalising, with a live fork and a finalized-conflicting old branch); for every topic validator honest messages for many slots/committees/subnets/subcommittees and each single-condition corruption " +
			"(signature, selection proof, outer signature, subnet, clock window edges -disparity/+disparity/+-1 slot, committee index, bit count 0/2, bit length, unknown / non-descendant / finalized-conflicting roots, duplicates, bad-block marker, aggregator outside committee, wrong subcommittee): " +
			"all conditions true => ACCEPT; any condition false => never ACCEPT; only IGNORE-class (timing) conditions false => IGNORE; Mark* only in executions that ACCEPT; the honest message after refused ones is still ACCEPTed. A case is one (topic, message, clock, cache state); non-trivial when a condition is false; distinct by (topic, case name, slot)",
		Assumptions: []string{"condition lists and their IGNORE/REJECT classes transcribed from the phase0/altair p2p-interface of consensus-specs v1.5.0-beta.2; the chain view is an in-memory beacon.Chain of the harness (parent-root walk)",
			"views stay before DENEB_FORK_EPOCH (zrnt's gossip validators implement the pre-Deneb attestation window and exit domain): a limit, not judged",
			"messages are produced from the reference states (refspec) with the simulator's keys"},
		Batches:      func(tier string) int { return 16 },
		ChildTimeout: func(string) time.Duration { return 40 * time.Minute },
		Run:          runC12,
		Required: []string{"topic_block_accept", "topic_attestation_accept", "topic_aggregate_accept", "topic_exit_accept", "topic_proposer_slashing_accept", "topic_attester_slashing_accept", "topic_sync_message_accept", "topic_contribution_accept", "contribution_subcommittees_with_a_member_in_two_positions",
			"expect_ignore_cases", "expect_refuse_cases", "honest_after_refused_accept", "marks_checked"},
	})
}

type g12 struct {
	b   *fw.B
	v   *gView
	c   *sim.Chain
	sc  scenario
	ctx context.Context

	genesis                   common.Root
	oldBranch, liveFork       *sim.Chain
	oldBranchTip, liveForkTip common.Root
	finalConflict             bool // the old branch conflicts with the finalized checkpoint
}

func (g *g12) viol(sig, what string) {
	g.b.Violate(sig, what+" — scenario "+g.sc.String(), map[string]any{"scenario": g.sc.String()})
}

const (
	expAccept = iota
	expIgnore // every false condition is timing-only (IGNORE class): must be IGNORE
	expRefuse // some REJECT-class condition is false: anything but ACCEPT
)

// judge one validator execution
func (g *g12) judge(topic, name string, slot uint64, expect int, run func() gossipval.GossipValidatorResult) gossipval.GossipValidatorCode {
	b := g.b
	b.Case("gossip-"+topic, fmt.Sprintf("%s/%s slot %d", topic, name, slot))
	marksBefore := len(g.v.marks)
	var res gossipval.GossipValidatorResult
	if p, st := fw.Guard(func() { res = run() }); p != nil {
		g.b.Violate("panic/"+topic+"/"+name, fmt.Sprintf("%s validator panicked on case %q: %v", topic, name, p), map[string]any{"stack": st})
		return gossipval.REJECT
	}
	marked := len(g.v.marks) > marksBefore
	b.Inc("marks_checked")
	if marked && res.Result != gossipval.ACCEPT {
		g.viol("mark-without-accept/"+topic+"/"+name, fmt.Sprintf("%s: case %q returned %s but marked the seen-cache (%v)", topic, name, res.Result, g.v.marks[marksBefore:]))
	}
	switch expect {
	case expAccept:
		if res.Result != gossipval.ACCEPT {
			g.viol("honest-not-accepted/"+topic+"/"+name, fmt.Sprintf("%s: message %q satisfies every condition of the p2p spec but got %s: %v", topic, name, res.Result, res.Err))
		} else {
			b.Inc("topic_" + topic + "_accept")
		}
	case expIgnore:
		b.Inc("expect_ignore_cases")
		b.Nontrivial(topic, name, slot)
		if res.Result == gossipval.ACCEPT {
			g.viol("accepted-invalid/"+topic+"/"+name, fmt.Sprintf("%s: case %q violates a condition but was ACCEPTed", topic, name))
		} else if res.Result != gossipval.IGNORE {
			g.viol("timing-failure-rejected/"+topic+"/"+name, fmt.Sprintf("%s: case %q fails only conditions an honest sender can fail through timing, but got %s (%v) instead of IGNORE", topic, name, res.Result, res.Err))
		}
	case expRefuse:
		b.Inc("expect_refuse_cases")
		b.Nontrivial(topic, name, slot)
		if res.Result == gossipval.ACCEPT {
			g.viol("accepted-invalid/"+topic+"/"+name, fmt.Sprintf("%s: case %q violates a condition but was ACCEPTed", topic, name))
		}
	}
	return res.Result
}

func runC12(b *fw.B) {
	quick := fw.Quick(b.Tier)
	n := 2 // two views of different kinds per process: anything cached across configurations or chains would show
	if !quick {
		n = 6
	}
	for k := 0; k < n && !b.Stop(); k++ {
		c12View(b, k)
	}
}

func c12View(b *fw.B, k int) {
	ctx := context.Background()
	sc := scenario{Family: "gossip", Preset: "minimal", Validators: 64, ForkEpochs: [4]uint64{1, ff, ff, ff}, Participation: []float64{1}}
	nVariants := 9
	if !fw.Quick(b.Tier) {
		nVariants = 10
	}
	variant := (b.Batch + k) % nVariants
	if fw.Quick(b.Tier) && variant == 8 {
		variant = 9 // the mainnet view (8) is for the thorough tier only
	}
	switch variant {
	case 1:
		sc.ForkEpochs = [4]uint64{1, 2, ff, ff}
	case 2:
		sc.ForkEpochs = [4]uint64{2, 3, 4, ff}
	case 3:
		sc.ForkEpochs = [4]uint64{ff, ff, ff, ff}
	case 7:
		sc.Family = "gossip-fewvalidators" // fewer validators than sync committee seats: validators sit at several positions, in different subcommittees
		sc.Validators = 24
		sc.ForkEpochs = [4]uint64{1, 2, ff, ff}
		if ((b.Batch+k)/nVariants)%2 == 1 {
			// subcommittees of 32 seats for 24 validators: a validator holds two positions of the same subcommittee
			sc.Family = "gossip-fewvalidators-bigsync"
		}
	case 8:
		sc.Family = "gossip-mainnet" // 32-slot epochs: the deneb window (previous epoch) is wider than the 32-slot range
		sc.Preset = "mainnet"
		sc.ForkEpochs = [4]uint64{1, 2, 3, 4}
	case 6:
		sc.ForkEpochs = [4]uint64{1, 2, 3, 4} // deneb: epoch-based attestation window, fixed exit domain, blob commitments
		if ((b.Batch+k)/nVariants)%2 == 1 {
			// the head is inside the deneb fork epoch itself: the deneb rules apply from the first epoch on
			sc.Family = "gossip-denebforkepoch"
			sc.ForkEpochs[3] = 5
			if !fw.Quick(b.Tier) {
				sc.ForkEpochs[3] = 6
			}
		}
	case 4:
		sc.Family = "gossip-bigcommittee" // committees of 32 and a sync committee of 128: aggregator selection is not trivial
		sc.Validators = 256
	case 9:
		sc.Family = "gossip-manycommittees" // 16 committees per slot, 128 per epoch: more committees in an epoch than attestation subnets
		sc.Validators = 256
	case 5:
		sc.Family = "gossip-syncboundary" // the head is the last slot of a sync committee period
	}
	spec := specFor(sc)
	spe := uint64(spec.SLOTS_PER_EPOCH)
	epochs := uint64(5)
	if !fw.Quick(b.Tier) {
		epochs = 6
	}
	lastSlot := epochs*spe + 2
	switch variant {
	case 4:
		spec.MAX_COMMITTEES_PER_SLOT = 1
		spec.SYNC_COMMITTEE_SIZE = 128
	case 5:
		// the two committees of the altair upgrade and the one of the first rotation are all computed for the same epoch;
		// after the second rotation current != next
		spec.EPOCHS_PER_SYNC_COMMITTEE_PERIOD = 2
		lastSlot = 6*spe - 1
	case 7:
		if sc.Family == "gossip-fewvalidators-bigsync" {
			spec.SYNC_COMMITTEE_SIZE = 128
		}
	case 8:
		lastSlot = 5*spe + 20
	case 9:
		spec.MAX_COMMITTEES_PER_SLOT = 16
		spec.TARGET_COMMITTEE_SIZE = 2
	}
	// in these views the first slot of every epoch from 2 on is empty: the finalized root is a block before the finalized epoch's start slot
	gapAtEpochStart := variant == 1 || variant == 6 || variant == 7
	c, err := sim.NewChain(spec, b.Rng, sim.GenesisOpts{Validators: sc.Validators, Eth1Creds: func(i int) bool { return i%2 == 0 }})
	if err != nil {
		b.Note("gossip view genesis: %v", err)
		return
	}
	v := &gView{zspec: c.ZSpec, sp: c.Sp, blocks: map[common.Root]*gEntry{}, slotted: map[[40]byte]*gEntry{}, gvr: common.Root(c.Ref.GenesisValidatorsRoot), genesisTime: c.Ref.GenesisTime}
	g := &g12{b: b, v: v, c: c, sc: sc, ctx: ctx}
	v.fresh()
	record := func(ch *sim.Chain, built *sim.Built) *gEntry {
		cp, _ := ch.Z.BeaconState.CopyState()
		e := &gEntry{step: common.AsStep(common.Slot(built.Signed.Message.Slot), true), root: common.Root(ch.Sp.S.BlockRoot(&built.Signed.Message)), parent: common.Root(built.Signed.Message.ParentRoot),
			state: cp, epc: ch.Epc.Clone(), ref: ch.Ref.Copy()}
		v.blocks[e.root] = e
		return e
	}
	// genesis entry
	{
		hdr := c.Ref.LatestBlockHeader
		hdr.StateRoot = c.Sp.S.StateRoot(c.Ref)
		root := common.Root(refssz.RootOf(c.Sp.S.Header, hdr))
		cp, _ := c.Z.BeaconState.CopyState()
		v.blocks[root] = &gEntry{step: common.AsStep(0, true), root: root, state: cp, epc: c.Epc.Clone(), ref: c.Ref.Copy()}
		v.head = root
		g.genesis = root
	}
	plan := sim.Plan{Participation: 1, MaxAttSlotsBack: 1, SyncParticipation: 1, Blobs: 1}
	if gapAtEpochStart {
		plan.MaxAttSlotsBack = 2
	}
	for slot := uint64(1); slot <= lastSlot; slot++ {
		if slot == spe+3 {
			g.oldBranch, _ = c.Sibling()
		}
		if slot == lastSlot-2 {
			g.liveFork, _ = c.Sibling()
		}
		if slot%7 == 6 && slot != lastSlot {
			continue // a gap slot now and then
		}
		if gapAtEpochStart && slot%spe == 0 && slot >= 2*spe {
			continue
		}
		built, err := c.BuildBlock(slot, plan)
		if err != nil {
			continue
		}
		if m := c.ApplyBlock(ctx, built); m != nil {
			b.Note("gossip view chain stopped: %s", m.What)
			return
		}
		e := record(c, built)
		v.head = e.root
		if g.oldBranch != nil && slot >= spe+3 && slot <= spe+5 {
			if ob, err := g.oldBranch.BuildBlock(slot, sim.Plan{Participation: 0.2, SyncParticipation: 0.5}); err == nil && g.oldBranch.ApplyBlock(ctx, ob) == nil {
				// a different block at the same slot (other participation)
				if oe := record(g.oldBranch, ob); oe.root != e.root {
					g.oldBranchTip = oe.root
				}
			}
		}
	}
	if g.liveFork != nil {
		s := c.Ref.Slot
		if lb, err := g.liveFork.BuildBlock(s, sim.Plan{Participation: 0.3, SyncParticipation: 0.4}); err == nil && g.liveFork.ApplyBlock(ctx, lb) == nil {
			if le := record(g.liveFork, lb); le.root != v.head {
				g.liveForkTip = le.root
			}
		}
	}
	head := v.blocks[v.head]
	v.fin = common.Checkpoint{Epoch: common.Epoch(head.ref.FinalizedCheckpoint.Epoch), Root: common.Root(head.ref.FinalizedCheckpoint.Root)}
	v.just = common.Checkpoint{Epoch: common.Epoch(head.ref.CurrentJustifiedCheckpoint.Epoch), Root: common.Root(head.ref.CurrentJustifiedCheckpoint.Root)}
	if v.fin.Epoch == 0 {
		v.fin.Root = g.genesis // the genesis checkpoint root is zero in the state
	}
	if v.just.Epoch == 0 {
		v.just.Root = g.genesis
	}
	g.finalConflict = g.oldBranchTip != common.Root{} && uint64(v.fin.Epoch)*spe > spe+5
	b.CountIf(v.fin.Epoch >= 2, "views_with_finality")
	b.CountIf(g.finalConflict, "views_with_finalized_conflicting_branch")
	b.CountIf(g.liveForkTip != common.Root{}, "views_with_live_fork")
	b.SetAdd("view_variants", sc.Family+fmt.Sprint(sc.ForkEpochs))
	if k == 0 && b.Batch < 6 {
		b.Sample(map[string]any{"view": fmt.Sprintf("%s: %d blocks, head slot %d (fork %d), finalized epoch %d, forks %v", sc.Family, len(v.blocks), head.step.Slot(), head.ref.Fork, v.fin.Epoch, sc.ForkEpochs)})
	}
	g.blockTopic()
	g.attestationTopics()
	g.opsTopics()
	if head.ref.Fork >= refspec.Altair {
		g.syncTopics(0)
		if variant == 5 || (b.Batch+k)%3 == 0 {
			// messages for the empty slot after the head, still voting for the head: the committee is the one of the message's slot
			// (in the sync-boundary view that slot is the first one of the next period)
			g.syncTopics(1)
		}
	}
}

// checkpointOf walks the parent roots: the last block at or before the start of the epoch on the chain of root.
func (g *g12) checkpointOf(root common.Root, epoch uint64) *gEntry {
	start := epoch * g.c.Sp.SLOTS_PER_EPOCH
	e := g.v.blocks[root]
	for e != nil && uint64(e.step.Slot()) > start {
		e = g.v.blocks[e.parent]
	}
	return e
}

func (g *g12) ancestorAtOrBefore(root common.Root, slot uint64) *gEntry {
	e := g.v.blocks[root]
	for e != nil && uint64(e.step.Slot()) > slot {
		e = g.v.blocks[e.parent]
	}
	return e
}

// ---------------------------------------------------------------------------------------
// beacon_block

func (g *g12) envelope(ch *sim.Chain, sb *refspec.SignedBlock) *common.BeaconBlockEnvelope {
	data := ch.Sp.S.SignedBlockBytes(sb)
	fork := sb.Message.Fork
	env, _, err := sim.DecodeBlock(g.v.zspec, fork, data, common.ComputeForkDigest(common.Version(ch.Sp.ForkVersions[fork]), g.v.gvr))
	if err != nil {
		return nil
	}
	return env
}

func (g *g12) blockTopic() {
	v, c := g.v, g.c
	head := v.blocks[v.head]
	slot := uint64(head.step.Slot()) + 1
	built, err := c.BuildBlock(slot, sim.Plan{Participation: 1, SyncParticipation: 1})
	if err != nil {
		return
	}
	honest := g.envelope(c, built.Signed)
	if honest == nil {
		return
	}
	run := func(env *common.BeaconBlockEnvelope) func() gossipval.GossipValidatorResult {
		return func() gossipval.GossipValidatorResult { return gossipval.ValidateBeaconBlock(g.ctx, env, v) }
	}
	sps := int64(v.zspec.SECONDS_PER_SLOT) * 1000
	g.b.CountIf(slot%g.c.Sp.SLOTS_PER_EPOCH == 0, "blocks_whose_parent_is_in_the_previous_epoch")
	// clock edges
	v.fresh()
	v.setClock(slot, -500)
	g.judge("block", "honest-at-minus-disparity", slot, expAccept, run(honest))
	v.fresh()
	v.setClock(slot, -501)
	g.judge("block", "future-slot-beyond-disparity", slot, expIgnore, run(honest))
	g.judge("block", "future-slot-beyond-disparity-again", slot, expIgnore, run(honest))
	v.setClock(slot, 0)
	if g.judge("block", "honest", slot, expAccept, run(honest)) == gossipval.ACCEPT {
		g.b.Inc("honest_after_refused_accept")
	}
	g.judge("block", "duplicate", slot, expIgnore, run(honest))
	v.setClock(slot+3, sps/2)
	v.fresh()
	g.judge("block", "honest-late", slot, expAccept, run(honest))
	// corruptions, each followed by the honest block
	type corr struct {
		name   string
		expect int
		env    *common.BeaconBlockEnvelope
	}
	mut := func(f func(sb *refspec.SignedBlock, resign func(key uint64))) *common.BeaconBlockEnvelope {
		sb := deepCopy(*built.Signed)
		resign := func(key uint64) {
			sp := c.Sp
			sr := sp.SigningRoot(sp.S.BlockRoot(&sb.Message), sp.Domain(built.Pre, refspec.DOMAIN_BEACON_PROPOSER, sp.EpochAtSlot(sb.Message.Slot)))
			sb.Signature = sim.Sign(c.Keys.SK[c.KeyOf[built.Pre.Validators[key].Pubkey]], sr)
		}
		f(&sb, resign)
		return g.envelope(c, &sb)
	}
	other := (built.Signed.Message.ProposerIndex + 1) % uint64(len(built.Pre.Validators))
	corrs := []corr{
		{"bad-signature", expRefuse, mut(func(sb *refspec.SignedBlock, _ func(uint64)) { sb.Signature[20] ^= 1 })},
		{"signed-by-other-validator-claiming-the-slot", expRefuse, mut(func(sb *refspec.SignedBlock, resign func(uint64)) {
			sb.Message.ProposerIndex = other
			resign(other)
		})},
		{"other-proposer-index-with-the-proposers-signature", expRefuse, mut(func(sb *refspec.SignedBlock, resign func(uint64)) {
			sb.Message.ProposerIndex = other
			resign(built.Signed.Message.ProposerIndex)
		})},
		{"unknown-parent", expIgnore, mut(func(sb *refspec.SignedBlock, resign func(uint64)) {
			sb.Message.ParentRoot[0] ^= 0x55
			resign(sb.Message.ProposerIndex)
		})},
		{"slot-not-after-parent", expRefuse, mut(func(sb *refspec.SignedBlock, resign func(uint64)) {
			sb.Message.Slot = uint64(head.step.Slot())
			resign(sb.Message.ProposerIndex)
		})},
		{"signed-under-other-genesis-validators-root", expRefuse, mut(func(sb *refspec.SignedBlock, _ func(uint64)) {
			sp := c.Sp
			var otherGvr refspec.Root
			otherGvr[3] = 9
			dom := sp.ComputeDomain(refspec.DOMAIN_BEACON_PROPOSER, sp.ForkVersions[sb.Message.Fork], otherGvr)
			sb.Signature = sim.Sign(c.Keys.SK[c.KeyOf[built.Pre.Validators[sb.Message.ProposerIndex].Pubkey]], sp.SigningRoot(sp.S.BlockRoot(&sb.Message), dom))
		})},
	}
	if built.Signed.Message.Fork >= refspec.Bellatrix {
		corrs = append(corrs, corr{"payload-timestamp-not-the-slot-time", expRefuse, mut(func(sb *refspec.SignedBlock, resign func(uint64)) {
			sb.Message.Body.ExecutionPayload.Timestamp++
			resign(sb.Message.ProposerIndex)
		})})
	}
	if built.Signed.Message.Fork == refspec.Bellatrix {
		corrs = append(corrs, corr{"empty-payload-after-the-merge", expRefuse, mut(func(sb *refspec.SignedBlock, resign func(uint64)) {
			sb.Message.Body.ExecutionPayload = refspec.ExecutionPayload{LogsBloom: make([]byte, c.Sp.BYTES_PER_LOGS_BLOOM), ExtraData: []byte{}}
			resign(sb.Message.ProposerIndex)
		})})
	}
	if built.Signed.Message.Fork >= refspec.Deneb {
		corrs = append(corrs, corr{"more-blob-commitments-than-blobs-allowed", expRefuse, mut(func(sb *refspec.SignedBlock, resign func(uint64)) {
			for uint64(len(sb.Message.Body.BlobKZGCommitments)) <= uint64(v.zspec.MAX_BLOBS_PER_BLOCK) {
				sb.Message.Body.BlobKZGCommitments = append(sb.Message.Body.BlobKZGCommitments, [48]byte{0xc0})
			}
			resign(sb.Message.ProposerIndex)
		})})
	}
	// a block building on the finalized-conflicting old branch, at the current slot
	if g.finalConflict {
		if ob, err := g.oldBranch.BuildBlock(slot, sim.Plan{Participation: 0}); err == nil {
			if env := g.envelope(g.oldBranch, ob.Signed); env != nil {
				corrs = append(corrs, corr{"parent-not-descendant-of-finalized", expRefuse, env})
			}
		}
	}
	for _, cr := range corrs {
		if cr.env == nil {
			continue
		}
		v.fresh()
		v.setClock(slot, 100)
		g.judge("block", cr.name, slot, cr.expect, run(cr.env))
		if g.judge("block", "honest-after-"+cr.name, slot, expAccept, run(honest)) == gossipval.ACCEPT {
			g.b.Inc("honest_after_refused_accept")
		}
	}
	// blocks at and before the finalized slot, built on the finalized chain itself: only "slot > finalized slot" is false
	if fe := v.blocks[v.fin.Root]; fe != nil && v.fin.Epoch >= 1 {
		finSlot := uint64(v.fin.Epoch) * c.Sp.SLOTS_PER_EPOCH
		try := func(name string, parent *gEntry, s uint64, expect int) {
			sib, err := c.Sibling()
			if err != nil || parent == nil || uint64(parent.step.Slot()) >= s {
				return
			}
			sib.Ref = parent.ref.Copy()
			if sib.ReloadZrnt() != nil {
				return
			}
			if ob, err := sib.BuildBlock(s, sim.Plan{Participation: 0}); err == nil {
				if env := g.envelope(sib, ob.Signed); env != nil {
					v.fresh()
					v.setClock(slot, 100)
					g.judge("block", name, s, expect, run(env))
					if g.judge("block", "honest-after-"+name, slot, expAccept, run(honest)) == gossipval.ACCEPT {
						g.b.Inc("honest_after_refused_accept")
					}
				}
			}
		}
		if uint64(fe.step.Slot()) < finSlot {
			g.b.Inc("views_with_finalized_root_before_the_finalized_slot")
			try("late-block-at-the-finalized-slot-on-the-finalized-root", fe, finSlot, expIgnore)
		}
		try("late-block-one-slot-after-the-finalized-slot", fe, finSlot+1, expAccept)
		try("late-block-before-the-finalized-slot", v.blocks[fe.parent], uint64(fe.step.Slot()), expRefuse)
	}
	// an honest block on the live fork (other parent, maybe other proposer), and two slots later after a gap
	if g.liveForkTip != (common.Root{}) {
		for _, s := range []uint64{slot, slot + 2} {
			sib, err := g.liveFork.Sibling()
			if err != nil {
				continue
			}
			if lb, err := sib.BuildBlock(s, sim.Plan{Participation: 0.5, SyncParticipation: 0.5}); err == nil {
				if env := g.envelope(sib, lb.Signed); env != nil {
					v.fresh()
					v.setClock(s, 200)
					g.judge("block", "honest-on-live-fork", s, expAccept, run(env))
					g.judge("block", "duplicate-on-live-fork", s, expIgnore, run(env))
				}
			}
		}
	}
}

// ---------------------------------------------------------------------------------------
// attestations and aggregates

func (g *g12) signAtt(st *refspec.State, data refspec.AttestationData, validators []uint64) [96]byte {
	sp := g.c.Sp
	var sks []*blsu.SecretKey
	for _, x := range validators {
		sks = append(sks, g.c.Keys.SK[g.c.KeyOf[st.Validators[x].Pubkey]])
	}
	return sim.AggSign(sks, sp.SigningRoot(refssz.RootOf(sp.S.AttestationData, data), sp.Domain(st, refspec.DOMAIN_BEACON_ATTESTER, data.Target.Epoch)))
}

func zAtt(bits []bool, d refspec.AttestationData, sig [96]byte) *phase0.Attestation {
	return &phase0.Attestation{AggregationBits: bitsOf(bits), Signature: common.BLSSignature(sig), Data: phase0.AttestationData{
		Slot: common.Slot(d.Slot), Index: common.CommitteeIndex(d.Index), BeaconBlockRoot: common.Root(d.BeaconBlockRoot),
		Source: common.Checkpoint{Epoch: common.Epoch(d.Source.Epoch), Root: common.Root(d.Source.Root)}, Target: common.Checkpoint{Epoch: common.Epoch(d.Target.Epoch), Root: common.Root(d.Target.Root)}}}
}

// selected reports is_aggregator / is_sync_committee_aggregator for a selection proof
func selected(proof [96]byte, modulo uint64) bool {
	if modulo < 1 {
		modulo = 1
	}
	h := sha256.Sum256(proof[:])
	return binary.LittleEndian.Uint64(h[:8])%modulo == 0
}

// a vote: the committee is the one of the state at the start of the target epoch on the chain of the target root
type gVote struct {
	tst       *refspec.State
	committee []uint64
	cps       uint64
	data      refspec.AttestationData
}

func (g *g12) vote(voted, target common.Root, s, ci uint64) *gVote {
	sp := g.c.Sp
	te := s / sp.SLOTS_PER_EPOCH
	tEntry, err := g.v.at(target, common.Slot(te*sp.SLOTS_PER_EPOCH))
	if err != nil {
		return nil
	}
	tst := tEntry.ref
	cps := sp.CommitteeCountPerSlot(tst, te)
	if ci >= cps {
		return nil
	}
	return &gVote{tst: tst, committee: sp.BeaconCommittee(tst, s, ci), cps: cps,
		data: refspec.AttestationData{Slot: s, Index: ci, BeaconBlockRoot: refspec.Root(voted), Source: tst.CurrentJustifiedCheckpoint, Target: refspec.Checkpoint{Epoch: te, Root: refspec.Root(target)}}}
}

func (g *g12) single(vt *gVote, d refspec.AttestationData, positions []int, bitLen int, signer []uint64) *phase0.Attestation {
	bits := make([]bool, bitLen)
	for _, p := range positions {
		if p < bitLen {
			bits[p] = true
		}
	}
	return zAtt(bits, d, g.signAtt(vt.tst, d, signer))
}

func (g *g12) selProof(st *refspec.State, validator, slot uint64) [96]byte {
	sp := g.c.Sp
	sk := g.c.Keys.SK[g.c.KeyOf[st.Validators[validator].Pubkey]]
	return sim.Sign(sk, sp.SigningRoot(refspec.U64Root(slot), sp.Domain(st, refspec.DOMAIN_SELECTION_PROOF, slot/sp.SLOTS_PER_EPOCH)))
}

func (g *g12) mkAgg(vt *gVote, d refspec.AttestationData, positions []int, aggregator uint64, mods func(m *phase0.SignedAggregateAndProof)) *phase0.SignedAggregateAndProof {
	sp := g.c.Sp
	var signers []uint64
	bits := make([]bool, len(vt.committee))
	for _, p := range positions {
		signers = append(signers, vt.committee[p])
		bits[p] = true
	}
	var sig [96]byte
	if len(signers) > 0 {
		sig = g.signAtt(vt.tst, d, signers)
	} else {
		sig[0] = 0xc0
	}
	agg := zAtt(bits, d, sig)
	sk := g.c.Keys.SK[g.c.KeyOf[vt.tst.Validators[aggregator].Pubkey]]
	m := &phase0.SignedAggregateAndProof{Message: phase0.AggregateAndProof{AggregatorIndex: common.ValidatorIndex(aggregator), Aggregate: *agg, SelectionProof: common.BLSSignature(g.selProof(vt.tst, aggregator, d.Slot))}}
	if mods != nil {
		mods(m)
	}
	msgRoot := m.Message.HashTreeRoot(g.v.zspec, hfnTree())
	m.Signature = common.BLSSignature(sim.Sign(sk, sp.SigningRoot(refspec.Root(msgRoot), sp.Domain(vt.tst, refspec.DOMAIN_AGGREGATE_AND_PROOF, d.Slot/sp.SLOTS_PER_EPOCH))))
	return m
}

func (g *g12) attestationTopics() {
	v, sp := g.v, g.c.Sp
	head := v.blocks[v.head]
	spe := sp.SLOTS_PER_EPOCH
	headSlot := uint64(head.step.Slot())
	sps := int64(v.zspec.SECONDS_PER_SLOT) * 1000
	backs := []uint64{0, 1, 3, 5}
	if !fw.Quick(g.b.Tier) {
		backs = []uint64{0, 1, 2, 3, 4, 5, 6, 8, 11}
	}
	if spe > 8 {
		backs = []uint64{0, 1, 19, 21, 33, 40} // mainnet: the current epoch, the previous one, and more than 32 slots back
	}
	runA := func(a *phase0.Attestation, sub uint64) func() gossipval.GossipValidatorResult {
		return func() gossipval.GossipValidatorResult {
			_, r := gossipval.ValidateAttestation(g.ctx, sub, a, v)
			return r
		}
	}
	runG := func(m *phase0.SignedAggregateAndProof) func() gossipval.GossipValidatorResult {
		return func() gossipval.GossipValidatorResult {
			_, r := gossipval.ValidateAggregateAndProof(g.ctx, m, v)
			return r
		}
	}
	for _, back := range backs {
		if back > headSlot {
			continue
		}
		s := headSlot - back
		te := s / spe
		if te >= uint64(v.zspec.DENEB_FORK_EPOCH) && te+1 < (headSlot+1)/spe {
			continue // deneb window: at the clock used below (headSlot+1) this slot is neither in the current nor the previous epoch
		}
		if te < uint64(v.zspec.DENEB_FORK_EPOCH) && s+32 < headSlot+1 {
			continue // pre-deneb window: older than ATTESTATION_PROPAGATION_SLOT_RANGE at the clock used below
		}
		g.b.CountIf(s+32 < headSlot+1, "honest_votes_older_than_32_slots_in_the_deneb_window")
		votedE := g.ancestorAtOrBefore(v.head, s)
		targetE := g.checkpointOf(v.head, te)
		if votedE == nil || targetE == nil {
			continue
		}
		g.b.CountIf(uint64(votedE.step.Slot()) < s, "votes_at_gap_slots")
		g.b.CountIf(te < headSlot/spe, "votes_with_previous_epoch_target")
		for ci := uint64(0); ; ci++ {
			vt := g.vote(votedE.root, targetE.root, s, ci)
			if vt == nil {
				break
			}
			committee, data, cps := vt.committee, vt.data, vt.cps
			if len(committee) < 2 {
				continue
			}
			if cps > 4 && ci != 0 && ci != cps-1 && ci != (s*7+3)%cps {
				continue // many committees per slot: the first, the last and one in between
			}
			subnet := ((s%spe)*cps + ci) % 64
			g.b.CountIf((s%spe)*cps+ci >= 64, "votes_of_committees_numbered_64_or_more_within_their_epoch")
			pos := g.b.Rng.IntN(len(committee))
			honest := g.single(vt, data, []int{pos}, len(committee), []uint64{committee[pos]})
			v.fresh()
			v.setClock(headSlot+1, 0)
			g.judge("attestation", "honest", s, expAccept, runA(honest, subnet))
			g.judge("attestation", "duplicate-vote", s, expIgnore, runA(honest, subnet))
			// a second, different vote by the same validator for the same target epoch
			d1 := data
			d1.Source.Root[5] ^= 1
			g.judge("attestation", "second-vote-same-target-epoch", s, expIgnore, runA(g.single(vt, d1, []int{pos}, len(committee), []uint64{committee[pos]}), subnet))
			// clock window edges
			v.fresh()
			v.setClock(s, -500)
			g.judge("attestation", "honest-at-minus-disparity", s, expAccept, runA(honest, subnet))
			v.fresh()
			v.setClock(s, -501)
			g.judge("attestation", "from-the-future", s, expIgnore, runA(honest, subnet))
			// the last instant of the propagation window and the first one after it
			lastIn, firstOut := s+32, s+33
			if te >= uint64(v.zspec.DENEB_FORK_EPOCH) {
				// deneb: the attestation's epoch is the current or the previous epoch
				lastIn, firstOut = (te+2)*spe-1, (te+2)*spe
			}
			v.fresh()
			v.setClock(lastIn, sps-1+499)
			g.judge("attestation", "honest-at-end-of-window", s, expAccept, runA(honest, subnet))
			v.fresh()
			v.setClock(firstOut, 500)
			g.judge("attestation", "too-old", s, expIgnore, runA(honest, subnet))
			// single-condition corruptions
			type corr struct {
				name   string
				expect int
				att    *phase0.Attestation
				subnet uint64
				prep   func()
			}
			d2 := data
			d2.Target.Epoch++
			d3 := data
			d3.Index = cps
			d4 := data
			d4.BeaconBlockRoot = refspec.Root{0xab, 0xcd}
			d5 := data
			d5.Target.Root = refspec.Root{0x12}
			one := func(d refspec.AttestationData) *phase0.Attestation {
				return g.single(vt, d, []int{pos}, len(committee), []uint64{committee[pos]})
			}
			badSig := one(data)
			badSig.Signature[30] ^= 1
			next := (pos + 1) % len(committee)
			corrs := []corr{
				{"wrong-subnet", expRefuse, honest, (subnet + 1) % 64, nil},
				{"target-epoch-mismatch", expRefuse, one(d2), subnet, nil},
				{"committee-index-out-of-range", expRefuse, one(d3), subnet, nil},
				{"no-bits", expRefuse, g.single(vt, data, nil, len(committee), []uint64{committee[pos]}), subnet, nil},
				{"two-bits", expRefuse, g.single(vt, data, []int{pos, next}, len(committee), []uint64{committee[pos], committee[next]}), subnet, nil},
				{"bits-longer-than-committee", expRefuse, g.single(vt, data, []int{pos}, len(committee)+1, []uint64{committee[pos]}), subnet, nil},
				{"bits-shorter-than-committee", expRefuse, g.single(vt, data, []int{0}, len(committee)-1, []uint64{committee[0]}), subnet, nil},
				{"bad-signature", expRefuse, badSig, subnet, nil},
				{"signed-by-other-member", expRefuse, g.single(vt, data, []int{pos}, len(committee), []uint64{committee[next]}), subnet, nil},
				{"unknown-block", expIgnore, one(d4), subnet, nil},
				{"unknown-target", expRefuse, one(d5), subnet, nil},
				{"bad-block-marker", expRefuse, honest, subnet, func() { v.bad[votedE.root] = true }},
			}
			// the target names an ancestor of the vote that is not the epoch's checkpoint block
			if deeper := v.blocks[targetE.parent]; deeper != nil && targetE.step.Slot() > 0 {
				if dv := g.vote(votedE.root, deeper.root, s, ci); dv != nil && len(dv.committee) == len(committee) {
					corrs = append(corrs, corr{"target-is-a-deeper-ancestor", expRefuse, g.single(dv, dv.data, []int{pos}, len(dv.committee), []uint64{dv.committee[pos]}), subnet, nil})
				}
			}
			if g.finalConflict {
				// honest on its own (stale) branch: committee and signature from that branch's state
				if ov := g.vote(g.oldBranchTip, g.oldBranchTip, s, 0); ov != nil && len(ov.committee) > 0 {
					osub := ((s % spe) * ov.cps) % 64
					corrs = append(corrs, corr{"block-on-finalized-conflicting-branch", expIgnore, g.single(ov, ov.data, []int{0}, len(ov.committee), []uint64{ov.committee[0]}), osub, nil})
				}
				// canonical vote, target on the other branch
				d6 := data
				d6.Target.Root = refspec.Root(g.oldBranchTip)
				corrs = append(corrs, corr{"target-on-other-branch", expRefuse, one(d6), subnet, nil})
			}
			for _, cr := range corrs {
				v.fresh()
				v.setClock(headSlot+1, 0)
				if cr.prep != nil {
					cr.prep()
				}
				g.judge("attestation", cr.name, s, cr.expect, runA(cr.att, cr.subnet))
				v.bad = map[common.Root]bool{}
				if g.judge("attestation", "honest-after-"+cr.name, s, expAccept, runA(honest, subnet)) == gossipval.ACCEPT {
					g.b.Inc("honest_after_refused_accept")
				}
			}
			// an honest vote for the tip of the live fork (same target checkpoint)
			if lt := v.blocks[g.liveForkTip]; lt != nil && uint64(lt.step.Slot()) <= s {
				if lc := g.checkpointOf(g.liveForkTip, te); lc != nil {
					if lv := g.vote(g.liveForkTip, lc.root, s, ci); lv != nil && len(lv.committee) > 0 {
						v.fresh()
						v.setClock(headSlot+1, 0)
						g.judge("attestation", "honest-vote-for-live-fork", s, expAccept, runA(g.single(lv, lv.data, []int{0}, len(lv.committee), []uint64{lv.committee[0]}), subnet))
					}
				}
			}

			// ---- aggregate and proof
			all := make([]int, len(committee))
			for i := range all {
				all[i] = i
			}
			modulo := uint64(len(committee)) / 16
			var aggregator, notSelected uint64 = ^uint64(0), ^uint64(0)
			for _, m := range committee {
				if selected(g.selProof(vt.tst, m, s), modulo) {
					if aggregator == ^uint64(0) || g.b.Rng.IntN(3) == 0 {
						aggregator = m
					}
				} else {
					notSelected = m
				}
			}
			if aggregator == ^uint64(0) {
				g.b.Inc("committees_without_selected_aggregator")
				continue
			}
			honestAgg := g.mkAgg(vt, data, all, aggregator, nil)
			v.fresh()
			v.setClock(headSlot+1, 0)
			g.judge("aggregate", "honest", s, expAccept, runG(honestAgg))
			g.judge("aggregate", "duplicate", s, expIgnore, runG(honestAgg))
			v.fresh()
			v.setClock(firstOut, 500)
			g.judge("aggregate", "too-old", s, expIgnore, runG(honestAgg))
			v.fresh()
			v.setClock(lastIn, sps-1+499)
			g.judge("aggregate", "honest-at-end-of-window", s, expAccept, runG(honestAgg))
			v.fresh()
			v.setClock(s, -501)
			g.judge("aggregate", "from-the-future", s, expIgnore, runG(honestAgg))
			outsider := uint64(0)
			for x := uint64(0); x < uint64(len(vt.tst.Validators)); x++ {
				in := false
				for _, m := range committee {
					in = in || m == x
				}
				if !in {
					outsider = x
					break
				}
			}
			type aggCorr struct {
				name   string
				expect int
				m      *phase0.SignedAggregateAndProof
			}
			aggCorrs := []aggCorr{
				{"bad-outer-signature", expRefuse, func() *phase0.SignedAggregateAndProof {
					m := g.mkAgg(vt, data, all, aggregator, nil)
					m.Signature[11] ^= 1
					return m
				}()},
				{"outer-signature-over-other-message", expRefuse, func() *phase0.SignedAggregateAndProof {
					m := g.mkAgg(vt, data, all, aggregator, nil)
					m.Message.Aggregate.Data.Source.Root[0] ^= 1 // signed before this edit; the aggregate signature does not cover it either
					return m
				}()},
				{"bad-selection-proof", expRefuse, g.mkAgg(vt, data, all, aggregator, func(m *phase0.SignedAggregateAndProof) { m.Message.SelectionProof[11] ^= 1 })},
				{"selection-proof-for-other-slot", expRefuse, g.mkAgg(vt, data, all, aggregator, func(m *phase0.SignedAggregateAndProof) {
					m.Message.SelectionProof = common.BLSSignature(g.selProof(vt.tst, aggregator, data.Slot+1))
				})},
				{"selection-proof-by-other-validator", expRefuse, g.mkAgg(vt, data, all, aggregator, func(m *phase0.SignedAggregateAndProof) {
					m.Message.SelectionProof = common.BLSSignature(g.selProof(vt.tst, outsider, data.Slot))
				})},
				{"bad-aggregate-signature", expRefuse, g.mkAgg(vt, data, all, aggregator, func(m *phase0.SignedAggregateAndProof) { m.Message.Aggregate.Signature[11] ^= 1 })},
				{"aggregate-missing-a-signer", expRefuse, g.mkAgg(vt, data, all, aggregator, func(m *phase0.SignedAggregateAndProof) {
					m.Message.Aggregate.Signature = common.BLSSignature(g.signAtt(vt.tst, data, committee[1:]))
				})},
				{"bits-longer-than-committee", expRefuse, g.mkAgg(vt, data, all, aggregator, func(m *phase0.SignedAggregateAndProof) {
					bits := make([]bool, len(committee)+1)
					for i := range committee {
						bits[i] = true
					}
					m.Message.Aggregate.AggregationBits = bitsOf(bits)
				})},
				{"no-participants", expRefuse, g.mkAgg(vt, data, nil, aggregator, nil)},
				{"aggregator-not-in-committee", expRefuse, g.mkAgg(vt, data, all, outsider, nil)},
				{"target-epoch-mismatch", expRefuse, g.mkAgg(vt, d2, all, aggregator, nil)},
				{"committee-index-out-of-range", expRefuse, g.mkAgg(vt, d3, all, aggregator, nil)},
				{"unknown-block", expIgnore, g.mkAgg(vt, d4, all, aggregator, nil)},
				{"unknown-target", expRefuse, g.mkAgg(vt, d5, all, aggregator, nil)},
			}
			if notSelected != ^uint64(0) {
				g.b.Inc("aggregates_by_a_member_not_selected")
				aggCorrs = append(aggCorrs, aggCorr{"aggregator-not-selected", expRefuse, g.mkAgg(vt, data, all, notSelected, nil)})
			}
			if deeper := v.blocks[targetE.parent]; deeper != nil && targetE.step.Slot() > 0 {
				if dv := g.vote(votedE.root, deeper.root, s, ci); dv != nil && len(dv.committee) == len(committee) {
					var dagg uint64 = ^uint64(0)
					for _, m := range dv.committee {
						if selected(g.selProof(dv.tst, m, s), modulo) {
							dagg = m
						}
					}
					if dagg != ^uint64(0) {
						aggCorrs = append(aggCorrs, aggCorr{"target-is-a-deeper-ancestor", expRefuse, g.mkAgg(dv, dv.data, all, dagg, nil)})
					}
				}
			}
			if g.finalConflict {
				if ov := g.vote(g.oldBranchTip, g.oldBranchTip, s, 0); ov != nil && len(ov.committee) > 0 {
					oall := make([]int, len(ov.committee))
					for i := range oall {
						oall[i] = i
					}
					for _, m := range ov.committee {
						if selected(g.selProof(ov.tst, m, s), uint64(len(ov.committee))/16) {
							aggCorrs = append(aggCorrs, aggCorr{"block-on-finalized-conflicting-branch", expIgnore, g.mkAgg(ov, ov.data, oall, m, nil)})
							break
						}
					}
				}
				d6 := data
				d6.Target.Root = refspec.Root(g.oldBranchTip)
				aggCorrs = append(aggCorrs, aggCorr{"target-on-other-branch", expRefuse, g.mkAgg(vt, d6, all, aggregator, nil)})
			}
			for _, cr := range aggCorrs {
				v.fresh()
				v.setClock(headSlot+1, 0)
				g.judge("aggregate", cr.name, s, cr.expect, runG(cr.m))
				if g.judge("aggregate", "honest-after-"+cr.name, s, expAccept, runG(honestAgg)) == gossipval.ACCEPT {
					g.b.Inc("honest_after_refused_accept")
				}
			}
			// the identical aggregate forwarded by another selected aggregator of the committee
			for _, other := range committee {
				if other != aggregator && selected(g.selProof(vt.tst, other, s), modulo) {
					v.fresh()
					v.setClock(headSlot+1, 0)
					g.judge("aggregate", "honest", s, expAccept, runG(honestAgg))
					g.judge("aggregate", "same-aggregate-by-another-aggregator", s, expIgnore, runG(g.mkAgg(vt, data, all, other, nil)))
					break
				}
			}
			// a second, different aggregate by the same aggregator in the same epoch
			v.fresh()
			v.setClock(headSlot+1, 0)
			g.judge("aggregate", "honest", s, expAccept, runG(honestAgg))
			g.judge("aggregate", "second-aggregate-by-same-aggregator", s, expIgnore, runG(g.mkAgg(vt, data, all[1:], aggregator, nil)))
			v.fresh()
			v.bad[votedE.root] = true
			g.judge("aggregate", "bad-block-marker", s, expRefuse, runG(honestAgg))
			v.bad = map[common.Root]bool{}
			// a partial honest aggregate by another selected aggregator
			if len(committee) > 2 {
				v.fresh()
				g.judge("aggregate", "honest-partial", s, expAccept, runG(g.mkAgg(vt, data, all[:len(all)-1], aggregator, nil)))
			}
		}
	}
}

// ---------------------------------------------------------------------------------------
// exits and slashings

func (g *g12) opsTopics() {
	v, c := g.v, g.c
	head := v.blocks[v.head]
	st := head.ref
	sp := c.Sp
	cur := sp.CurrentEpoch(st)
	nVal := uint64(len(st.Validators))
	// voluntary exit
	var cand uint64 = ^uint64(0)
	for i := range st.Validators {
		vv := &st.Validators[i]
		if refspec.IsActive(vv, cur) && vv.ExitEpoch == refspec.FarFuture && cur >= vv.ActivationEpoch+sp.SHARD_COMMITTEE_PERIOD {
			cand = uint64(i)
			if g.b.Rng.IntN(4) == 0 {
				break
			}
		}
	}
	if cand != ^uint64(0) {
		forkDomain := false
		mk := func(validator, epoch uint64, key uint64) *phase0.SignedVoluntaryExit {
			ex := refspec.VoluntaryExit{Epoch: epoch, ValidatorIndex: validator}
			dom := sp.Domain(st, refspec.DOMAIN_VOLUNTARY_EXIT, epoch)
			if st.Fork >= refspec.Deneb && !forkDomain {
				// EIP-7044: exits stay valid forever, signed under the capella version
				dom = sp.ComputeDomain(refspec.DOMAIN_VOLUNTARY_EXIT, sp.ForkVersions[refspec.Capella], st.GenesisValidatorsRoot)
			}
			sr := sp.SigningRoot(refssz.RootOf(sp.S.VoluntaryExit, ex), dom)
			return &phase0.SignedVoluntaryExit{Message: phase0.VoluntaryExit{Epoch: common.Epoch(epoch), ValidatorIndex: common.ValidatorIndex(validator)}, Signature: common.BLSSignature(sim.Sign(c.Keys.SK[c.KeyOf[st.Validators[key].Pubkey]], sr))}
		}
		run := func(e *phase0.SignedVoluntaryExit) func() gossipval.GossipValidatorResult {
			return func() gossipval.GossipValidatorResult { return gossipval.ValidateVoluntaryExit(g.ctx, e, v) }
		}
		honest := mk(cand, cur, cand)
		slot := st.Slot
		v.fresh()
		g.judge("exit", "wrong-key", slot, expRefuse, run(mk(cand, cur, (cand+1)%nVal)))
		g.judge("exit", "future-epoch", slot, expRefuse, run(mk(cand, cur+1, cand)))
		g.judge("exit", "validator-out-of-range", slot, expRefuse, run(&phase0.SignedVoluntaryExit{Message: phase0.VoluntaryExit{Epoch: common.Epoch(cur), ValidatorIndex: common.ValidatorIndex(nVal + 3)}}))
		bad := mk(cand, cur, cand)
		bad.Signature[40] ^= 1
		g.judge("exit", "bad-signature", slot, expRefuse, run(bad))
		if st.Fork >= refspec.Deneb {
			forkDomain = true
			g.judge("exit", "signed-under-the-deneb-fork-version", slot, expRefuse, run(mk(cand, cur, cand)))
			forkDomain = false
		}
		if g.judge("exit", "honest", slot, expAccept, run(honest)) == gossipval.ACCEPT {
			g.b.Inc("honest_after_refused_accept")
		}
		g.judge("exit", "duplicate", slot, expIgnore, run(honest))
		if cur > 0 {
			v.fresh()
			g.judge("exit", "honest-with-earlier-epoch", slot, expAccept, run(mk(cand, cur-1, cand)))
		}
	}
	// proposer slashing
	var cands []uint64
	for i := range st.Validators {
		if refspec.IsSlashable(&st.Validators[i], cur) {
			cands = append(cands, uint64(i))
		}
	}
	if len(cands) <= 3 {
		return
	}
	g.b.Rng.Shuffle(len(cands), func(i, j int) { cands[i], cands[j] = cands[j], cands[i] })
	pv := cands[0]
	mkHdr := func(tag byte, slot, proposer uint64, key uint64) common.SignedBeaconBlockHeader {
		h := refspec.Header{Slot: slot, ProposerIndex: proposer, ParentRoot: refspec.Root{tag}, StateRoot: refspec.Root{tag, 1}, BodyRoot: refspec.Root{tag, 2}}
		sr := sp.SigningRoot(refssz.RootOf(sp.S.Header, h), sp.Domain(st, refspec.DOMAIN_BEACON_PROPOSER, slot/sp.SLOTS_PER_EPOCH))
		return common.SignedBeaconBlockHeader{Message: common.BeaconBlockHeader{Slot: common.Slot(slot), ProposerIndex: common.ValidatorIndex(proposer), ParentRoot: common.Root(h.ParentRoot), StateRoot: common.Root(h.StateRoot), BodyRoot: common.Root(h.BodyRoot)},
			Signature: common.BLSSignature(sim.Sign(c.Keys.SK[c.KeyOf[st.Validators[key].Pubkey]], sr))}
	}
	hs := st.Slot
	honest := &phase0.ProposerSlashing{SignedHeader1: mkHdr(1, hs, pv, pv), SignedHeader2: mkHdr(2, hs, pv, pv)}
	run := func(p *phase0.ProposerSlashing) func() gossipval.GossipValidatorResult {
		return func() gossipval.GossipValidatorResult { return gossipval.ValidateProposerSlashing(g.ctx, p, v) }
	}
	v.fresh()
	g.judge("proposer_slashing", "identical-headers", hs, expRefuse, run(&phase0.ProposerSlashing{SignedHeader1: mkHdr(1, hs, pv, pv), SignedHeader2: mkHdr(1, hs, pv, pv)}))
	g.judge("proposer_slashing", "different-slots", hs, expRefuse, run(&phase0.ProposerSlashing{SignedHeader1: mkHdr(1, hs, pv, pv), SignedHeader2: mkHdr(2, hs+1, pv, pv)}))
	g.judge("proposer_slashing", "different-proposers", hs, expRefuse, run(&phase0.ProposerSlashing{SignedHeader1: mkHdr(1, hs, pv, pv), SignedHeader2: mkHdr(2, hs, cands[1], cands[1])}))
	g.judge("proposer_slashing", "second-header-signed-by-other-key", hs, expRefuse, run(&phase0.ProposerSlashing{SignedHeader1: mkHdr(1, hs, pv, pv), SignedHeader2: mkHdr(2, hs, pv, cands[1])}))
	g.judge("proposer_slashing", "first-header-signed-by-other-key", hs, expRefuse, run(&phase0.ProposerSlashing{SignedHeader1: mkHdr(1, hs, pv, cands[1]), SignedHeader2: mkHdr(2, hs, pv, pv)}))
	g.judge("proposer_slashing", "proposer-out-of-range", hs, expRefuse, run(&phase0.ProposerSlashing{SignedHeader1: mkHdr(1, hs, nVal+1, pv), SignedHeader2: mkHdr(2, hs, nVal+1, pv)}))
	if g.judge("proposer_slashing", "honest", hs, expAccept, run(honest)) == gossipval.ACCEPT {
		g.b.Inc("honest_after_refused_accept")
	}
	g.judge("proposer_slashing", "duplicate", hs, expIgnore, run(honest))
	g.judge("proposer_slashing", "second-slashing-of-same-proposer", hs, expIgnore, run(&phase0.ProposerSlashing{SignedHeader1: mkHdr(3, hs, pv, pv), SignedHeader2: mkHdr(4, hs, pv, pv)}))
	// attester slashing (double vote by three validators)
	idx := append([]uint64{}, cands[1:4]...)
	sort.Slice(idx, func(i, j int) bool { return idx[i] < idx[j] })
	mkIA := func(tag byte, srcEpoch, tgtEpoch uint64, ix []uint64, signers []uint64) phase0.IndexedAttestation {
		d := refspec.AttestationData{Slot: tgtEpoch * sp.SLOTS_PER_EPOCH, Index: 0, BeaconBlockRoot: refspec.Root{tag}, Source: refspec.Checkpoint{Epoch: srcEpoch, Root: refspec.Root{tag, 1}}, Target: refspec.Checkpoint{Epoch: tgtEpoch, Root: refspec.Root{tag, 2}}}
		sig := g.signAtt(st, d, signers)
		za := zAtt(nil, d, sig)
		ci := make(common.CommitteeIndices, len(ix))
		for i, x := range ix {
			ci[i] = common.ValidatorIndex(x)
		}
		return phase0.IndexedAttestation{AttestingIndices: ci, Data: za.Data, Signature: za.Signature}
	}
	honestAS := &phase0.AttesterSlashing{Attestation1: mkIA(1, 0, cur, idx, idx), Attestation2: mkIA(2, 0, cur, idx, idx)}
	runAS := func(a *phase0.AttesterSlashing) func() gossipval.GossipValidatorResult {
		return func() gossipval.GossipValidatorResult { return gossipval.ValidateAttesterSlashing(g.ctx, a, v) }
	}
	v.fresh()
	g.judge("attester_slashing", "identical-data", hs, expRefuse, runAS(&phase0.AttesterSlashing{Attestation1: mkIA(1, 0, cur, idx, idx), Attestation2: mkIA(1, 0, cur, idx, idx)}))
	g.judge("attester_slashing", "unsorted-indices", hs, expRefuse, runAS(&phase0.AttesterSlashing{Attestation1: mkIA(1, 0, cur, []uint64{idx[1], idx[0], idx[2]}, idx), Attestation2: mkIA(2, 0, cur, idx, idx)}))
	g.judge("attester_slashing", "duplicate-indices", hs, expRefuse, runAS(&phase0.AttesterSlashing{Attestation1: mkIA(1, 0, cur, []uint64{idx[0], idx[0], idx[2]}, []uint64{idx[0], idx[0], idx[2]}), Attestation2: mkIA(2, 0, cur, idx, idx)}))
	g.judge("attester_slashing", "first-signature-misses-a-signer", hs, expRefuse, runAS(&phase0.AttesterSlashing{Attestation1: mkIA(1, 0, cur, idx, idx[:2]), Attestation2: mkIA(2, 0, cur, idx, idx)}))
	g.judge("attester_slashing", "second-signature-misses-a-signer", hs, expRefuse, runAS(&phase0.AttesterSlashing{Attestation1: mkIA(1, 0, cur, idx, idx), Attestation2: mkIA(2, 0, cur, idx, idx[1:])}))
	g.judge("attester_slashing", "no-common-index", hs, expRefuse, runAS(&phase0.AttesterSlashing{Attestation1: mkIA(1, 0, cur, idx[:1], idx[:1]), Attestation2: mkIA(2, 0, cur, idx[1:], idx[1:])}))
	if cur >= 1 {
		g.judge("attester_slashing", "neither-double-nor-surround", hs, expRefuse, runAS(&phase0.AttesterSlashing{Attestation1: mkIA(1, 0, cur-1, idx, idx), Attestation2: mkIA(2, 0, cur, idx, idx)}))
	}
	g.judge("attester_slashing", "empty-indices", hs, expRefuse, runAS(&phase0.AttesterSlashing{Attestation1: mkIA(1, 0, cur, nil, nil), Attestation2: mkIA(2, 0, cur, idx, idx)}))
	if g.judge("attester_slashing", "honest", hs, expAccept, runAS(honestAS)) == gossipval.ACCEPT {
		g.b.Inc("honest_after_refused_accept")
	}
	g.judge("attester_slashing", "all-indices-seen", hs, expIgnore, runAS(honestAS))
	// the voters of the first attestation are a superset starting with one the second does not have
	v.fresh()
	g.judge("attester_slashing", "honest-first-has-a-leading-voter-the-second-lacks", hs, expAccept, runAS(&phase0.AttesterSlashing{Attestation1: mkIA(1, 0, cur, idx, idx), Attestation2: mkIA(2, 0, cur, idx[1:], idx[1:])}))
	v.fresh()
	g.judge("attester_slashing", "honest-partial-overlap", hs, expAccept, runAS(&phase0.AttesterSlashing{Attestation1: mkIA(1, 0, cur, idx[:2], idx[:2]), Attestation2: mkIA(2, 0, cur, idx[1:], idx[1:])}))
	if cur >= 3 {
		v.fresh()
		// surround vote: (0 -> cur) surrounds (1 -> cur-1)
		g.judge("attester_slashing", "honest-surround", hs, expAccept, runAS(&phase0.AttesterSlashing{Attestation1: mkIA(1, 0, cur, idx, idx), Attestation2: mkIA(2, 1, cur-1, idx[:2], idx[:2])}))
	}
}

// ---------------------------------------------------------------------------------------
// sync committee topics

func (g *g12) syncTopics(gap uint64) {
	v, c := g.v, g.c
	sp := c.Sp
	head := v.blocks[v.head]
	slot := uint64(head.step.Slot()) + gap
	st := head.ref
	if gap > 0 {
		st = head.ref.Copy()
		if err := sp.ProcessSlots(st, slot); err != nil {
			return
		}
		if st.Fork != head.ref.Fork {
			return // not across an upgrade (other domain and message types)
		}
		g.b.Inc("sync_topics_for_the_empty_slot_after_the_head")
		g.b.CountIf(st.CurrentSyncCommittee.Pubkeys[0] != head.ref.CurrentSyncCommittee.Pubkeys[0] || st.CurrentSyncCommittee.Pubkeys[1] != head.ref.CurrentSyncCommittee.Pubkeys[1], "sync_topics_for_an_empty_slot_whose_committee_differs_from_the_heads")
	}
	nVal := uint64(len(st.Validators))
	subSize := sp.SYNC_COMMITTEE_SIZE / 4
	sps := int64(v.zspec.SECONDS_PER_SLOT) * 1000
	// compute_subnets_for_sync_committee / get_sync_subcommittee_pubkeys: the committee of the epoch of slot+1
	period := func(s uint64) uint64 { return s / sp.SLOTS_PER_EPOCH / sp.EPOCHS_PER_SYNC_COMMITTEE_PERIOD }
	comm := &st.CurrentSyncCommittee
	if period(slot+1) != period(slot) {
		comm = &st.NextSyncCommittee
		g.b.Inc("sync_views_at_the_last_slot_of_a_period")
		g.b.CountIf(st.NextSyncCommittee.Pubkeys[0] != st.CurrentSyncCommittee.Pubkeys[0] || st.NextSyncCommittee.Pubkeys[1] != st.CurrentSyncCommittee.Pubkeys[1], "sync_views_at_the_last_slot_of_a_period_with_a_different_next_committee")
	}
	indexOf := func(pk [48]byte) uint64 {
		for i := range st.Validators {
			if st.Validators[i].Pubkey == pk {
				return uint64(i)
			}
		}
		return ^uint64(0)
	}
	signMsg := func(validator uint64, root refspec.Root, s uint64) [96]byte {
		sr := sp.SigningRoot(root, sp.Domain(st, refspec.DOMAIN_SYNC_COMMITTEE, s/sp.SLOTS_PER_EPOCH))
		return sim.Sign(c.Keys.SK[c.KeyOf[st.Validators[validator].Pubkey]], sr)
	}
	inSubnet := func(val uint64, sub uint64) bool {
		for p, pk := range comm.Pubkeys {
			if uint64(p)/subSize == sub && indexOf(pk) == val {
				return true
			}
		}
		return false
	}
	var outsider uint64 = ^uint64(0)
	for x := uint64(0); x < nVal; x++ {
		if !inSubnet(x, 0) && !inSubnet(x, 1) && !inSubnet(x, 2) && !inSubnet(x, 3) {
			outsider = x
			break
		}
	}
	nPos := 4
	if !fw.Quick(g.b.Tier) {
		nPos = 12
	}
	for k := 0; k < nPos; k++ {
		pos := uint64(g.b.Rng.IntN(int(sp.SYNC_COMMITTEE_SIZE)))
		member := indexOf(comm.Pubkeys[pos])
		subnet := pos / subSize
		mk := func(s uint64, root refspec.Root, validator uint64, signer uint64) *altair.SyncCommitteeMessage {
			return &altair.SyncCommitteeMessage{Slot: common.Slot(s), BeaconBlockRoot: common.Root(root), ValidatorIndex: common.ValidatorIndex(validator), Signature: common.BLSSignature(signMsg(signer, root, s))}
		}
		run := func(m *altair.SyncCommitteeMessage, sub uint64) func() gossipval.GossipValidatorResult {
			return func() gossipval.GossipValidatorResult {
				_, r := gossipval.ValidateSyncCommitteeSubnet(g.ctx, sub, m, v)
				return r
			}
		}
		honest := mk(slot, refspec.Root(head.root), member, member)
		wrongSub := (subnet + 1) % 4
		v.fresh()
		v.setClock(slot, 100)
		g.judge("sync_message", "honest", slot, expAccept, run(honest, subnet))
		g.judge("sync_message", "duplicate", slot, expIgnore, run(honest, subnet))
		v.fresh()
		v.setClock(slot+1, 600) // the message's slot is the previous slot, beyond the disparity allowance
		g.judge("sync_message", "previous-slot", slot, expIgnore, run(honest, subnet))
		v.fresh()
		v.setClock(slot+1, 499)
		g.judge("sync_message", "previous-slot-within-disparity", slot, expAccept, run(honest, subnet))
		v.fresh()
		v.setClock(slot-1, sps-501)
		g.judge("sync_message", "next-slot-beyond-disparity", slot, expIgnore, run(honest, subnet))
		v.fresh()
		v.setClock(slot-1, sps-500)
		g.judge("sync_message", "next-slot-within-disparity", slot, expAccept, run(honest, subnet))
		type corr struct {
			name   string
			expect int
			m      *altair.SyncCommitteeMessage
			sub    uint64
		}
		bad := mk(slot, refspec.Root(head.root), member, member)
		bad.Signature[7] ^= 1
		corrs := []corr{
			{"bad-signature", expRefuse, bad, subnet},
			{"signed-by-other-validator", expRefuse, mk(slot, refspec.Root(head.root), member, (member+1)%nVal), subnet},
			{"unknown-block", expIgnore, mk(slot, refspec.Root{0xfe}, member, member), subnet},
			{"validator-out-of-range", expRefuse, mk(slot, refspec.Root(head.root), nVal+2, member), subnet},
		}
		if !inSubnet(member, wrongSub) {
			corrs = append(corrs, corr{"wrong-subnet", expRefuse, honest, wrongSub})
		}
		if outsider != ^uint64(0) {
			corrs = append(corrs, corr{"validator-not-in-committee", expRefuse, mk(slot, refspec.Root(head.root), outsider, outsider), subnet})
		}
		for _, cr := range corrs {
			v.fresh()
			v.setClock(slot, 100)
			g.judge("sync_message", cr.name, slot, cr.expect, run(cr.m, cr.sub))
			if g.judge("sync_message", "honest-after-"+cr.name, slot, expAccept, run(honest, subnet)) == gossipval.ACCEPT {
				g.b.Inc("honest_after_refused_accept")
			}
		}
		// the same validator on another subnet it also belongs to is a separate message
		for sub := uint64(0); sub < 4; sub++ {
			if sub != subnet && inSubnet(member, sub) {
				v.fresh()
				v.setClock(slot, 100)
				g.judge("sync_message", "honest", slot, expAccept, run(honest, subnet))
				g.judge("sync_message", "honest-same-validator-other-subnet", slot, expAccept, run(honest, sub))
				g.b.Inc("sync_members_with_seats_in_several_subcommittees")
				break
			}
		}
		// ---- contribution and proof for this subcommittee
		var members []uint64
		for p := subnet * subSize; p < (subnet+1)*subSize; p++ {
			members = append(members, indexOf(comm.Pubkeys[p]))
		}
		selProofC := func(aggregator, s, sub uint64) [96]byte {
			ask := c.Keys.SK[c.KeyOf[st.Validators[aggregator].Pubkey]]
			selData := altair.SyncAggregatorSelectionData{Slot: common.Slot(s), SubcommitteeIndex: view.Uint64View(sub)}
			selRoot := selData.HashTreeRoot(hfnTree())
			return sim.Sign(ask, sp.SigningRoot(refspec.Root(selRoot), sp.Domain(st, refspec.DOMAIN_SYNC_SELECTION_PROOF, s/sp.SLOTS_PER_EPOCH)))
		}
		mkC := func(s uint64, root refspec.Root, sub uint64, participants []bool, aggregator uint64, mods func(m *altair.SignedContributionAndProof)) *altair.SignedContributionAndProof {
			var sks []*blsu.SecretKey
			bits := make(altair.SyncCommitteeSubnetBits, (subSize+7)/8)
			for i, p := range participants {
				if p {
					bits[i/8] |= 1 << uint(i%8)
					sks = append(sks, c.Keys.SK[c.KeyOf[st.Validators[members[i]].Pubkey]])
				}
			}
			var sig [96]byte
			if len(sks) > 0 {
				sig = sim.AggSign(sks, sp.SigningRoot(root, sp.Domain(st, refspec.DOMAIN_SYNC_COMMITTEE, s/sp.SLOTS_PER_EPOCH)))
			} else {
				sig[0] = 0xc0
			}
			ask := c.Keys.SK[c.KeyOf[st.Validators[aggregator].Pubkey]]
			m := &altair.SignedContributionAndProof{Message: altair.ContributionAndProof{AggregatorIndex: common.ValidatorIndex(aggregator),
				Contribution:   altair.SyncCommitteeContribution{Slot: common.Slot(s), BeaconBlockRoot: common.Root(root), SubcommitteeIndex: view.Uint64View(sub), AggregationBits: bits, Signature: common.BLSSignature(sig)},
				SelectionProof: common.BLSSignature(selProofC(aggregator, s, sub))}}
			if mods != nil {
				mods(m)
			}
			mr := m.Message.HashTreeRoot(v.zspec, hfnTree())
			m.Signature = common.BLSSignature(sim.Sign(ask, sp.SigningRoot(refspec.Root(mr), sp.Domain(st, refspec.DOMAIN_CONTRIBUTION_AND_PROOF, s/sp.SLOTS_PER_EPOCH))))
			return m
		}
		allP := make([]bool, subSize)
		for i := range allP {
			allP[i] = true
		}
		modulo := sp.SYNC_COMMITTEE_SIZE / 4 / 16
		var aggregator, notSelected uint64 = ^uint64(0), ^uint64(0)
		for _, m := range members {
			if selected(selProofC(m, slot, subnet), modulo) {
				if aggregator == ^uint64(0) || g.b.Rng.IntN(3) == 0 {
					aggregator = m
				}
			} else {
				notSelected = m
			}
		}
		if aggregator == ^uint64(0) {
			g.b.Inc("subcommittees_without_selected_aggregator")
			continue
		}
		honestC := mkC(slot, refspec.Root(head.root), subnet, allP, aggregator, nil)
		runC := func(m *altair.SignedContributionAndProof) func() gossipval.GossipValidatorResult {
			return func() gossipval.GossipValidatorResult {
				_, r := gossipval.ValidateSyncContribAndProof(g.ctx, m, v)
				return r
			}
		}
		v.fresh()
		v.setClock(slot, 100)
		g.judge("contribution", "honest", slot, expAccept, runC(honestC))
		g.judge("contribution", "duplicate", slot, expIgnore, runC(honestC))
		v.fresh()
		v.setClock(slot+1, 600)
		g.judge("contribution", "previous-slot", slot, expIgnore, runC(honestC))
		v.fresh()
		v.setClock(slot+1, 499)
		g.judge("contribution", "previous-slot-within-disparity", slot, expAccept, runC(honestC))
		noneP := make([]bool, subSize)
		partial := make([]bool, subSize)
		partial[g.b.Rng.IntN(int(subSize))] = true
		type cCorr struct {
			name   string
			expect int
			m      *altair.SignedContributionAndProof
		}
		cCorrs := []cCorr{
			{"bad-outer-signature", expRefuse, func() *altair.SignedContributionAndProof {
				m := mkC(slot, refspec.Root(head.root), subnet, allP, aggregator, nil)
				m.Signature[9] ^= 1
				return m
			}()},
			{"bad-selection-proof", expRefuse, mkC(slot, refspec.Root(head.root), subnet, allP, aggregator, func(m *altair.SignedContributionAndProof) { m.Message.SelectionProof[9] ^= 1 })},
			{"selection-proof-for-other-subcommittee", expRefuse, mkC(slot, refspec.Root(head.root), subnet, allP, aggregator, func(m *altair.SignedContributionAndProof) {
				m.Message.SelectionProof = common.BLSSignature(selProofC(aggregator, slot, (subnet+1)%4))
			})},
			{"bad-contribution-signature", expRefuse, mkC(slot, refspec.Root(head.root), subnet, allP, aggregator, func(m *altair.SignedContributionAndProof) { m.Message.Contribution.Signature[9] ^= 1 })},
			{"contribution-signature-misses-a-participant", expRefuse, mkC(slot, refspec.Root(head.root), subnet, allP, aggregator, func(m *altair.SignedContributionAndProof) {
				m.Message.Contribution.Signature = mkC(slot, refspec.Root(head.root), subnet, partial, aggregator, nil).Message.Contribution.Signature
			})},
			{"no-participants", expRefuse, mkC(slot, refspec.Root(head.root), subnet, noneP, aggregator, nil)},
			{"subcommittee-index-out-of-range", expRefuse, mkC(slot, refspec.Root(head.root), 4, allP, aggregator, nil)},
			{"unknown-block", expIgnore, mkC(slot, refspec.Root{0xfd}, subnet, allP, aggregator, nil)},
		}
		// a validator can hold several positions of a subcommittee (the committee is sampled with replacement): every set position counts
		dupPos := -1
		for i := range members {
			for j := 0; j < i; j++ {
				if members[i] == members[j] {
					dupPos = i
				}
			}
		}
		if dupPos >= 0 {
			g.b.Inc("contribution_subcommittees_with_a_member_in_two_positions")
			onceP := append([]bool{}, allP...)
			onceP[dupPos] = false
			cCorrs = append(cCorrs, cCorr{"repeated-member-signed-once-for-two-set-positions", expRefuse, mkC(slot, refspec.Root(head.root), subnet, allP, aggregator, func(m *altair.SignedContributionAndProof) {
				m.Message.Contribution.Signature = mkC(slot, refspec.Root(head.root), subnet, onceP, aggregator, nil).Message.Contribution.Signature
			})})
		}
		if outsider != ^uint64(0) {
			cCorrs = append(cCorrs, cCorr{"aggregator-not-in-subcommittee", expRefuse, mkC(slot, refspec.Root(head.root), subnet, allP, outsider, nil)})
		}
		if notSelected != ^uint64(0) {
			g.b.Inc("contributions_by_a_member_not_selected")
			cCorrs = append(cCorrs, cCorr{"aggregator-not-selected", expRefuse, mkC(slot, refspec.Root(head.root), subnet, allP, notSelected, nil)})
		}
		for _, cr := range cCorrs {
			v.fresh()
			v.setClock(slot, 100)
			g.judge("contribution", cr.name, slot, cr.expect, runC(cr.m))
			if g.judge("contribution", "honest-after-"+cr.name, slot, expAccept, runC(honestC)) == gossipval.ACCEPT {
				g.b.Inc("honest_after_refused_accept")
			}
		}
		v.fresh()
		v.setClock(slot, 100)
		g.judge("contribution", "honest-partial", slot, expAccept, runC(mkC(slot, refspec.Root(head.root), subnet, partial, aggregator, nil)))
	}
}

func hfnTree() tree.HashFn { return tree.GetHashFn() }
