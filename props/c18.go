package props

import (
	"context"
	"fmt"
	"sort"
	"strings"
	"time"

	"github.com/protolambda/zrnt/eth2/beacon"
	"github.com/protolambda/zrnt/eth2/beacon/common"

	"verif/faults"
	"verif/fw"
	"verif/refspec"
	"verif/refssz"
	"verif/sim"
)

// C18 — cancellation and execution-engine faults always surface as errors (fault enumeration).

// poll sites that no phase0..deneb transition can reach, with the reason (none known so far)
var c18Unreachable = map[string]string{}

func init() {
	fw.Register(&fw.Prop{
		ID:    "C18",
		Level: "fault_enumeration",
		Rule: "transitions sampled along simulator chains (blocks carrying every operation kind in every fork, empty-slot advances over epoch boundaries and fork upgrades); for each sampled transition with N context polls: the undisturbed run must equal the reference, and for EVERY k in 1..N the same transition on a fresh copy " +
			"with a context cancelled from the k-th poll on must return an error; for every execution-enabled block EVERY engine call x {invalid, error} must make the transition return an error; the payload root, versioned hashes and parent beacon root shown to the engine are compared with the reference. " +
			"Poll sites reached are compared with a go/parser scan of ctx.Err() calls in the transition packages. A case is one injected fault; non-trivial: all; distinct by (transition, fault)",
		Assumptions:  append(append([]string{}, chainAssume...), "the counting context reports the caller of Err(); cancellation is sticky", "an unreached poll site not on the committed list of structurally unreachable sites makes the run inconclusive"),
		Batches:      func(tier string) int { return 16 },
		ChildTimeout: func(string) time.Duration { return 40 * time.Minute },
		Run:          runC18,
		Finish:       finishC18,
		Required:     []string{"transitions_enumerated", "cancellations_injected", "engine_faults_injected", "engine_args_compared", "undisturbed_equal_reference", "slot_transitions_enumerated", "block_transitions_enumerated", "upgrade_transitions_enumerated"},
	})
}

func copyZ(c *sim.Chain) (*beacon.StandardUpgradeableBeaconState, *common.EpochsContext, error) {
	cp, err := c.Z.BeaconState.CopyState()
	if err != nil {
		return nil, nil, err
	}
	return &beacon.StandardUpgradeableBeaconState{BeaconState: cp}, c.Epc.Clone(), nil
}

func runC18(b *fw.B) {
	quick := fw.Quick(b.Tier)
	n := 1
	if !quick {
		n = 10
	}
	fams := []string{"capella", "churn", "ragged", "custom", "capella", "steady", "churn", "leak"}
	for k := 0; k < n && !b.Stop(); k++ {
		fam := fams[(b.Batch+k)%len(fams)]
		sc := drawScenario(b.Rng, fam, quick, (b.Batch+k)%4 == 1)
		sc.StepEvery = true
		if quick {
			sc.Epochs = min(sc.Epochs, 8)
		}
		if (b.Batch+k)%8 == 2 {
			// a phase0-only chain with epochs in which nobody attests and nothing else happens: blocks without operations
			sc.ForkEpochs = [4]uint64{ff, ff, ff, ff}
			sc.POps, sc.PDeposits = 0, 0
			sc.Participation = []float64{1, 0, 0.7, 0}
			sc.MergeDelay = 0
		}
		if (b.Batch+k)%8 == 5 {
			// a phase0-only chain rich in operations: there the per-operation polls are the last ones of the block transition
			sc.ForkEpochs = [4]uint64{ff, ff, ff, ff}
			sc.POps = 0.9
			sc.MergeDelay = 0
		}
		b.Case("chain-"+fam, sc.String())
		sampleP := 0.12
		if !quick {
			sampleP = 0.3
		}
		viol := func(sig, what string) {
			b.Violate(sig, what+" — scenario "+sc.String(), map[string]any{"scenario": sc.String()})
		}
		bareTaken := 0
		// pending: pre-state copies taken before the step
		var preZ *beacon.StandardUpgradeableBeaconState
		var preEpc *common.EpochsContext
		var preSlot uint64
		takePre := func(c *sim.Chain) {
			preZ, preEpc, _ = copyZ(c)
			preSlot = c.Ref.Slot
		}
		var chain *sim.Chain
		hooks := chainHooks{
			beforeBlock: func(c *sim.Chain, built *sim.Built) bool {
				chain = c
				takePre(c)
				// Is the engine asked at all? Judged before the chain applies the block (a block the chain stops at is never seen by afterStep),
				// and without result validation: the state-root comparison must not be what exposes a payload the engine never saw.
				blk := &built.Signed.Message
				enabled := blk.Fork >= refspec.Bellatrix && (built.Ops["merge_transition_block"] > 0 ||
					(c.Ref.Fork >= refspec.Bellatrix && c.Sp.IsMergeTransitionComplete(c.Ref)))
				if enabled && (built.Ops["merge_transition_block"] > 0 || b.Rng.Float64() < 0.15) {
					spec := *c.ZSpec
					eng := &sim.ScriptedEngine{Spec: &spec}
					spec.ExecutionEngine = eng
					env, _, derr := sim.DecodeBlock(&spec, blk.Fork, built.Bytes, common.ComputeForkDigest(common.Version(c.Sp.ForkVersions[blk.Fork]), common.Root(c.Ref.GenesisValidatorsRoot)))
					if derr == nil && preZ != nil {
						var err error
						if !b.NoPanic("undisturbed/panic", func() { err = common.StateTransition(context.Background(), &spec, preEpc, preZ, env, false) }) {
							return true
						}
						if err == nil {
							b.Inc("execution_enabled_blocks_checked_for_an_engine_call")
							b.CountIf(built.Ops["merge_transition_block"] > 0, "merge_transition_blocks_checked_for_an_engine_call")
							shown := 0
							for _, call := range eng.Calls {
								if strings.HasSuffix(call.Site, "NotifyNewPayload") {
									shown++
								}
							}
							if shown != 1 {
								viol("engine-args/payload-shown-times", fmt.Sprintf("block at slot %d (%s, execution enabled per the specification): the transition reports success with the engine's verdict on the payload asked %d times, not once", blk.Slot, refspec.ForkNames[blk.Fork], shown))
								return true
							}
						}
						takePre(c) // the copy was consumed
					}
				}
				return false
			},
			afterStep: func(c *sim.Chain, where string, isBlock bool, built *sim.Built) bool {
				chain = c
				defer func() { takePre(c) }() // pre-state for a following empty-slot step
				if preZ == nil {
					return true
				}
				upgraded := sim.ZrntFork(preZ) != c.Ref.Fork
				boundary := c.Ref.Slot%c.Sp.SLOTS_PER_EPOCH == 0
				// blocks without any operation are always taken: there the polls of the fixed block steps are the last ones
				bare := isBlock && len(built.Signed.Message.Body.Attestations)+len(built.Signed.Message.Body.Deposits)+len(built.Signed.Message.Body.VoluntaryExits)+
					len(built.Signed.Message.Body.ProposerSlashings)+len(built.Signed.Message.Body.AttesterSlashings) == 0
				if isBlock && built.Ops["merge_transition_block"] > 0 {
					bare = true // always taken too: the one block on which execution becomes enabled
					b.Inc("merge_transition_blocks_taken")
				} else if bare && bareTaken < 6 {
					bareTaken++
					b.Inc("blocks_without_operations_taken_" + refspec.ForkNames[built.Signed.Message.Fork])
				} else {
					bare = false
				}
				interesting := bare || upgraded || (isBlock && len(built.Ops) >= 4) || (boundary && !isBlock)
				if !bare && !(interesting && b.Rng.Float64() < 0.5) && b.Rng.Float64() >= sampleP {
					return true
				}
				target := c.Ref.Slot
				if preSlot >= target {
					return true
				}
				// the transition as a function of (ctx, engine script) on a fresh copy
				validate := true
				run := func(ctx context.Context, answer func(site string, n int) int) (error, *sim.ScriptedEngine, *beacon.StandardUpgradeableBeaconState) {
					cp, err := preZ.BeaconState.CopyState()
					if err != nil {
						return err, nil, nil
					}
					z := &beacon.StandardUpgradeableBeaconState{BeaconState: cp}
					epc := preEpc.Clone()
					spec := *c.ZSpec
					eng := &sim.ScriptedEngine{Spec: &spec, Answer: answer}
					spec.ExecutionEngine = eng
					if isBlock {
						env, _, derr := sim.DecodeBlock(&spec, built.Signed.Message.Fork, built.Bytes, common.ComputeForkDigest(common.Version(c.Sp.ForkVersions[built.Signed.Message.Fork]), common.Root(c.Ref.GenesisValidatorsRoot)))
						if derr != nil {
							return derr, eng, z
						}
						return common.StateTransition(ctx, &spec, epc, z, env, validate), eng, z
					}
					return common.ProcessSlots(ctx, &spec, epc, z, common.Slot(target)), eng, z
				}
				// undisturbed run with a counting context
				cc := faults.NewCountingCtx(0)
				var err error
				var eng *sim.ScriptedEngine
				var zpost *beacon.StandardUpgradeableBeaconState
				if !b.NoPanic("undisturbed/panic", func() { err, eng, zpost = run(cc, nil) }) {
					return false
				}
				if err != nil {
					viol("undisturbed/error", fmt.Sprintf("%s: the transition fails under a never-cancelled counting context: %v", where, err))
					return false
				}
				zb, _ := sim.ZrntStateBytes(zpost)
				if string(zb) != string(c.Sp.S.StateBytes(c.Ref)) {
					viol("undisturbed/differs", fmt.Sprintf("%s: the undisturbed run on a copy differs from the reference post-state", where))
					return false
				}
				b.Inc("undisturbed_equal_reference")
				b.Inc("transitions_enumerated")
				b.CountIf(isBlock, "block_transitions_enumerated")
				b.CountIf(!isBlock, "slot_transitions_enumerated")
				b.CountIf(upgraded, "upgrade_transitions_enumerated")
				N := cc.N
				b.Max("max_polls_in_one_transition", int64(N))
				for _, s := range cc.Sites {
					b.SetAdd("poll_sites_reached", s)
				}
				// every cancellation point, with and without result validation (the state-root check must not be what saves the day)
				for _, v := range []bool{true, false} {
					if !v && !isBlock {
						continue
					}
					validate = v
					NN := N
					if !v {
						c2 := faults.NewCountingCtx(0)
						if e2, _, _ := run(c2, nil); e2 != nil {
							viol("undisturbed/error", fmt.Sprintf("%s: the transition without result validation fails: %v", where, e2))
							return false
						}
						NN = c2.N
					}
					for k := 1; k <= NN; k++ {
						ck := faults.NewCountingCtx(k)
						var kerr error
						if !b.NoPanic("cancel/panic", func() { kerr, _, _ = run(ck, nil) }) {
							return false
						}
						b.Inc("cancellations_injected")
						b.Nontrivial(where, sc.String(), "cancel", k, v)
						if kerr == nil {
							site := "?"
							if k-1 < len(ck.Sites) {
								site = ck.Sites[k-1]
							}
							viol("cancel/swallowed/"+site, fmt.Sprintf("%s: context cancelled at poll %d of %d (%s, validateResult=%v) but the transition reported success", where, k, NN, site, v))
							return false
						}
					}
				}
				validate = true
				// engine faults and arguments
				if isBlock && len(eng.Calls) > 0 {
					blk := &built.Signed.Message
					fork := blk.Fork
					wantRoot := refssz.HashTreeRoot(c.Sp.S.Payload[fork], c.Sp.S.PayloadValue(fork, &blk.Body.ExecutionPayload))
					var wantHashes []refspec.Root
					for _, cm := range blk.Body.BlobKZGCommitments {
						wantHashes = append(wantHashes, refspec.VersionedHash(cm))
					}
					for _, call := range eng.Calls {
						b.Inc("engine_args_compared")
						if call.PayloadRoot != wantRoot {
							viol("engine-args/payload/"+call.Site, fmt.Sprintf("%s: %s was shown a payload whose root differs from the block's payload", where, call.Site))
							return false
						}
						if call.Site == "DenebIsValidVersionedHashes" {
							ok := len(call.VersionedHashes) == len(wantHashes)
							for i := 0; ok && i < len(wantHashes); i++ {
								ok = call.VersionedHashes[i] == wantHashes[i]
							}
							if !ok {
								viol("engine-args/versioned-hashes", fmt.Sprintf("%s: versioned hashes shown to the engine differ from 0x01||sha256(commitment)[1:] of the %d commitments", where, len(wantHashes)))
								return false
							}
							b.CountIf(len(wantHashes) > 0, "engine_versioned_hashes_nonempty")
						}
						if call.Site == "DenebNotifyNewPayload" || call.Site == "DenebIsValidBlockHash" {
							if call.ParentBeaconRoot != blk.ParentRoot {
								viol("engine-args/parent-beacon-root/"+call.Site, fmt.Sprintf("%s: parent beacon block root shown to the engine is not the block's parent root", where))
								return false
							}
						}
					}
					nCalls := len(eng.Calls)
					for j := 1; j <= nCalls; j++ {
						for verdict := 1; verdict <= 5; verdict++ {
							validate = (j+verdict)%2 == 0
							var ferr error
							var feng *sim.ScriptedEngine
							jj, vv := j, verdict
							if !b.NoPanic("engine-fault/panic", func() {
								ferr, feng, _ = run(context.Background(), func(site string, n int) int {
									if n == jj {
										return vv
									}
									return 0
								})
							}) {
								return false
							}
							validate = true
							b.Inc("engine_faults_injected")
							b.Nontrivial(where, sc.String(), "engine", j, verdict)
							if ferr == nil {
								site := "?"
								if j-1 < len(feng.Calls) {
									site = feng.Calls[j-1].Site
								}
								viol(fmt.Sprintf("engine-fault/swallowed/%s/%s", site, []string{"", "invalid", "error", "error-wrapping-deadline-exceeded", "error-wrapping-canceled", "error-with-the-verdict-flag-left-true"}[verdict]), fmt.Sprintf("%s: engine call %d (%s) answered %s but the transition reported success", where, j, site, []string{"", "invalid", "error", "error-wrapping-deadline-exceeded", "error-wrapping-canceled", "error-with-the-verdict-flag-left-true"}[verdict]))
								return false
							}
						}
					}
				}
				return true
			},
		}
		runChain(b, sc, hooks, func(m *sim.Mismatch, trace []string) {
			if m.Kind != "harness" && m.Kind != "genesis" {
				b.Inc("chain_stopped_by_transition_mismatch_not_judged_here")
			}
		})
		_ = chain
		if k == 0 && b.Batch < 2 {
			b.Sample(map[string]any{"scenario": sc.String()})
		}
	}
}

func finishC18(m *fw.Merged) {
	src, err := faults.PollSitesInSource(fw.RepoDir, []string{"eth2/beacon/common", "eth2/beacon/phase0", "eth2/beacon/altair", "eth2/beacon/bellatrix", "eth2/beacon/capella", "eth2/beacon/deneb"})
	if err != nil {
		m.Inconclusive = append(m.Inconclusive, "cannot scan poll sites: "+err.Error())
		return
	}
	reached := m.Sets["poll_sites_reached"]
	var unreached []string
	for _, s := range src {
		if _, ok := reached[s]; !ok {
			if _, allowed := c18Unreachable[s]; !allowed {
				unreached = append(unreached, s)
			}
		}
	}
	sort.Strings(unreached)
	m.Extra["poll_sites_in_source"] = len(src)
	m.Extra["poll_sites_reached_count"] = len(reached)
	m.Extra["poll_sites_unreached"] = unreached
	m.Counters["poll_sites_in_source"] = int64(len(src))
	m.Counters["poll_sites_reached_distinct"] = int64(len(reached))
	if len(unreached) > 0 && m.Tier == "thorough" {
		m.Inconclusive = append(m.Inconclusive, fmt.Sprintf("context poll sites never reached: %v", unreached))
	}
}
