// vworker is the single worker/driver binary of the verification framework.
//
//	vworker run <id> <tier>                      driver: spawns child batches, merges, writes evidence
//	vworker child <id> <tier> <seed> <batch>     one batch (spawned by the driver)
//	vworker replay <path>                        re-execute the case recorded in a replay file
package main

import (
	"fmt"
	"os"
	"strconv"

	"verif/fw"
	_ "verif/props"
)

func main() {
	if len(os.Args) < 2 {
		fmt.Fprintln(os.Stderr, "usage: vworker run|child|replay ...")
		os.Exit(3)
	}
	switch os.Args[1] {
	case "run":
		if len(os.Args) < 4 {
			os.Exit(3)
		}
		os.Exit(fw.RunDriver(os.Args[2], os.Args[3]))
	case "child":
		if len(os.Args) < 6 {
			os.Exit(3)
		}
		seed, _ := strconv.ParseInt(os.Args[4], 10, 64)
		batch, _ := strconv.Atoi(os.Args[5])
		fw.RunChild(os.Args[2], os.Args[3], seed, batch, os.Getenv("VWORKER_IS_RACE") == "1", 0)
	case "replay":
		os.Exit(fw.Replay(os.Args[2]))
	default:
		os.Exit(3)
	}
}
