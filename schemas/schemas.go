// Package schemas transcribes the SSZ schemas of every type zrnt exports (phase0..electra, p2p
// and helper types) as functions of the preset, independently of zrnt's own type definitions,
// and binds each schema to the zrnt allocator (and view type definition where one exists).
package schemas

import (
	"github.com/protolambda/zrnt/eth2/beacon/altair"
	"github.com/protolambda/zrnt/eth2/beacon/bellatrix"
	"github.com/protolambda/zrnt/eth2/beacon/capella"
	"github.com/protolambda/zrnt/eth2/beacon/common"
	"github.com/protolambda/zrnt/eth2/beacon/deneb"
	"github.com/protolambda/zrnt/eth2/beacon/electra"
	"github.com/protolambda/zrnt/eth2/beacon/phase0"
	"github.com/protolambda/ztyp/view"

	rs "verif/refssz"
)

// Entry binds one exported zrnt type to its spec schema.
type Entry struct {
	Name   string
	Fork   string
	Schema func(s *S) *rs.Schema
	New    func() any // pointer to a zero value of the zrnt type
	// ViewType returns the tree-view type definition, nil if the library has none for this type.
	ViewType func(spec *common.Spec) view.TypeDef
}

// S holds all schemas for one preset.
type S struct {
	Spec *common.Spec
	m    map[string]*rs.Schema
}

func u(x view.Uint64View) uint64 { return uint64(x) }

func New(spec *common.Spec) *S {
	s := &S{Spec: spec, m: map[string]*rs.Schema{}}
	F, C, U64, B32, B48, B96 := rs.F, rs.C, rs.U64, rs.B32, rs.B48, rs.B96
	p := spec
	def := func(name string, sc *rs.Schema) *rs.Schema { s.m[name] = sc; return sc }
	maxVPC := u(p.MAX_VALIDATORS_PER_COMMITTEE)
	spe := uint64(p.SLOTS_PER_EPOCH)
	sphr := uint64(p.SLOTS_PER_HISTORICAL_ROOT)
	regLimit := u(p.VALIDATOR_REGISTRY_LIMIT)
	syncSize := u(p.SYNC_COMMITTEE_SIZE)

	// ---- basic aliases
	for _, n := range []string{"Slot", "Epoch", "Gwei", "ValidatorIndex", "CommitteeIndex", "DepositIndex", "Timestamp", "WithdrawalIndex", "SeqNr", "Ping", "Pong", "Goodbye"} {
		def(n, U64)
	}
	def("ParticipationFlags", rs.U8)
	def("Root", B32)
	def("BLSPubkey", B48)
	def("BLSSignature", B96)
	def("Version", rs.B4)
	def("ForkDigest", rs.B4)
	def("BLSDomainType", rs.B4)
	def("NetworkMessageDomain", rs.B4)
	def("BLSDomain", B32)
	def("Eth1Address", rs.B20)
	def("KZGCommitment", B48)
	def("LogsBloom", rs.B(u(p.BYTES_PER_LOGS_BLOOM)))
	def("ExtraData", rs.BL(u(p.MAX_EXTRA_DATA_BYTES)))
	def("Transaction", rs.BL(u(p.MAX_BYTES_PER_TRANSACTION)))
	def("PayloadTransactions", rs.Lst(s.m["Transaction"], u(p.MAX_TRANSACTIONS_PER_PAYLOAD)))
	def("JustificationBits", rs.BitVec(4))
	def("AttnetBits", rs.BitVec(64))
	def("SyncnetBits", rs.BitVec(4))
	def("DepositProof", rs.Vec(B32, 33))

	// ---- phase0 / common containers
	def("Fork", C("Fork", F("previous_version", rs.B4), F("current_version", rs.B4), F("epoch", U64)))
	def("ForkData", C("ForkData", F("current_version", rs.B4), F("genesis_validators_root", B32)))
	def("SigningData", C("SigningData", F("object_root", B32), F("domain", B32)))
	def("Checkpoint", C("Checkpoint", F("epoch", U64), F("root", B32)))
	def("Validator", C("Validator", F("pubkey", B48), F("withdrawal_credentials", B32), F("effective_balance", U64), F("slashed", rs.Boolean),
		F("activation_eligibility_epoch", U64), F("activation_epoch", U64), F("exit_epoch", U64), F("withdrawable_epoch", U64)))
	def("AttestationData", C("AttestationData", F("slot", U64), F("index", U64), F("beacon_block_root", B32), F("source", s.m["Checkpoint"]), F("target", s.m["Checkpoint"])))
	def("CommitteeIndices", rs.Lst(U64, maxVPC))
	def("AttestationBits", rs.BitLst(maxVPC))
	def("IndexedAttestation", C("IndexedAttestation", F("attesting_indices", s.m["CommitteeIndices"]), F("data", s.m["AttestationData"]), F("signature", B96)))
	def("PendingAttestation", C("PendingAttestation", F("aggregation_bits", s.m["AttestationBits"]), F("data", s.m["AttestationData"]), F("inclusion_delay", U64), F("proposer_index", U64)))
	def("Eth1Data", C("Eth1Data", F("deposit_root", B32), F("deposit_count", U64), F("block_hash", B32)))
	def("HistoricalBatchRoots", rs.Vec(B32, sphr))
	def("HistoricalBatch", C("HistoricalBatch", F("block_roots", s.m["HistoricalBatchRoots"]), F("state_roots", s.m["HistoricalBatchRoots"])))
	def("DepositMessage", C("DepositMessage", F("pubkey", B48), F("withdrawal_credentials", B32), F("amount", U64)))
	def("DepositData", C("DepositData", F("pubkey", B48), F("withdrawal_credentials", B32), F("amount", U64), F("signature", B96)))
	def("BeaconBlockHeader", C("BeaconBlockHeader", F("slot", U64), F("proposer_index", U64), F("parent_root", B32), F("state_root", B32), F("body_root", B32)))
	def("SignedBeaconBlockHeader", C("SignedBeaconBlockHeader", F("message", s.m["BeaconBlockHeader"]), F("signature", B96)))
	def("ProposerSlashing", C("ProposerSlashing", F("signed_header_1", s.m["SignedBeaconBlockHeader"]), F("signed_header_2", s.m["SignedBeaconBlockHeader"])))
	def("AttesterSlashing", C("AttesterSlashing", F("attestation_1", s.m["IndexedAttestation"]), F("attestation_2", s.m["IndexedAttestation"])))
	def("Attestation", C("Attestation", F("aggregation_bits", s.m["AttestationBits"]), F("data", s.m["AttestationData"]), F("signature", B96)))
	def("Deposit", C("Deposit", F("proof", s.m["DepositProof"]), F("data", s.m["DepositData"])))
	def("VoluntaryExit", C("VoluntaryExit", F("epoch", U64), F("validator_index", U64)))
	def("SignedVoluntaryExit", C("SignedVoluntaryExit", F("message", s.m["VoluntaryExit"]), F("signature", B96)))
	def("AggregateAndProof", C("AggregateAndProof", F("aggregator_index", U64), F("aggregate", s.m["Attestation"]), F("selection_proof", B96)))
	def("SignedAggregateAndProof", C("SignedAggregateAndProof", F("message", s.m["AggregateAndProof"]), F("signature", B96)))
	def("ProposerSlashings", rs.Lst(s.m["ProposerSlashing"], u(p.MAX_PROPOSER_SLASHINGS)))
	def("AttesterSlashings", rs.Lst(s.m["AttesterSlashing"], u(p.MAX_ATTESTER_SLASHINGS)))
	def("Attestations", rs.Lst(s.m["Attestation"], u(p.MAX_ATTESTATIONS)))
	def("Deposits", rs.Lst(s.m["Deposit"], u(p.MAX_DEPOSITS)))
	def("VoluntaryExits", rs.Lst(s.m["SignedVoluntaryExit"], u(p.MAX_VOLUNTARY_EXITS)))
	def("HistoricalRoots", rs.Lst(B32, u(p.HISTORICAL_ROOTS_LIMIT)))
	def("Eth1DataVotes", rs.Lst(s.m["Eth1Data"], uint64(p.EPOCHS_PER_ETH1_VOTING_PERIOD)*spe))
	def("ValidatorRegistry", rs.Lst(s.m["Validator"], regLimit))
	def("Balances", rs.Lst(U64, regLimit))
	def("RegistryIndices", rs.Lst(U64, regLimit))
	def("RandaoMixes", rs.Vec(B32, uint64(p.EPOCHS_PER_HISTORICAL_VECTOR)))
	def("SlashingsHistory", rs.Vec(U64, uint64(p.EPOCHS_PER_SLASHINGS_VECTOR)))
	def("PendingAttestations", rs.Lst(s.m["PendingAttestation"], u(p.MAX_ATTESTATIONS)*spe))
	bodyP0 := []rs.Field{F("randao_reveal", B96), F("eth1_data", s.m["Eth1Data"]), F("graffiti", B32), F("proposer_slashings", s.m["ProposerSlashings"]), F("attester_slashings", s.m["AttesterSlashings"]),
		F("attestations", s.m["Attestations"]), F("deposits", s.m["Deposits"]), F("voluntary_exits", s.m["VoluntaryExits"])}
	stateHead := []rs.Field{F("genesis_time", U64), F("genesis_validators_root", B32), F("slot", U64), F("fork", s.m["Fork"]), F("latest_block_header", s.m["BeaconBlockHeader"]),
		F("block_roots", s.m["HistoricalBatchRoots"]), F("state_roots", s.m["HistoricalBatchRoots"]), F("historical_roots", s.m["HistoricalRoots"]), F("eth1_data", s.m["Eth1Data"]),
		F("eth1_data_votes", s.m["Eth1DataVotes"]), F("eth1_deposit_index", U64), F("validators", s.m["ValidatorRegistry"]), F("balances", s.m["Balances"]), F("randao_mixes", s.m["RandaoMixes"]), F("slashings", s.m["SlashingsHistory"])}
	just := []rs.Field{F("justification_bits", s.m["JustificationBits"]), F("previous_justified_checkpoint", s.m["Checkpoint"]), F("current_justified_checkpoint", s.m["Checkpoint"]), F("finalized_checkpoint", s.m["Checkpoint"])}
	cat := func(parts ...[]rs.Field) []rs.Field {
		var out []rs.Field
		for _, pp := range parts {
			out = append(out, pp...)
		}
		return out
	}
	block := func(fork string, body *rs.Schema) {
		def(fork+".BeaconBlockBody", body)
		def(fork+".BeaconBlock", C("BeaconBlock", F("slot", U64), F("proposer_index", U64), F("parent_root", B32), F("state_root", B32), F("body", body)))
		def(fork+".SignedBeaconBlock", C("SignedBeaconBlock", F("message", s.m[fork+".BeaconBlock"]), F("signature", B96)))
	}
	block("phase0", C("BeaconBlockBody", bodyP0...))
	def("phase0.BeaconState", C("BeaconState", cat(stateHead, []rs.Field{F("previous_epoch_attestations", s.m["PendingAttestations"]), F("current_epoch_attestations", s.m["PendingAttestations"])}, just)...))

	// ---- altair
	def("SyncCommitteeBits", rs.BitVec(syncSize))
	def("SyncCommitteeSubnetBits", rs.BitVec(syncSize/4))
	def("SyncCommitteePubkeys", rs.Vec(B48, syncSize))
	def("SyncAggregate", C("SyncAggregate", F("sync_committee_bits", s.m["SyncCommitteeBits"]), F("sync_committee_signature", B96)))
	def("SyncCommittee", C("SyncCommittee", F("pubkeys", s.m["SyncCommitteePubkeys"]), F("aggregate_pubkey", B48)))
	def("SyncCommitteeMessage", C("SyncCommitteeMessage", F("slot", U64), F("beacon_block_root", B32), F("validator_index", U64), F("signature", B96)))
	def("SyncCommitteeContribution", C("SyncCommitteeContribution", F("slot", U64), F("beacon_block_root", B32), F("subcommittee_index", U64), F("aggregation_bits", s.m["SyncCommitteeSubnetBits"]), F("signature", B96)))
	def("ContributionAndProof", C("ContributionAndProof", F("aggregator_index", U64), F("contribution", s.m["SyncCommitteeContribution"]), F("selection_proof", B96)))
	def("SignedContributionAndProof", C("SignedContributionAndProof", F("message", s.m["ContributionAndProof"]), F("signature", B96)))
	def("SyncAggregatorSelectionData", C("SyncAggregatorSelectionData", F("slot", U64), F("subcommittee_index", U64)))
	def("ParticipationRegistry", rs.Lst(rs.U8, regLimit))
	def("InactivityScores", rs.Lst(U64, regLimit))
	def("SyncCommitteeProofBranch", rs.Vec(B32, 5))
	def("FinalizedRootProofBranch", rs.Vec(B32, 6))
	def("LightClientSnapshot", C("LightClientSnapshot", F("header", s.m["BeaconBlockHeader"]), F("current_sync_committee", s.m["SyncCommittee"]), F("next_sync_committee", s.m["SyncCommittee"])))
	def("LightClientUpdate", C("LightClientUpdate", F("attested_header", s.m["BeaconBlockHeader"]), F("next_sync_committee", s.m["SyncCommittee"]), F("next_sync_committee_branch", s.m["SyncCommitteeProofBranch"]),
		F("finalized_header", s.m["BeaconBlockHeader"]), F("finality_branch", s.m["FinalizedRootProofBranch"]), F("sync_aggregate", s.m["SyncAggregate"]), F("signature_slot", U64)))
	bodyAltair := cat(bodyP0, []rs.Field{F("sync_aggregate", s.m["SyncAggregate"])})
	block("altair", C("BeaconBlockBody", bodyAltair...))
	part := []rs.Field{F("previous_epoch_participation", s.m["ParticipationRegistry"]), F("current_epoch_participation", s.m["ParticipationRegistry"])}
	altTail := []rs.Field{F("inactivity_scores", s.m["InactivityScores"]), F("current_sync_committee", s.m["SyncCommittee"]), F("next_sync_committee", s.m["SyncCommittee"])}
	def("altair.BeaconState", C("BeaconState", cat(stateHead, part, just, altTail)...))

	// ---- bellatrix / capella / deneb payloads
	payloadHead := []rs.Field{F("parent_hash", B32), F("fee_recipient", rs.B20), F("state_root", B32), F("receipts_root", B32), F("logs_bloom", s.m["LogsBloom"]), F("prev_randao", B32),
		F("block_number", U64), F("gas_limit", U64), F("gas_used", U64), F("timestamp", U64), F("extra_data", s.m["ExtraData"]), F("base_fee_per_gas", rs.U256), F("block_hash", B32)}
	def("Withdrawal", C("Withdrawal", F("index", U64), F("validator_index", U64), F("address", rs.B20), F("amount", U64)))
	def("Withdrawals", rs.Lst(s.m["Withdrawal"], u(p.MAX_WITHDRAWALS_PER_PAYLOAD)))
	def("BLSToExecutionChange", C("BLSToExecutionChange", F("validator_index", U64), F("from_bls_pubkey", B48), F("to_execution_address", rs.B20)))
	def("SignedBLSToExecutionChange", C("SignedBLSToExecutionChange", F("message", s.m["BLSToExecutionChange"]), F("signature", B96)))
	def("SignedBLSToExecutionChanges", rs.Lst(s.m["SignedBLSToExecutionChange"], u(p.MAX_BLS_TO_EXECUTION_CHANGES)))
	def("HistoricalSummary", C("HistoricalSummary", F("block_summary_root", B32), F("state_summary_root", B32)))
	def("HistoricalSummaries", rs.Lst(s.m["HistoricalSummary"], u(p.HISTORICAL_ROOTS_LIMIT)))
	def("KZGCommitments", rs.Lst(B48, u(p.MAX_BLOB_COMMITMENTS_PER_BLOCK)))
	def("bellatrix.ExecutionPayload", C("ExecutionPayload", cat(payloadHead, []rs.Field{F("transactions", s.m["PayloadTransactions"])})...))
	def("bellatrix.ExecutionPayloadHeader", C("ExecutionPayloadHeader", cat(payloadHead, []rs.Field{F("transactions_root", B32)})...))
	def("capella.ExecutionPayload", C("ExecutionPayload", cat(payloadHead, []rs.Field{F("transactions", s.m["PayloadTransactions"]), F("withdrawals", s.m["Withdrawals"])})...))
	def("capella.ExecutionPayloadHeader", C("ExecutionPayloadHeader", cat(payloadHead, []rs.Field{F("transactions_root", B32), F("withdrawals_root", B32)})...))
	blobGas := []rs.Field{F("blob_gas_used", U64), F("excess_blob_gas", U64)}
	def("deneb.ExecutionPayload", C("ExecutionPayload", cat(payloadHead, []rs.Field{F("transactions", s.m["PayloadTransactions"]), F("withdrawals", s.m["Withdrawals"])}, blobGas)...))
	def("deneb.ExecutionPayloadHeader", C("ExecutionPayloadHeader", cat(payloadHead, []rs.Field{F("transactions_root", B32), F("withdrawals_root", B32)}, blobGas)...))

	block("bellatrix", C("BeaconBlockBody", cat(bodyAltair, []rs.Field{F("execution_payload", s.m["bellatrix.ExecutionPayload"])})...))
	def("bellatrix.BeaconBlockBodyShallow", C("BeaconBlockBodyShallow", cat(bodyAltair, []rs.Field{F("execution_payload_root", B32)})...))
	def("bellatrix.BeaconState", C("BeaconState", cat(stateHead, part, just, altTail, []rs.Field{F("latest_execution_payload_header", s.m["bellatrix.ExecutionPayloadHeader"])})...))
	blsCh := []rs.Field{F("bls_to_execution_changes", s.m["SignedBLSToExecutionChanges"])}
	block("capella", C("BeaconBlockBody", cat(bodyAltair, []rs.Field{F("execution_payload", s.m["capella.ExecutionPayload"])}, blsCh)...))
	def("capella.BeaconBlockBodyShallow", C("BeaconBlockBodyShallow", cat(bodyAltair, []rs.Field{F("execution_payload_root", B32)}, blsCh)...))
	capTail := []rs.Field{F("next_withdrawal_index", U64), F("next_withdrawal_validator_index", U64), F("historical_summaries", s.m["HistoricalSummaries"])}
	def("capella.BeaconState", C("BeaconState", cat(stateHead, part, just, altTail, []rs.Field{F("latest_execution_payload_header", s.m["capella.ExecutionPayloadHeader"])}, capTail)...))
	kzg := []rs.Field{F("blob_kzg_commitments", s.m["KZGCommitments"])}
	block("deneb", C("BeaconBlockBody", cat(bodyAltair, []rs.Field{F("execution_payload", s.m["deneb.ExecutionPayload"])}, blsCh, kzg)...))
	def("deneb.BeaconBlockBodyShallow", C("BeaconBlockBodyShallow", cat(bodyAltair, []rs.Field{F("execution_payload_root", B32)}, blsCh, kzg)...))
	def("deneb.BeaconState", C("BeaconState", cat(stateHead, part, just, altTail, []rs.Field{F("latest_execution_payload_header", s.m["deneb.ExecutionPayloadHeader"])}, capTail)...))

	// ---- electra
	maxPerSlot := maxVPC * u(p.MAX_COMMITTEES_PER_SLOT)
	def("electra.AttestationBits", rs.BitLst(maxPerSlot))
	def("CommitteeBits", rs.BitVec(u(p.MAX_COMMITTEES_PER_SLOT)))
	def("SlotCommitteeIndices", rs.Lst(U64, maxPerSlot))
	def("electra.Attestation", C("Attestation", F("aggregation_bits", s.m["electra.AttestationBits"]), F("data", s.m["AttestationData"]), F("signature", B96), F("committee_bits", s.m["CommitteeBits"])))
	def("electra.IndexedAttestation", C("IndexedAttestation", F("attesting_indices", s.m["SlotCommitteeIndices"]), F("data", s.m["AttestationData"]), F("signature", B96)))
	def("electra.AttesterSlashing", C("AttesterSlashing", F("attestation_1", s.m["electra.IndexedAttestation"]), F("attestation_2", s.m["electra.IndexedAttestation"])))
	def("electra.Attestations", rs.Lst(s.m["electra.Attestation"], u(p.MAX_ATTESTATIONS_ELECTRA)))
	def("electra.AttesterSlashings", rs.Lst(s.m["electra.AttesterSlashing"], u(p.MAX_ATTESTER_SLASHINGS_ELECTRA)))
	def("SingleAttestation", C("SingleAttestation", F("committee_index", U64), F("attester_index", U64), F("data", s.m["AttestationData"]), F("signature", B96)))
	def("electra.AggregateAndProof", C("AggregateAndProof", F("aggregator_index", U64), F("aggregate", s.m["electra.Attestation"]), F("selection_proof", B96)))
	def("electra.SignedAggregateAndProof", C("SignedAggregateAndProof", F("message", s.m["electra.AggregateAndProof"]), F("signature", B96)))
	def("DepositRequest", C("DepositRequest", F("pubkey", B48), F("withdrawal_credentials", B32), F("amount", U64), F("signature", B96), F("index", U64)))
	def("WithdrawalRequest", C("WithdrawalRequest", F("source_address", rs.B20), F("validator_pubkey", B48), F("amount", U64)))
	def("ConsolidationRequest", C("ConsolidationRequest", F("source_address", rs.B20), F("source_pubkey", B48), F("target_pubkey", B48)))
	def("DepositRequests", rs.Lst(s.m["DepositRequest"], u(p.MAX_DEPOSIT_REQUESTS_PER_PAYLOAD)))
	def("WithdrawalRequests", rs.Lst(s.m["WithdrawalRequest"], u(p.MAX_WITHDRAWAL_REQUESTS_PER_PAYLOAD)))
	def("ConsolidationRequests", rs.Lst(s.m["ConsolidationRequest"], u(p.MAX_CONSOLIDATION_REQUESTS_PER_PAYLOAD)))
	def("ExecutionRequests", C("ExecutionRequests", F("deposits", s.m["DepositRequests"]), F("withdrawals", s.m["WithdrawalRequests"]), F("consolidations", s.m["ConsolidationRequests"])))
	def("PendingDeposit", C("PendingDeposit", F("pubkey", B48), F("withdrawal_credentials", B32), F("amount", U64), F("signature", B96), F("slot", U64)))
	def("PendingPartialWithdrawal", C("PendingPartialWithdrawal", F("validator_index", U64), F("amount", U64), F("withdrawable_epoch", U64)))
	def("PendingConsolidation", C("PendingConsolidation", F("source_index", U64), F("target_index", U64)))
	def("PendingDeposits", rs.Lst(s.m["PendingDeposit"], u(p.PENDING_DEPOSITS_LIMIT)))
	def("PendingPartialWithdrawals", rs.Lst(s.m["PendingPartialWithdrawal"], u(p.PENDING_PARTIAL_WITHDRAWALS_LIMIT)))
	def("PendingConsolidations", rs.Lst(s.m["PendingConsolidation"], u(p.PENDING_CONSOLIDATIONS_LIMIT)))
	bodyElectraHead := []rs.Field{F("randao_reveal", B96), F("eth1_data", s.m["Eth1Data"]), F("graffiti", B32), F("proposer_slashings", s.m["ProposerSlashings"]), F("attester_slashings", s.m["electra.AttesterSlashings"]),
		F("attestations", s.m["electra.Attestations"]), F("deposits", s.m["Deposits"]), F("voluntary_exits", s.m["VoluntaryExits"]), F("sync_aggregate", s.m["SyncAggregate"])}
	reqs := []rs.Field{F("execution_requests", s.m["ExecutionRequests"])}
	block("electra", C("BeaconBlockBody", cat(bodyElectraHead, []rs.Field{F("execution_payload", s.m["deneb.ExecutionPayload"])}, blsCh, kzg, reqs)...))
	def("electra.BeaconBlockBodyShallow", C("BeaconBlockBodyShallow", cat(bodyElectraHead, []rs.Field{F("execution_payload_root", B32)}, blsCh, kzg, reqs)...))
	electraTail := []rs.Field{F("deposit_requests_start_index", U64), F("deposit_balance_to_consume", U64), F("exit_balance_to_consume", U64), F("earliest_exit_epoch", U64),
		F("consolidation_balance_to_consume", U64), F("earliest_consolidation_epoch", U64), F("pending_deposits", s.m["PendingDeposits"]), F("pending_partial_withdrawals", s.m["PendingPartialWithdrawals"]), F("pending_consolidations", s.m["PendingConsolidations"])}
	def("electra.BeaconState", C("BeaconState", cat(stateHead, part, just, altTail, []rs.Field{F("latest_execution_payload_header", s.m["deneb.ExecutionPayloadHeader"])}, capTail, electraTail)...))

	// ---- p2p
	def("Eth2Data", C("ENRForkID", F("fork_digest", rs.B4), F("next_fork_version", rs.B4), F("next_fork_epoch", U64)))
	def("Status", C("Status", F("fork_digest", rs.B4), F("finalized_root", B32), F("finalized_epoch", U64), F("head_root", B32), F("head_slot", U64)))
	def("MetaData", C("MetaData", F("seq_number", U64), F("attnets", s.m["AttnetBits"]), F("syncnets", s.m["SyncnetBits"])))
	// zrnt helper lists
	def("GweiList", rs.Lst(U64, regLimit))
	def("Deltas", C("Deltas", F("rewards", s.m["GweiList"]), F("penalties", s.m["GweiList"])))
	return s
}

func (s *S) Get(name string) *rs.Schema {
	sc, ok := s.m[name]
	if !ok {
		panic("schemas: unknown schema " + name)
	}
	return sc
}

func byName(name string) func(s *S) *rs.Schema { return func(s *S) *rs.Schema { return s.Get(name) } }

func vt(f func(spec *common.Spec) view.TypeDef) func(spec *common.Spec) view.TypeDef { return f }

func cvt(t view.TypeDef) func(spec *common.Spec) view.TypeDef {
	return func(*common.Spec) view.TypeDef { return t }
}

// Registry lists every exported SSZ type of the library.
func Registry() []Entry {
	e := func(name, fork, schema string, n func() any, v func(spec *common.Spec) view.TypeDef) Entry {
		return Entry{Name: name, Fork: fork, Schema: byName(schema), New: n, ViewType: v}
	}
	return []Entry{
		// common: basic
		e("common.Slot", "common", "Slot", func() any { return new(common.Slot) }, cvt(common.SlotType)),
		e("common.Epoch", "common", "Epoch", func() any { return new(common.Epoch) }, cvt(common.EpochType)),
		e("common.Gwei", "common", "Gwei", func() any { return new(common.Gwei) }, cvt(common.GweiType)),
		e("common.ValidatorIndex", "common", "ValidatorIndex", func() any { return new(common.ValidatorIndex) }, cvt(common.ValidatorIndexType)),
		e("common.CommitteeIndex", "common", "CommitteeIndex", func() any { return new(common.CommitteeIndex) }, cvt(common.CommitteeIndexType)),
		e("common.DepositIndex", "common", "DepositIndex", func() any { return new(common.DepositIndex) }, nil),
		e("common.Timestamp", "common", "Timestamp", func() any { return new(common.Timestamp) }, cvt(common.TimestampType)),
		e("common.WithdrawalIndex", "common", "WithdrawalIndex", func() any { return new(common.WithdrawalIndex) }, cvt(common.WithdrawalIndexType)),
		e("common.SeqNr", "common", "SeqNr", func() any { return new(common.SeqNr) }, nil),
		e("common.Ping", "common", "Ping", func() any { return new(common.Ping) }, nil),
		e("common.Pong", "common", "Pong", func() any { return new(common.Pong) }, nil),
		e("common.Goodbye", "common", "Goodbye", func() any { return new(common.Goodbye) }, nil),
		e("common.BLSPubkey", "common", "BLSPubkey", func() any { return new(common.BLSPubkey) }, cvt(common.BLSPubkeyType)),
		e("common.BLSSignature", "common", "BLSSignature", func() any { return new(common.BLSSignature) }, cvt(common.BLSSignatureType)),
		e("common.Version", "common", "Version", func() any { return new(common.Version) }, cvt(common.VersionType)),
		e("common.ForkDigest", "common", "ForkDigest", func() any { return new(common.ForkDigest) }, cvt(common.ForkDigestType)),
		e("common.BLSDomainType", "common", "BLSDomainType", func() any { return new(common.BLSDomainType) }, cvt(common.BLSDomainTypeTreeType)),
		e("common.BLSDomain", "common", "BLSDomain", func() any { return new(common.BLSDomain) }, cvt(common.BLSDomainTreeType)),
		e("common.NetworkMessageDomain", "common", "NetworkMessageDomain", func() any { return new(common.NetworkMessageDomain) }, nil),
		e("common.Eth1Address", "common", "Eth1Address", func() any { return new(common.Eth1Address) }, cvt(common.Eth1AddressType)),
		e("common.KZGCommitment", "common", "KZGCommitment", func() any { return new(common.KZGCommitment) }, cvt(common.KZGCommitmentType)),
		e("common.LogsBloom", "common", "LogsBloom", func() any { return new(common.LogsBloom) }, cvt(common.LogsBloomType)),
		e("common.ExtraData", "common", "ExtraData", func() any { return new(common.ExtraData) }, cvt(common.ExtraDataType)),
		e("common.Transaction", "common", "Transaction", func() any { return new(common.Transaction) }, vt(func(s *common.Spec) view.TypeDef { return common.TransactionType(s) })),
		e("common.PayloadTransactions", "common", "PayloadTransactions", func() any { return new(common.PayloadTransactions) }, vt(func(s *common.Spec) view.TypeDef { return common.PayloadTransactionsType(s) })),
		e("common.JustificationBits", "common", "JustificationBits", func() any { return new(common.JustificationBits) }, cvt(common.JustificationBitsType)),
		e("common.AttnetBits", "common", "AttnetBits", func() any { return new(common.AttnetBits) }, nil),
		e("common.SyncnetBits", "common", "SyncnetBits", func() any { return new(common.SyncnetBits) }, nil),
		e("common.DepositProof", "common", "DepositProof", func() any { return new(common.DepositProof) }, cvt(common.DepositProofType)),
		// common: containers
		e("common.Fork", "common", "Fork", func() any { return new(common.Fork) }, cvt(common.ForkType)),
		e("common.ForkData", "common", "ForkData", func() any { return new(common.ForkData) }, cvt(common.ForkDataType)),
		e("common.SigningData", "common", "SigningData", func() any { return new(common.SigningData) }, cvt(common.SigningDataType)),
		e("common.Checkpoint", "common", "Checkpoint", func() any { return new(common.Checkpoint) }, cvt(common.CheckpointType)),
		e("common.Eth1Data", "common", "Eth1Data", func() any { return new(common.Eth1Data) }, cvt(common.Eth1DataType)),
		e("common.DepositMessage", "common", "DepositMessage", func() any { return new(common.DepositMessage) }, cvt(common.DepositMessageType)),
		e("common.DepositData", "common", "DepositData", func() any { return new(common.DepositData) }, cvt(common.DepositDataType)),
		e("common.Deposit", "common", "Deposit", func() any { return new(common.Deposit) }, cvt(common.DepositType)),
		e("common.BeaconBlockHeader", "common", "BeaconBlockHeader", func() any { return new(common.BeaconBlockHeader) }, cvt(common.BeaconBlockHeaderType)),
		e("common.SignedBeaconBlockHeader", "common", "SignedBeaconBlockHeader", func() any { return new(common.SignedBeaconBlockHeader) }, cvt(common.SignedBeaconBlockHeaderType)),
		e("common.CommitteeIndices", "common", "CommitteeIndices", func() any { return new(common.CommitteeIndices) }, nil),
		e("common.SlotCommitteeIndices", "electra", "SlotCommitteeIndices", func() any { return new(common.SlotCommitteeIndices) }, vt(func(s *common.Spec) view.TypeDef { return common.SlotCommitteeIndicesType(s) })),
		e("common.SyncCommitteePubkeys", "altair", "SyncCommitteePubkeys", func() any { return new(common.SyncCommitteePubkeys) }, vt(func(s *common.Spec) view.TypeDef { return common.SyncCommitteePubkeysType(s) })),
		e("common.SyncCommittee", "altair", "SyncCommittee", func() any { return new(common.SyncCommittee) }, vt(func(s *common.Spec) view.TypeDef { return common.SyncCommitteeType(s) })),
		e("common.Withdrawal", "capella", "Withdrawal", func() any { return new(common.Withdrawal) }, cvt(common.WithdrawalType)),
		e("common.Withdrawals", "capella", "Withdrawals", func() any { return new(common.Withdrawals) }, vt(func(s *common.Spec) view.TypeDef { return common.WithdrawalsType(s) })),
		e("common.BLSToExecutionChange", "capella", "BLSToExecutionChange", func() any { return new(common.BLSToExecutionChange) }, cvt(common.BLSToExecutionChangeType)),
		e("common.SignedBLSToExecutionChange", "capella", "SignedBLSToExecutionChange", func() any { return new(common.SignedBLSToExecutionChange) }, cvt(common.SignedBLSToExecutionChangeType)),
		e("common.SignedBLSToExecutionChanges", "capella", "SignedBLSToExecutionChanges", func() any { return new(common.SignedBLSToExecutionChanges) }, vt(func(s *common.Spec) view.TypeDef { return common.BlockSignedBLSToExecutionChangesType(s) })),
		e("common.DepositRequest", "electra", "DepositRequest", func() any { return new(common.DepositRequest) }, cvt(common.DepositRequestType)),
		e("common.WithdrawalRequest", "electra", "WithdrawalRequest", func() any { return new(common.WithdrawalRequest) }, cvt(common.WithdrawalRequestType)),
		e("common.ConsolidationRequest", "electra", "ConsolidationRequest", func() any { return new(common.ConsolidationRequest) }, cvt(common.ConsolidationRequestType)),
		e("common.DepositRequests", "electra", "DepositRequests", func() any { return new(common.DepositRequests) }, vt(func(s *common.Spec) view.TypeDef { return common.DepositRequestsType(s) })),
		e("common.WithdrawalRequests", "electra", "WithdrawalRequests", func() any { return new(common.WithdrawalRequests) }, vt(func(s *common.Spec) view.TypeDef { return common.WithdrawalRequestsType(s) })),
		e("common.ConsolidationRequests", "electra", "ConsolidationRequests", func() any { return new(common.ConsolidationRequests) }, vt(func(s *common.Spec) view.TypeDef { return common.ConsolidationRequestsType(s) })),
		e("common.PendingDeposit", "electra", "PendingDeposit", func() any { return new(common.PendingDeposit) }, cvt(common.PendingDepositType)),
		e("common.PendingPartialWithdrawal", "electra", "PendingPartialWithdrawal", func() any { return new(common.PendingPartialWithdrawal) }, cvt(common.PendingPartialWithdrawalType)),
		e("common.PendingConsolidation", "electra", "PendingConsolidation", func() any { return new(common.PendingConsolidation) }, cvt(common.PendingConsolidationType)),
		e("common.PendingDeposits", "electra", "PendingDeposits", func() any { return new(common.PendingDeposits) }, vt(func(s *common.Spec) view.TypeDef { return common.PendingDepositsType(s) })),
		e("common.PendingPartialWithdrawals", "electra", "PendingPartialWithdrawals", func() any { return new(common.PendingPartialWithdrawals) }, vt(func(s *common.Spec) view.TypeDef { return common.PendingPartialWithdrawalsType(s) })),
		e("common.PendingConsolidations", "electra", "PendingConsolidations", func() any { return new(common.PendingConsolidations) }, vt(func(s *common.Spec) view.TypeDef { return common.PendingConsolidationsType(s) })),
		e("common.Eth2Data", "p2p", "Eth2Data", func() any { return new(common.Eth2Data) }, nil),
		e("common.Status", "p2p", "Status", func() any { return new(common.Status) }, nil),
		e("common.MetaData", "p2p", "MetaData", func() any { return new(common.MetaData) }, nil),
		e("common.GweiList", "common", "GweiList", func() any { return new(common.GweiList) }, nil),
		e("common.Deltas", "common", "Deltas", func() any { return new(common.Deltas) }, nil),
		// phase0
		e("phase0.Validator", "phase0", "Validator", func() any { return new(phase0.Validator) }, cvt(phase0.ValidatorType)),
		e("phase0.AttestationData", "phase0", "AttestationData", func() any { return new(phase0.AttestationData) }, cvt(phase0.AttestationDataType)),
		e("phase0.AttestationBits", "phase0", "AttestationBits", func() any { return new(phase0.AttestationBits) }, vt(func(s *common.Spec) view.TypeDef { return phase0.AttestationBitsType(s) })),
		e("phase0.Attestation", "phase0", "Attestation", func() any { return new(phase0.Attestation) }, vt(func(s *common.Spec) view.TypeDef { return phase0.AttestationType(s) })),
		e("phase0.IndexedAttestation", "phase0", "IndexedAttestation", func() any { return new(phase0.IndexedAttestation) }, vt(func(s *common.Spec) view.TypeDef { return phase0.IndexedAttestationType(s) })),
		e("phase0.PendingAttestation", "phase0", "PendingAttestation", func() any { return new(phase0.PendingAttestation) }, vt(func(s *common.Spec) view.TypeDef { return phase0.PendingAttestationType(s) })),
		e("phase0.PendingAttestations", "phase0", "PendingAttestations", func() any { return new(phase0.PendingAttestations) }, vt(func(s *common.Spec) view.TypeDef { return phase0.PendingAttestationsType(s) })),
		e("phase0.AttesterSlashing", "phase0", "AttesterSlashing", func() any { return new(phase0.AttesterSlashing) }, vt(func(s *common.Spec) view.TypeDef { return phase0.AttesterSlashingType(s) })),
		e("phase0.ProposerSlashing", "phase0", "ProposerSlashing", func() any { return new(phase0.ProposerSlashing) }, cvt(phase0.ProposerSlashingType)),
		e("phase0.VoluntaryExit", "phase0", "VoluntaryExit", func() any { return new(phase0.VoluntaryExit) }, cvt(phase0.VoluntaryExitType)),
		e("phase0.SignedVoluntaryExit", "phase0", "SignedVoluntaryExit", func() any { return new(phase0.SignedVoluntaryExit) }, cvt(phase0.SignedVoluntaryExitType)),
		e("phase0.AggregateAndProof", "phase0", "AggregateAndProof", func() any { return new(phase0.AggregateAndProof) }, nil),
		e("phase0.SignedAggregateAndProof", "phase0", "SignedAggregateAndProof", func() any { return new(phase0.SignedAggregateAndProof) }, nil),
		e("phase0.Attestations", "phase0", "Attestations", func() any { return new(phase0.Attestations) }, vt(func(s *common.Spec) view.TypeDef { return phase0.BlockAttestationsType(s) })),
		e("phase0.AttesterSlashings", "phase0", "AttesterSlashings", func() any { return new(phase0.AttesterSlashings) }, vt(func(s *common.Spec) view.TypeDef { return phase0.BlockAttesterSlashingsType(s) })),
		e("phase0.ProposerSlashings", "phase0", "ProposerSlashings", func() any { return new(phase0.ProposerSlashings) }, vt(func(s *common.Spec) view.TypeDef { return phase0.BlockProposerSlashingsType(s) })),
		e("phase0.Deposits", "phase0", "Deposits", func() any { return new(phase0.Deposits) }, vt(func(s *common.Spec) view.TypeDef { return phase0.BlockDepositsType(s) })),
		e("phase0.VoluntaryExits", "phase0", "VoluntaryExits", func() any { return new(phase0.VoluntaryExits) }, vt(func(s *common.Spec) view.TypeDef { return phase0.BlockVoluntaryExitsType(s) })),
		e("phase0.Eth1DataVotes", "phase0", "Eth1DataVotes", func() any { return new(phase0.Eth1DataVotes) }, vt(func(s *common.Spec) view.TypeDef { return phase0.Eth1DataVotesType(s) })),
		e("phase0.HistoricalBatchRoots", "phase0", "HistoricalBatchRoots", func() any { return new(phase0.HistoricalBatchRoots) }, vt(func(s *common.Spec) view.TypeDef { return phase0.BatchRootsType(s) })),
		e("phase0.HistoricalBatch", "phase0", "HistoricalBatch", func() any { return new(phase0.HistoricalBatch) }, vt(func(s *common.Spec) view.TypeDef { return phase0.HistoricalBatchType(s) })),
		e("phase0.HistoricalRoots", "phase0", "HistoricalRoots", func() any { return new(phase0.HistoricalRoots) }, vt(func(s *common.Spec) view.TypeDef { return phase0.HistoricalRootsType(s) })),
		e("phase0.ValidatorRegistry", "phase0", "ValidatorRegistry", func() any { return new(phase0.ValidatorRegistry) }, vt(func(s *common.Spec) view.TypeDef { return phase0.ValidatorsRegistryType(s) })),
		e("phase0.Balances", "phase0", "Balances", func() any { return new(phase0.Balances) }, vt(func(s *common.Spec) view.TypeDef { return phase0.RegistryBalancesType(s) })),
		e("phase0.RegistryIndices", "phase0", "RegistryIndices", func() any { return new(phase0.RegistryIndices) }, nil),
		e("phase0.RandaoMixes", "phase0", "RandaoMixes", func() any { return new(phase0.RandaoMixes) }, vt(func(s *common.Spec) view.TypeDef { return phase0.RandaoMixesType(s) })),
		e("phase0.SlashingsHistory", "phase0", "SlashingsHistory", func() any { return new(phase0.SlashingsHistory) }, vt(func(s *common.Spec) view.TypeDef { return phase0.SlashingsType(s) })),
		e("phase0.BeaconBlockBody", "phase0", "phase0.BeaconBlockBody", func() any { return new(phase0.BeaconBlockBody) }, vt(func(s *common.Spec) view.TypeDef { return phase0.BeaconBlockBodyType(s) })),
		e("phase0.BeaconBlock", "phase0", "phase0.BeaconBlock", func() any { return new(phase0.BeaconBlock) }, vt(func(s *common.Spec) view.TypeDef { return phase0.BeaconBlockType(s) })),
		e("phase0.SignedBeaconBlock", "phase0", "phase0.SignedBeaconBlock", func() any { return new(phase0.SignedBeaconBlock) }, vt(func(s *common.Spec) view.TypeDef { return phase0.SignedBeaconBlockType(s) })),
		e("phase0.BeaconState", "phase0", "phase0.BeaconState", func() any { return new(phase0.BeaconState) }, vt(func(s *common.Spec) view.TypeDef { return phase0.BeaconStateType(s) })),
		// altair
		e("altair.ParticipationFlags", "altair", "ParticipationFlags", func() any { return new(altair.ParticipationFlags) }, cvt(altair.ParticipationFlagsType)),
		e("altair.ParticipationRegistry", "altair", "ParticipationRegistry", func() any { return new(altair.ParticipationRegistry) }, vt(func(s *common.Spec) view.TypeDef { return altair.ParticipationRegistryType(s) })),
		e("altair.InactivityScores", "altair", "InactivityScores", func() any { return new(altair.InactivityScores) }, vt(func(s *common.Spec) view.TypeDef { return altair.InactivityScoresType(s) })),
		e("altair.SyncCommitteeBits", "altair", "SyncCommitteeBits", func() any { return new(altair.SyncCommitteeBits) }, vt(func(s *common.Spec) view.TypeDef { return altair.SyncCommitteeBitsType(s) })),
		e("altair.SyncCommitteeSubnetBits", "altair", "SyncCommitteeSubnetBits", func() any { return new(altair.SyncCommitteeSubnetBits) }, vt(func(s *common.Spec) view.TypeDef { return altair.SyncCommitteeSubnetBitsType(s) })),
		e("altair.SyncAggregate", "altair", "SyncAggregate", func() any { return new(altair.SyncAggregate) }, vt(func(s *common.Spec) view.TypeDef { return altair.SyncAggregateType(s) })),
		e("altair.SyncCommitteeMessage", "altair", "SyncCommitteeMessage", func() any { return new(altair.SyncCommitteeMessage) }, cvt(altair.SyncCommitteeMessageType)),
		e("altair.SyncCommitteeContribution", "altair", "SyncCommitteeContribution", func() any { return new(altair.SyncCommitteeContribution) }, vt(func(s *common.Spec) view.TypeDef { return altair.SyncCommitteeContributionType(s) })),
		e("altair.ContributionAndProof", "altair", "ContributionAndProof", func() any { return new(altair.ContributionAndProof) }, vt(func(s *common.Spec) view.TypeDef { return altair.ContributionAndProofType(s) })),
		e("altair.SignedContributionAndProof", "altair", "SignedContributionAndProof", func() any { return new(altair.SignedContributionAndProof) }, vt(func(s *common.Spec) view.TypeDef { return altair.SignedContributionAndProofType(s) })),
		e("altair.SyncAggregatorSelectionData", "altair", "SyncAggregatorSelectionData", func() any { return new(altair.SyncAggregatorSelectionData) }, cvt(altair.SyncAggregatorSelectionDataType)),
		e("altair.SyncCommitteeProofBranch", "altair", "SyncCommitteeProofBranch", func() any { return new(altair.SyncCommitteeProofBranch) }, cvt(altair.SyncCommitteeProofBranchType)),
		e("altair.FinalizedRootProofBranch", "altair", "FinalizedRootProofBranch", func() any { return new(altair.FinalizedRootProofBranch) }, cvt(altair.FinalizedRootProofBranchType)),
		e("altair.LightClientSnapshot", "altair", "LightClientSnapshot", func() any { return new(altair.LightClientSnapshot) }, vt(func(s *common.Spec) view.TypeDef { return altair.LightClientSnapshotType(s) })),
		e("altair.LightClientUpdate", "altair", "LightClientUpdate", func() any { return new(altair.LightClientUpdate) }, vt(func(s *common.Spec) view.TypeDef { return altair.LightClientUpdateType(s) })),
		e("altair.BeaconBlockBody", "altair", "altair.BeaconBlockBody", func() any { return new(altair.BeaconBlockBody) }, vt(func(s *common.Spec) view.TypeDef { return altair.BeaconBlockBodyType(s) })),
		e("altair.BeaconBlock", "altair", "altair.BeaconBlock", func() any { return new(altair.BeaconBlock) }, vt(func(s *common.Spec) view.TypeDef { return altair.BeaconBlockType(s) })),
		e("altair.SignedBeaconBlock", "altair", "altair.SignedBeaconBlock", func() any { return new(altair.SignedBeaconBlock) }, vt(func(s *common.Spec) view.TypeDef { return altair.SignedBeaconBlockType(s) })),
		e("altair.BeaconState", "altair", "altair.BeaconState", func() any { return new(altair.BeaconState) }, vt(func(s *common.Spec) view.TypeDef { return altair.BeaconStateType(s) })),
		// bellatrix
		e("bellatrix.ExecutionPayload", "bellatrix", "bellatrix.ExecutionPayload", func() any { return new(bellatrix.ExecutionPayload) }, vt(func(s *common.Spec) view.TypeDef { return bellatrix.ExecutionPayloadType(s) })),
		e("bellatrix.ExecutionPayloadHeader", "bellatrix", "bellatrix.ExecutionPayloadHeader", func() any { return new(bellatrix.ExecutionPayloadHeader) }, cvt(bellatrix.ExecutionPayloadHeaderType)),
		e("bellatrix.BeaconBlockBody", "bellatrix", "bellatrix.BeaconBlockBody", func() any { return new(bellatrix.BeaconBlockBody) }, vt(func(s *common.Spec) view.TypeDef { return bellatrix.BeaconBlockBodyType(s) })),
		e("bellatrix.BeaconBlockBodyShallow", "bellatrix", "bellatrix.BeaconBlockBodyShallow", func() any { return new(bellatrix.BeaconBlockBodyShallow) }, nil),
		e("bellatrix.BeaconBlock", "bellatrix", "bellatrix.BeaconBlock", func() any { return new(bellatrix.BeaconBlock) }, vt(func(s *common.Spec) view.TypeDef { return bellatrix.BeaconBlockType(s) })),
		e("bellatrix.SignedBeaconBlock", "bellatrix", "bellatrix.SignedBeaconBlock", func() any { return new(bellatrix.SignedBeaconBlock) }, vt(func(s *common.Spec) view.TypeDef { return bellatrix.SignedBeaconBlockType(s) })),
		e("bellatrix.BeaconState", "bellatrix", "bellatrix.BeaconState", func() any { return new(bellatrix.BeaconState) }, vt(func(s *common.Spec) view.TypeDef { return bellatrix.BeaconStateType(s) })),
		// capella
		e("capella.ExecutionPayload", "capella", "capella.ExecutionPayload", func() any { return new(capella.ExecutionPayload) }, vt(func(s *common.Spec) view.TypeDef { return capella.ExecutionPayloadType(s) })),
		e("capella.ExecutionPayloadHeader", "capella", "capella.ExecutionPayloadHeader", func() any { return new(capella.ExecutionPayloadHeader) }, cvt(capella.ExecutionPayloadHeaderType)),
		e("capella.HistoricalSummary", "capella", "HistoricalSummary", func() any { return new(capella.HistoricalSummary) }, cvt(capella.HistoricalSummaryType)),
		e("capella.HistoricalSummaries", "capella", "HistoricalSummaries", func() any { return new(capella.HistoricalSummaries) }, vt(func(s *common.Spec) view.TypeDef { return capella.HistoricalSummariesType(s) })),
		e("capella.BeaconBlockBody", "capella", "capella.BeaconBlockBody", func() any { return new(capella.BeaconBlockBody) }, vt(func(s *common.Spec) view.TypeDef { return capella.BeaconBlockBodyType(s) })),
		e("capella.BeaconBlockBodyShallow", "capella", "capella.BeaconBlockBodyShallow", func() any { return new(capella.BeaconBlockBodyShallow) }, nil),
		e("capella.BeaconBlock", "capella", "capella.BeaconBlock", func() any { return new(capella.BeaconBlock) }, vt(func(s *common.Spec) view.TypeDef { return capella.BeaconBlockType(s) })),
		e("capella.SignedBeaconBlock", "capella", "capella.SignedBeaconBlock", func() any { return new(capella.SignedBeaconBlock) }, vt(func(s *common.Spec) view.TypeDef { return capella.SignedBeaconBlockType(s) })),
		e("capella.BeaconState", "capella", "capella.BeaconState", func() any { return new(capella.BeaconState) }, vt(func(s *common.Spec) view.TypeDef { return capella.BeaconStateType(s) })),
		// deneb
		e("deneb.ExecutionPayload", "deneb", "deneb.ExecutionPayload", func() any { return new(deneb.ExecutionPayload) }, vt(func(s *common.Spec) view.TypeDef { return deneb.ExecutionPayloadType(s) })),
		e("deneb.ExecutionPayloadHeader", "deneb", "deneb.ExecutionPayloadHeader", func() any { return new(deneb.ExecutionPayloadHeader) }, cvt(deneb.ExecutionPayloadHeaderType)),
		e("deneb.KZGCommitments", "deneb", "KZGCommitments", func() any { return new(deneb.KZGCommitments) }, vt(func(s *common.Spec) view.TypeDef { return deneb.KZGCommitmentsType(s) })),
		e("deneb.BeaconBlockBody", "deneb", "deneb.BeaconBlockBody", func() any { return new(deneb.BeaconBlockBody) }, vt(func(s *common.Spec) view.TypeDef { return deneb.BeaconBlockBodyType(s) })),
		e("deneb.BeaconBlockBodyShallow", "deneb", "deneb.BeaconBlockBodyShallow", func() any { return new(deneb.BeaconBlockBodyShallow) }, nil),
		e("deneb.BeaconBlock", "deneb", "deneb.BeaconBlock", func() any { return new(deneb.BeaconBlock) }, vt(func(s *common.Spec) view.TypeDef { return deneb.BeaconBlockType(s) })),
		e("deneb.SignedBeaconBlock", "deneb", "deneb.SignedBeaconBlock", func() any { return new(deneb.SignedBeaconBlock) }, vt(func(s *common.Spec) view.TypeDef { return deneb.SignedBeaconBlockType(s) })),
		e("deneb.BeaconState", "deneb", "deneb.BeaconState", func() any { return new(deneb.BeaconState) }, vt(func(s *common.Spec) view.TypeDef { return deneb.BeaconStateType(s) })),
		// electra
		e("electra.AttestationBits", "electra", "electra.AttestationBits", func() any { return new(electra.AttestationBits) }, vt(func(s *common.Spec) view.TypeDef { return electra.AttestationBitsType(s) })),
		e("electra.CommitteeBits", "electra", "CommitteeBits", func() any { return new(electra.CommitteeBits) }, vt(func(s *common.Spec) view.TypeDef { return electra.CommitteeBitsType(s) })),
		e("electra.Attestation", "electra", "electra.Attestation", func() any { return new(electra.Attestation) }, vt(func(s *common.Spec) view.TypeDef { return electra.AttestationType(s) })),
		e("electra.IndexedAttestation", "electra", "electra.IndexedAttestation", func() any { return new(electra.IndexedAttestation) }, vt(func(s *common.Spec) view.TypeDef { return electra.IndexedAttestationType(s) })),
		e("electra.AttesterSlashing", "electra", "electra.AttesterSlashing", func() any { return new(electra.AttesterSlashing) }, vt(func(s *common.Spec) view.TypeDef { return electra.AttesterSlashingType(s) })),
		e("electra.Attestations", "electra", "electra.Attestations", func() any { return new(electra.Attestations) }, vt(func(s *common.Spec) view.TypeDef { return electra.BlockAttestationsType(s) })),
		e("electra.AttesterSlashings", "electra", "electra.AttesterSlashings", func() any { return new(electra.AttesterSlashings) }, vt(func(s *common.Spec) view.TypeDef { return electra.BlockAttesterSlashingsType(s) })),
		e("electra.SingleAttestation", "electra", "SingleAttestation", func() any { return new(electra.SingleAttestation) }, cvt(electra.SingleAttestationType)),
		e("electra.AggregateAndProof", "electra", "electra.AggregateAndProof", func() any { return new(electra.AggregateAndProof) }, nil),
		e("electra.SignedAggregateAndProof", "electra", "electra.SignedAggregateAndProof", func() any { return new(electra.SignedAggregateAndProof) }, nil),
		e("electra.ExecutionRequests", "electra", "ExecutionRequests", func() any { return new(electra.ExecutionRequests) }, vt(func(s *common.Spec) view.TypeDef { return electra.ExecutionRequestsType(s) })),
		e("electra.BeaconBlockBody", "electra", "electra.BeaconBlockBody", func() any { return new(electra.BeaconBlockBody) }, vt(func(s *common.Spec) view.TypeDef { return electra.BeaconBlockBodyType(s) })),
		e("electra.BeaconBlockBodyShallow", "electra", "electra.BeaconBlockBodyShallow", func() any { return new(electra.BeaconBlockBodyShallow) }, nil),
		e("electra.BeaconBlock", "electra", "electra.BeaconBlock", func() any { return new(electra.BeaconBlock) }, vt(func(s *common.Spec) view.TypeDef { return electra.BeaconBlockType(s) })),
		e("electra.SignedBeaconBlock", "electra", "electra.SignedBeaconBlock", func() any { return new(electra.SignedBeaconBlock) }, vt(func(s *common.Spec) view.TypeDef { return electra.SignedBeaconBlockType(s) })),
		e("electra.BeaconState", "electra", "electra.BeaconState", func() any { return new(electra.BeaconState) }, vt(func(s *common.Spec) view.TypeDef { return electra.BeaconStateType(s) })),
	}
}
