// Package refssz is a small, schema-driven, deliberately naive SSZ implementation used as the
// independent oracle for encodings and hash-tree-roots. It shares no code with zrnt/ztyp: plain
// recursive merkleization over crypto/sha256, strict decoding, generic value trees.
package refssz

import (
	"bytes"
	"crypto/sha256"
	"encoding/binary"
	"encoding/hex"
	"encoding/json"
	"errors"
	"fmt"
	"math/big"
	"math/rand/v2"
	"reflect"
)

type Kind int

const (
	Uint      Kind = iota // Size = byte width (1,2,4,8,16,32); values > 8 bytes are kept little-endian in Value.B
	Bool                  // 1 byte
	Bytes                 // fixed-length byte vector, Size = length
	ByteList              // List[byte, Limit]
	Vector                // Vector[Elem, Size]
	List                  // List[Elem, Limit]
	Bitvector             // Size bits
	Bitlist               // Limit bits
	Container
)

type Field struct {
	Name string
	S    *Schema
}

type Schema struct {
	Kind   Kind
	Size   uint64
	Limit  uint64
	Elem   *Schema
	Fields []Field
	Name   string
}

func U(width uint64) *Schema              { return &Schema{Kind: Uint, Size: width} }
func B(n uint64) *Schema                  { return &Schema{Kind: Bytes, Size: n} }
func BL(limit uint64) *Schema             { return &Schema{Kind: ByteList, Limit: limit} }
func Vec(e *Schema, n uint64) *Schema     { return &Schema{Kind: Vector, Elem: e, Size: n} }
func Lst(e *Schema, limit uint64) *Schema { return &Schema{Kind: List, Elem: e, Limit: limit} }
func BitVec(n uint64) *Schema             { return &Schema{Kind: Bitvector, Size: n} }
func BitLst(limit uint64) *Schema         { return &Schema{Kind: Bitlist, Limit: limit} }
func C(name string, f ...Field) *Schema   { return &Schema{Kind: Container, Name: name, Fields: f} }
func F(name string, s *Schema) Field      { return Field{Name: name, S: s} }

var U8, U16, U32, U64, U128, U256 = U(1), U(2), U(4), U(8), U(16), U(32)
var Boolean = &Schema{Kind: Bool}
var B4, B20, B32, B48, B96 = B(4), B(20), B(32), B(48), B(96)

// Value is a generic SSZ value tree.
type Value struct {
	U     uint64   // Uint (width <= 8), Bool (0/1)
	B     []byte   // Uint (width > 8, little endian), Bytes, ByteList
	Bits  []bool   // Bitvector, Bitlist
	Items []*Value // Vector, List elements; Container fields
}

// IsFixed reports whether the schema is fixed-size, FixedSize gives that size.
func (s *Schema) IsFixed() bool {
	switch s.Kind {
	case Uint, Bool, Bytes, Bitvector:
		return true
	case ByteList, List, Bitlist:
		return false
	case Vector:
		return s.Elem.IsFixed()
	case Container:
		for _, f := range s.Fields {
			if !f.S.IsFixed() {
				return false
			}
		}
		return true
	}
	panic("kind")
}

func (s *Schema) FixedSize() uint64 {
	switch s.Kind {
	case Uint:
		return s.Size
	case Bool:
		return 1
	case Bytes:
		return s.Size
	case Bitvector:
		return (s.Size + 7) / 8
	case Vector:
		return s.Size * s.Elem.FixedSize()
	case Container:
		var n uint64
		for _, f := range s.Fields {
			if f.S.IsFixed() {
				n += f.S.FixedSize()
			} else {
				n += 4
			}
		}
		return n
	}
	panic("not fixed: " + s.Name)
}

// ---------------------------------------------------------------------------------------
// encoding

func Encode(s *Schema, v *Value) []byte {
	var buf bytes.Buffer
	encode(&buf, s, v)
	return buf.Bytes()
}

func packBits(bits []bool, delimiter bool) []byte {
	n := len(bits)
	size := (n + 7) / 8
	if delimiter {
		size = n/8 + 1
	}
	out := make([]byte, size)
	for i, b := range bits {
		if b {
			out[i/8] |= 1 << uint(i%8)
		}
	}
	if delimiter {
		out[n/8] |= 1 << uint(n%8)
	}
	return out
}

func encode(w *bytes.Buffer, s *Schema, v *Value) {
	switch s.Kind {
	case Uint:
		if s.Size <= 8 {
			var tmp [8]byte
			binary.LittleEndian.PutUint64(tmp[:], v.U)
			w.Write(tmp[:s.Size])
		} else {
			b := make([]byte, s.Size)
			copy(b, v.B)
			w.Write(b)
		}
	case Bool:
		w.WriteByte(byte(v.U))
	case Bytes:
		b := make([]byte, s.Size)
		copy(b, v.B)
		w.Write(b)
	case ByteList:
		w.Write(v.B)
	case Bitvector:
		w.Write(packBits(v.Bits, false))
	case Bitlist:
		w.Write(packBits(v.Bits, true))
	case Vector, List:
		encodeSeries(w, repeatSchema(s.Elem, len(v.Items)), v.Items)
	case Container:
		ss := make([]*Schema, len(s.Fields))
		for i, f := range s.Fields {
			ss[i] = f.S
		}
		encodeSeries(w, ss, v.Items)
	}
}

func repeatSchema(e *Schema, n int) []*Schema {
	out := make([]*Schema, n)
	for i := range out {
		out[i] = e
	}
	return out
}

func encodeSeries(w *bytes.Buffer, ss []*Schema, items []*Value) {
	var fixedLen uint64
	for _, s := range ss {
		if s.IsFixed() {
			fixedLen += s.FixedSize()
		} else {
			fixedLen += 4
		}
	}
	var varParts [][]byte
	offset := fixedLen
	for i, s := range ss {
		if s.IsFixed() {
			encode(w, s, items[i])
		} else {
			part := Encode(s, items[i])
			var tmp [4]byte
			binary.LittleEndian.PutUint32(tmp[:], uint32(offset))
			w.Write(tmp[:])
			offset += uint64(len(part))
			varParts = append(varParts, part)
		}
	}
	for _, p := range varParts {
		w.Write(p)
	}
}

// ---------------------------------------------------------------------------------------
// strict decoding

var ErrDecode = errors.New("refssz: invalid encoding")

func derr(format string, args ...any) error {
	return fmt.Errorf("%w: %s", ErrDecode, fmt.Sprintf(format, args...))
}

func Decode(s *Schema, data []byte) (*Value, error) {
	switch s.Kind {
	case Uint:
		if uint64(len(data)) != s.Size {
			return nil, derr("uint%d: %d bytes", s.Size*8, len(data))
		}
		if s.Size <= 8 {
			var tmp [8]byte
			copy(tmp[:], data)
			return &Value{U: binary.LittleEndian.Uint64(tmp[:])}, nil
		}
		return &Value{B: append([]byte{}, data...)}, nil
	case Bool:
		if len(data) != 1 || data[0] > 1 {
			return nil, derr("bool")
		}
		return &Value{U: uint64(data[0])}, nil
	case Bytes:
		if uint64(len(data)) != s.Size {
			return nil, derr("bytes%d: %d bytes", s.Size, len(data))
		}
		return &Value{B: append([]byte{}, data...)}, nil
	case ByteList:
		if uint64(len(data)) > s.Limit {
			return nil, derr("byte list over limit %d > %d", len(data), s.Limit)
		}
		return &Value{B: append([]byte{}, data...)}, nil
	case Bitvector:
		if uint64(len(data)) != (s.Size+7)/8 {
			return nil, derr("bitvector size")
		}
		bits := make([]bool, s.Size)
		for i := range bits {
			bits[i] = data[i/8]&(1<<uint(i%8)) != 0
		}
		if s.Size%8 != 0 && data[len(data)-1]>>(s.Size%8) != 0 {
			return nil, derr("bitvector padding bits set")
		}
		return &Value{Bits: bits}, nil
	case Bitlist:
		if len(data) == 0 || data[len(data)-1] == 0 {
			return nil, derr("bitlist without delimiter")
		}
		last := data[len(data)-1]
		hi := 7
		for last&(1<<uint(hi)) == 0 {
			hi--
		}
		n := uint64(len(data)-1)*8 + uint64(hi)
		if n > s.Limit {
			return nil, derr("bitlist over limit %d > %d", n, s.Limit)
		}
		bits := make([]bool, n)
		for i := range bits {
			bits[i] = data[i/8]&(1<<uint(i%8)) != 0
		}
		return &Value{Bits: bits}, nil
	case Vector:
		if s.Elem.IsFixed() {
			es := s.Elem.FixedSize()
			if uint64(len(data)) != es*s.Size {
				return nil, derr("vector size %d != %d", len(data), es*s.Size)
			}
			return decodeFixedItems(s.Elem, data, es)
		}
		items, err := decodeVarItems(s.Elem, data)
		if err != nil {
			return nil, err
		}
		if uint64(len(items.Items)) != s.Size {
			return nil, derr("vector length")
		}
		return items, nil
	case List:
		if s.Elem.IsFixed() {
			es := s.Elem.FixedSize()
			if uint64(len(data))%es != 0 {
				return nil, derr("list bytes %d not a multiple of %d", len(data), es)
			}
			if uint64(len(data))/es > s.Limit {
				return nil, derr("list over limit")
			}
			return decodeFixedItems(s.Elem, data, es)
		}
		items, err := decodeVarItems(s.Elem, data)
		if err != nil {
			return nil, err
		}
		if uint64(len(items.Items)) > s.Limit {
			return nil, derr("list over limit")
		}
		return items, nil
	case Container:
		ss := make([]*Schema, len(s.Fields))
		for i, f := range s.Fields {
			ss[i] = f.S
		}
		return decodeSeries(ss, data)
	}
	panic("kind")
}

func decodeFixedItems(e *Schema, data []byte, es uint64) (*Value, error) {
	out := &Value{}
	for off := uint64(0); off < uint64(len(data)); off += es {
		it, err := Decode(e, data[off:off+es])
		if err != nil {
			return nil, err
		}
		out.Items = append(out.Items, it)
	}
	return out, nil
}

func decodeVarItems(e *Schema, data []byte) (*Value, error) {
	if len(data) == 0 {
		return &Value{}, nil
	}
	if len(data) < 4 {
		return nil, derr("truncated offsets")
	}
	first := binary.LittleEndian.Uint32(data)
	if first%4 != 0 || first == 0 || uint64(first) > uint64(len(data)) {
		return nil, derr("bad first offset %d", first)
	}
	n := int(first / 4)
	return decodeSeries(repeatSchema(e, n), data)
}

func decodeSeries(ss []*Schema, data []byte) (*Value, error) {
	var fixedLen uint64
	for _, s := range ss {
		if s.IsFixed() {
			fixedLen += s.FixedSize()
		} else {
			fixedLen += 4
		}
	}
	if uint64(len(data)) < fixedLen {
		return nil, derr("truncated: %d < fixed part %d", len(data), fixedLen)
	}
	out := &Value{Items: make([]*Value, len(ss))}
	var offsets []uint64
	var varIdx []int
	pos := uint64(0)
	for i, s := range ss {
		if s.IsFixed() {
			sz := s.FixedSize()
			it, err := Decode(s, data[pos:pos+sz])
			if err != nil {
				return nil, err
			}
			out.Items[i] = it
			pos += sz
		} else {
			offsets = append(offsets, uint64(binary.LittleEndian.Uint32(data[pos:])))
			varIdx = append(varIdx, i)
			pos += 4
		}
	}
	if len(offsets) == 0 {
		if uint64(len(data)) != fixedLen {
			return nil, derr("trailing bytes: %d != %d", len(data), fixedLen)
		}
		return out, nil
	}
	if offsets[0] != fixedLen {
		return nil, derr("first offset %d != fixed part %d", offsets[0], fixedLen)
	}
	for k := range offsets {
		end := uint64(len(data))
		if k+1 < len(offsets) {
			end = offsets[k+1]
		}
		if end < offsets[k] || end > uint64(len(data)) {
			return nil, derr("offset %d out of order or out of range", k)
		}
		it, err := Decode(ss[varIdx[k]], data[offsets[k]:end])
		if err != nil {
			return nil, err
		}
		out.Items[varIdx[k]] = it
	}
	return out, nil
}

// ---------------------------------------------------------------------------------------
// merkleization

var zeroHashes [][32]byte

func init() {
	zeroHashes = make([][32]byte, 65)
	for i := 1; i < len(zeroHashes); i++ {
		zeroHashes[i] = hash2(zeroHashes[i-1], zeroHashes[i-1])
	}
}

func hash2(a, b [32]byte) [32]byte {
	var buf [64]byte
	copy(buf[:32], a[:])
	copy(buf[32:], b[:])
	return sha256.Sum256(buf[:])
}

func depthFor(chunkLimit uint64) int {
	d := 0
	for (uint64(1) << uint(d)) < chunkLimit {
		d++
	}
	return d
}

// merkle: root of chunks padded with zero chunks to 2^depth leaves.
func merkle(chunks [][32]byte, depth int) [32]byte {
	if len(chunks) == 0 {
		return zeroHashes[depth]
	}
	if depth == 0 {
		return chunks[0]
	}
	half := uint64(1) << uint(depth-1)
	if uint64(len(chunks)) <= half {
		return hash2(merkle(chunks, depth-1), zeroHashes[depth-1])
	}
	return hash2(merkle(chunks[:half], depth-1), merkle(chunks[half:], depth-1))
}

func packBytes(data []byte) [][32]byte {
	n := (len(data) + 31) / 32
	out := make([][32]byte, n)
	for i := range out {
		copy(out[i][:], data[i*32:])
	}
	return out
}

func mixLength(root [32]byte, n uint64) [32]byte {
	var l [32]byte
	binary.LittleEndian.PutUint64(l[:8], n)
	return hash2(root, l)
}

func isBasic(s *Schema) bool { return s.Kind == Uint || s.Kind == Bool }

func HashTreeRoot(s *Schema, v *Value) [32]byte {
	switch s.Kind {
	case Uint, Bool:
		var c [32]byte
		copy(c[:], Encode(s, v))
		return c
	case Bytes:
		return merkle(packBytes(Encode(s, v)), depthFor((s.Size+31)/32))
	case ByteList:
		return mixLength(merkle(packBytes(v.B), depthFor((s.Limit+31)/32)), uint64(len(v.B)))
	case Bitvector:
		return merkle(packBytes(packBits(v.Bits, false)), depthFor((s.Size+255)/256))
	case Bitlist:
		return mixLength(merkle(packBytes(packBits(v.Bits, false)), depthFor((s.Limit+255)/256)), uint64(len(v.Bits)))
	case Vector:
		if isBasic(s.Elem) {
			return merkle(packBytes(Encode(s, v)), depthFor((s.Size*s.Elem.FixedSize()+31)/32))
		}
		return merkle(itemRoots(s.Elem, v.Items), depthFor(s.Size))
	case List:
		if isBasic(s.Elem) {
			var buf bytes.Buffer
			for _, it := range v.Items {
				encode(&buf, s.Elem, it)
			}
			return mixLength(merkle(packBytes(buf.Bytes()), depthFor((s.Limit*s.Elem.FixedSize()+31)/32)), uint64(len(v.Items)))
		}
		return mixLength(merkle(itemRoots(s.Elem, v.Items), depthFor(s.Limit)), uint64(len(v.Items)))
	case Container:
		roots := make([][32]byte, len(s.Fields))
		for i, f := range s.Fields {
			roots[i] = HashTreeRoot(f.S, v.Items[i])
		}
		return merkle(roots, depthFor(uint64(len(s.Fields))))
	}
	panic("kind")
}

func itemRoots(e *Schema, items []*Value) [][32]byte {
	out := make([][32]byte, len(items))
	for i, it := range items {
		out[i] = HashTreeRoot(e, it)
	}
	return out
}

// ---------------------------------------------------------------------------------------
// defaults, random values, diff

func Default(s *Schema) *Value {
	switch s.Kind {
	case Uint:
		if s.Size > 8 {
			return &Value{B: make([]byte, s.Size)}
		}
		return &Value{}
	case Bool:
		return &Value{}
	case Bytes:
		return &Value{B: make([]byte, s.Size)}
	case ByteList:
		return &Value{B: []byte{}}
	case Bitvector:
		return &Value{Bits: make([]bool, s.Size)}
	case Bitlist:
		return &Value{Bits: []bool{}}
	case Vector:
		v := &Value{Items: make([]*Value, s.Size)}
		for i := range v.Items {
			v.Items[i] = Default(s.Elem)
		}
		return v
	case List:
		return &Value{Items: []*Value{}}
	case Container:
		v := &Value{Items: make([]*Value, len(s.Fields))}
		for i, f := range s.Fields {
			v.Items[i] = Default(f.S)
		}
		return v
	}
	panic("kind")
}

// randLen draws a list length biased towards boundaries: 0, 1, around multiples of 8/32/256, at the limit when small.
func randLen(rng *rand.Rand, limit uint64, maxLen uint64) uint64 {
	if limit < maxLen {
		maxLen = limit
	}
	if maxLen == 0 {
		return 0
	}
	switch rng.IntN(8) {
	case 0:
		return 0
	case 1:
		return 1
	case 2:
		return maxLen
	case 3:
		for _, m := range []uint64{256, 32, 8} {
			if maxLen > m {
				base := m * (1 + rng.Uint64N(maxLen/m))
				d := rng.Uint64N(3)
				if base+d-1 <= maxLen {
					return base + d - 1
				}
			}
		}
		return maxLen
	default:
		return rng.Uint64N(maxLen + 1)
	}
}

// Random draws a random value with discriminating content. budget bounds the total number of leaf items.
func Random(s *Schema, rng *rand.Rand, budget *int) *Value {
	take := func(n uint64) uint64 {
		if *budget <= 0 {
			return 0
		}
		if n > uint64(*budget) {
			n = uint64(*budget)
		}
		*budget -= int(n)
		return n
	}
	switch s.Kind {
	case Uint:
		if s.Size > 8 {
			b := make([]byte, s.Size)
			for i := range b {
				b[i] = byte(rng.Uint32())
			}
			if rng.IntN(4) == 0 {
				for i := 8; i < len(b); i++ {
					b[i] = 0
				}
			}
			return &Value{B: b}
		}
		var x uint64
		switch rng.IntN(6) {
		case 0:
			x = 0
		case 1:
			x = ^uint64(0)
		case 2:
			x = rng.Uint64() >> uint(rng.IntN(64))
		default:
			x = rng.Uint64()
		}
		if s.Size < 8 {
			x &= (uint64(1) << (8 * s.Size)) - 1
		}
		return &Value{U: x}
	case Bool:
		return &Value{U: uint64(rng.IntN(2))}
	case Bytes:
		b := make([]byte, s.Size)
		for i := range b {
			b[i] = byte(rng.Uint32())
		}
		return &Value{B: b}
	case ByteList:
		n := take(randLen(rng, s.Limit, 300))
		b := make([]byte, n)
		for i := range b {
			b[i] = byte(rng.Uint32())
		}
		return &Value{B: b}
	case Bitvector:
		bits := make([]bool, s.Size)
		for i := range bits {
			bits[i] = rng.IntN(2) == 0
		}
		return &Value{Bits: bits}
	case Bitlist:
		n := take(randLen(rng, s.Limit, 600))
		bits := make([]bool, n)
		for i := range bits {
			bits[i] = rng.IntN(2) == 0
		}
		return &Value{Bits: bits}
	case Vector:
		v := &Value{Items: make([]*Value, s.Size)}
		// long vectors: mostly default content with a few random entries (keeps big states cheap but discriminating)
		sparse := s.Size > 64
		for i := range v.Items {
			if sparse && rng.IntN(16) != 0 && i != 0 && uint64(i) != s.Size-1 {
				v.Items[i] = Default(s.Elem)
			} else {
				v.Items[i] = Random(s.Elem, rng, budget)
			}
		}
		return v
	case List:
		maxLen := uint64(40)
		if isBasic(s.Elem) {
			maxLen = 300
		}
		n := take(randLen(rng, s.Limit, maxLen))
		v := &Value{Items: make([]*Value, n)}
		for i := range v.Items {
			v.Items[i] = Random(s.Elem, rng, budget)
		}
		return v
	case Container:
		v := &Value{Items: make([]*Value, len(s.Fields))}
		for i, f := range s.Fields {
			v.Items[i] = Random(f.S, rng, budget)
		}
		return v
	}
	panic("kind")
}

// Diff lists the paths at which two values of one schema differ (at most max entries).
func Diff(s *Schema, a, b *Value, path string, out *[]string, max int) {
	if len(*out) >= max {
		return
	}
	add := func(msg string) { *out = append(*out, path+": "+msg) }
	switch s.Kind {
	case Uint, Bool:
		if s.Kind == Uint && s.Size > 8 {
			if !bytes.Equal(a.B, b.B) {
				add(fmt.Sprintf("%x != %x", a.B, b.B))
			}
		} else if a.U != b.U {
			add(fmt.Sprintf("%d != %d", a.U, b.U))
		}
	case Bytes, ByteList:
		if !bytes.Equal(a.B, b.B) {
			add(fmt.Sprintf("%x != %x", trunc(a.B), trunc(b.B)))
		}
	case Bitvector, Bitlist:
		if !reflect.DeepEqual(a.Bits, b.Bits) {
			add(fmt.Sprintf("bits %d/%v != %d/%v", len(a.Bits), ones(a.Bits), len(b.Bits), ones(b.Bits)))
		}
	case Vector, List:
		if len(a.Items) != len(b.Items) {
			add(fmt.Sprintf("length %d != %d", len(a.Items), len(b.Items)))
		}
		for i := 0; i < len(a.Items) && i < len(b.Items); i++ {
			Diff(s.Elem, a.Items[i], b.Items[i], fmt.Sprintf("%s[%d]", path, i), out, max)
		}
	case Container:
		for i, f := range s.Fields {
			Diff(f.S, a.Items[i], b.Items[i], path+"."+f.Name, out, max)
		}
	}
}

func trunc(b []byte) []byte {
	if len(b) > 40 {
		return b[:40]
	}
	return b
}

func ones(bits []bool) []int {
	var out []int
	for i, b := range bits {
		if b {
			out = append(out, i)
		}
	}
	if len(out) > 20 {
		out = out[:20]
	}
	return out
}

// DiffBytes decodes two encodings and diffs them; falls back to a byte position.
func DiffBytes(s *Schema, a, b []byte, max int) []string {
	va, ea := Decode(s, a)
	vb, eb := Decode(s, b)
	if ea != nil || eb != nil {
		for i := 0; i < len(a) && i < len(b); i++ {
			if a[i] != b[i] {
				return []string{fmt.Sprintf("bytes differ at %d (decode errors: %v / %v)", i, ea, eb)}
			}
		}
		return []string{fmt.Sprintf("lengths %d != %d (decode errors: %v / %v)", len(a), len(b), ea, eb)}
	}
	var out []string
	Diff(s, va, vb, s.Name, &out, max)
	return out
}

// ---------------------------------------------------------------------------------------
// Go values -> Value (reflection), used by the reference spec which works on plain structs

// FromGo converts a Go value to a Value following the schema: structs are containers (fields in
// order), slices/arrays of bytes are Bytes/ByteList, []bool are bitfields, other slices are lists/vectors,
// unsigned integers and bools are basic values, [32]byte with a Uint(32) schema is a uint256 (little endian).
func FromGo(s *Schema, x any) *Value {
	return fromGo(s, reflect.ValueOf(x))
}

func fromGo(s *Schema, rv reflect.Value) *Value {
	for rv.Kind() == reflect.Ptr || rv.Kind() == reflect.Interface {
		rv = rv.Elem()
	}
	switch s.Kind {
	case Uint:
		if s.Size > 8 {
			b := make([]byte, s.Size)
			for i := 0; i < rv.Len() && i < len(b); i++ {
				b[i] = byte(rv.Index(i).Uint())
			}
			return &Value{B: b}
		}
		return &Value{U: rv.Uint()}
	case Bool:
		if rv.Bool() {
			return &Value{U: 1}
		}
		return &Value{U: 0}
	case Bytes, ByteList:
		n := rv.Len()
		b := make([]byte, n)
		for i := 0; i < n; i++ {
			b[i] = byte(rv.Index(i).Uint())
		}
		if s.Kind == Bytes && uint64(n) != s.Size {
			panic(fmt.Sprintf("refssz.FromGo: bytes%d given %d bytes", s.Size, n))
		}
		return &Value{B: b}
	case Bitvector, Bitlist:
		n := rv.Len()
		bits := make([]bool, n)
		for i := 0; i < n; i++ {
			bits[i] = rv.Index(i).Bool()
		}
		return &Value{Bits: bits}
	case Vector, List:
		n := rv.Len()
		if s.Kind == Vector && uint64(n) != s.Size {
			panic(fmt.Sprintf("refssz.FromGo: vector %d given %d items", s.Size, n))
		}
		v := &Value{Items: make([]*Value, n)}
		for i := 0; i < n; i++ {
			v.Items[i] = fromGo(s.Elem, rv.Index(i))
		}
		return v
	case Container:
		if rv.NumField() != len(s.Fields) {
			panic(fmt.Sprintf("refssz.FromGo: container %s has %d fields, Go struct %s has %d", s.Name, len(s.Fields), rv.Type(), rv.NumField()))
		}
		v := &Value{Items: make([]*Value, len(s.Fields))}
		for i, f := range s.Fields {
			v.Items[i] = fromGo(f.S, rv.Field(i))
		}
		return v
	}
	panic("kind")
}

func RootOf(s *Schema, x any) [32]byte { return HashTreeRoot(s, FromGo(s, x)) }
func BytesOf(s *Schema, x any) []byte  { return Encode(s, FromGo(s, x)) }

// JSONOf renders a value in the consensus API JSON conventions as a generic tree with every scalar turned into a string
// (decimal for integers and booleans as "true"/"false", 0x-hex for byte strings and bitfields in their SSZ byte form),
// so that it can be compared with a parsed JSON document after the same normalisation.
func JSONOf(s *Schema, v *Value) any {
	switch s.Kind {
	case Uint:
		if s.Size > 8 {
			n := new(big.Int)
			be := make([]byte, len(v.B))
			for i := range v.B {
				be[len(v.B)-1-i] = v.B[i]
			}
			n.SetBytes(be)
			return n.String()
		}
		return fmt.Sprintf("%d", v.U)
	case Bool:
		if v.U != 0 {
			return "true"
		}
		return "false"
	case Bytes, ByteList:
		return "0x" + hex.EncodeToString(v.B)
	case Bitvector, Bitlist:
		return "0x" + hex.EncodeToString(Encode(s, v))
	case Vector, List:
		out := make([]any, len(v.Items))
		for i, it := range v.Items {
			out[i] = JSONOf(s.Elem, it)
		}
		return out
	case Container:
		out := map[string]any{}
		for i, f := range s.Fields {
			out[f.Name] = JSONOf(f.S, v.Items[i])
		}
		return out
	}
	panic("kind")
}

// NormalizeJSON turns every scalar of a parsed JSON document into a string (numbers in decimal, booleans, strings as they are).
func NormalizeJSON(x any) any {
	switch t := x.(type) {
	case map[string]any:
		out := map[string]any{}
		for k, v := range t {
			out[k] = NormalizeJSON(v)
		}
		return out
	case []any:
		out := make([]any, len(t))
		for i, v := range t {
			out[i] = NormalizeJSON(v)
		}
		return out
	case json.Number:
		return t.String()
	case bool:
		if t {
			return "true"
		}
		return "false"
	case nil:
		return []any{}
	}
	return x
}
