// Package faults holds the injectors: a counting/cancelling context and helpers to find poll sites.
package faults

import (
	"context"
	"fmt"
	"go/ast"
	"go/parser"
	"go/token"
	"os"
	"path/filepath"
	"runtime"
	"strings"
	"sync"
	"time"
)

// CountingCtx implements context.Context. Every Err() call is counted and its caller recorded; from the
// CancelAt-th call on (1-based, 0 = never) it reports context.Canceled, sticky like a real cancellation.
type CountingCtx struct {
	mu       sync.Mutex
	CancelAt int
	N        int
	Sites    []string // caller file:line per poll, in order
	done     chan struct{}
}

func NewCountingCtx(cancelAt int) *CountingCtx {
	return &CountingCtx{CancelAt: cancelAt, done: make(chan struct{})}
}

func (c *CountingCtx) Deadline() (time.Time, bool) { return time.Time{}, false }
func (c *CountingCtx) Done() <-chan struct{}       { return c.done }
func (c *CountingCtx) Value(any) any               { return nil }

func (c *CountingCtx) Err() error {
	c.mu.Lock()
	defer c.mu.Unlock()
	c.N++
	site := "?"
	if _, file, line, ok := runtime.Caller(1); ok {
		site = fmt.Sprintf("%s:%d", trimRepo(file), line)
	}
	c.Sites = append(c.Sites, site)
	if c.CancelAt > 0 && c.N >= c.CancelAt {
		if c.N == c.CancelAt {
			close(c.done)
		}
		return context.Canceled
	}
	return nil
}

func trimRepo(file string) string {
	if i := strings.Index(file, "/eth2/"); i >= 0 {
		return file[i+1:]
	}
	return file
}

// PollSitesInSource scans the given directories of the repository for ctx.Err() calls.
func PollSitesInSource(repo string, dirs []string) ([]string, error) {
	var out []string
	fset := token.NewFileSet()
	for _, d := range dirs {
		files, _ := filepath.Glob(filepath.Join(repo, d, "*.go"))
		for _, f := range files {
			if strings.HasSuffix(f, "_test.go") {
				continue
			}
			src, err := os.ReadFile(f)
			if err != nil {
				return nil, err
			}
			af, err := parser.ParseFile(fset, f, src, 0)
			if err != nil {
				return nil, err
			}
			ast.Inspect(af, func(n ast.Node) bool {
				call, ok := n.(*ast.CallExpr)
				if !ok {
					return true
				}
				sel, ok := call.Fun.(*ast.SelectorExpr)
				if !ok || sel.Sel.Name != "Err" || len(call.Args) != 0 {
					return true
				}
				if id, ok := sel.X.(*ast.Ident); ok && id.Name == "ctx" {
					pos := fset.Position(call.Pos())
					out = append(out, fmt.Sprintf("%s:%d", trimRepo(pos.Filename), pos.Line))
				}
				return true
			})
		}
	}
	return out, nil
}
