// Package fw is the small runtime-monitoring framework shared by all property checks:
// deterministic seeding, child worker processes, case logs written before execution,
// three-valued verdicts, known-findings matching and evidence files.
package fw

import (
	"crypto/sha256"
	"encoding/binary"
	"encoding/gob"
	"encoding/hex"
	"encoding/json"
	"fmt"
	"hash/fnv"
	"math/rand/v2"
	"os"
	"os/exec"
	"path/filepath"
	"regexp"
	"runtime"
	"runtime/debug"
	"sort"
	"strconv"
	"strings"
	"sync"
	"syscall"
	"time"
)

// RepoDir is the source tree of zrnt this binary was built from: the replace target recorded in the build info
// (so source scans look at the same tree as the compiled code), /repo if that is not available.
var RepoDir = func() string {
	if bi, ok := debug.ReadBuildInfo(); ok {
		for _, d := range bi.Deps {
			if d.Path == "github.com/protolambda/zrnt" && d.Replace != nil && strings.HasPrefix(d.Replace.Path, "/") {
				return d.Replace.Path
			}
		}
	}
	return "/repo"
}()

// Root is the directory of the verification framework (evidence, known findings); /verif unless VERIF_ROOT is set.
var Root = func() string {
	if r := os.Getenv("VERIF_ROOT"); r != "" {
		return r
	}
	return "/verif"
}()

// Violation is one observed refutation of a property.
type Violation struct {
	Property  string          `json:"property"`
	Signature string          `json:"signature"`
	What      string          `json:"what"`
	Tier      string          `json:"tier"`
	Seed      int64           `json:"seed"`
	Batch     int             `json:"batch"`
	Case      int             `json:"case"`
	CaseDesc  string          `json:"case_desc"`
	Detail    json.RawMessage `json:"detail,omitempty"`
}

// Prop is one property check.
type Prop struct {
	ID          string
	Level       string // evidence level
	Rule        string
	Assumptions []string
	// Batches returns the number of independent child batches for a tier.
	Batches func(tier string) int
	// Run executes one batch.
	Run func(b *B)
	// Required counters: all must be > 0 after merging, else the run is inconclusive.
	Required []string
	// RequiredFor lets a property compute required counters per tier (overrides Required when non-nil).
	RequiredFor func(tier string) []string
	// ChildTimeout is the wall-clock watchdog per child (inconclusive when only it fires).
	ChildTimeout func(tier string) time.Duration
	// RaceBatches: additional batches run with the -race binary (batch index >= Batches(tier)).
	RaceBatches func(tier string) int
	// RaceChildTimeout, if set, is the watchdog for children of the -race build (a deadlock is not reported by that build:
	// the child just hangs, so it should not wait as long as the plain children may).
	RaceChildTimeout func(tier string) time.Duration
	// Finish may add derived counters / checks after merge.
	Finish func(m *Merged)
	// Parallel limits concurrently running children (0 = NumCPU).
	Parallel int
}

var registry = map[string]*Prop{}

func Register(p *Prop) { registry[p.ID] = p }

// B is the context of one batch.
type B struct {
	Prop  string
	Tier  string
	Seed  int64
	Batch int
	Race  bool // running inside the -race binary
	Rng   *rand.Rand

	res       BatchResult
	distinct  map[uint64]struct{}
	caseLog   []byte // mmap'd (MAP_SHARED) record of the case being executed; survives a fatal runtime error
	caseLen   int
	violLog   *os.File
	caseNo    int
	caseClass string
	caseDesc  string
	stopAfter int // replay: stop after this case (0 = never)
	maxSamp   int
}

type BatchResult struct {
	Batch       int
	Evaluations int64
	Distinct    []uint64
	Counters    map[string]int64
	Samples     []string // JSON-encoded
	Violations  []Violation
	Notes       []string
	Sets        map[string][]string // named string sets, merged by union (e.g. poll sites)
}

func Quick(tier string) bool { return tier != "thorough" }

// SeedFor derives a sub-seed.
func SeedFor(seed int64, parts ...any) (uint64, uint64) {
	h := sha256.New()
	fmt.Fprintf(h, "%d", seed)
	for _, p := range parts {
		fmt.Fprintf(h, "|%v", p)
	}
	s := h.Sum(nil)
	return binary.LittleEndian.Uint64(s[:8]), binary.LittleEndian.Uint64(s[8:16])
}

func NewRng(seed int64, parts ...any) *rand.Rand {
	a, b := SeedFor(seed, parts...)
	return rand.New(rand.NewPCG(a, b))
}

// Case announces a case before it is executed. class is the stable part (used in
// signatures of fatal crashes), desc describes the concrete input.
func (b *B) Case(class, desc string) {
	b.caseNo++
	b.caseClass = class
	b.caseDesc = desc
	b.res.Evaluations++
	if b.caseLog != nil {
		binary.LittleEndian.PutUint32(b.caseLog[8:12], 0)
		binary.LittleEndian.PutUint64(b.caseLog[0:8], uint64(b.caseNo))
		b.caseLen = 0
		b.appendLog(class + "\t" + desc + "\n")
	}
}

func (b *B) appendLog(s string) {
	room := len(b.caseLog) - 12 - b.caseLen
	if len(s) > room {
		s = s[:room]
	}
	copy(b.caseLog[12+b.caseLen:], s)
	b.caseLen += len(s)
	binary.LittleEndian.PutUint32(b.caseLog[8:12], uint32(b.caseLen))
}

// LogStep appends a line to the case log without counting an evaluation (operation-level detail).
func (b *B) LogStep(format string, args ...any) {
	if b.caseLog != nil {
		b.appendLog(fmt.Sprintf(format, args...) + "\n")
	}
}

func (b *B) CaseNo() int { return b.caseNo }

// Stop reports whether the replay target case has been passed.
func (b *B) Stop() bool { return b.stopAfter > 0 && b.caseNo >= b.stopAfter }

// Nontrivial records a distinct non-trivial case by key.
func (b *B) Nontrivial(key ...any) {
	h := fnv.New64a()
	for _, k := range key {
		switch v := k.(type) {
		case []byte:
			h.Write(v)
		case string:
			h.Write([]byte(v))
		default:
			fmt.Fprintf(h, "%v", v)
		}
		h.Write([]byte{0})
	}
	b.distinct[h.Sum64()] = struct{}{}
}

func (b *B) Count(name string, n int64) {
	b.res.Counters[name] += n
}

func (b *B) Inc(name string) { b.res.Counters[name]++ }

func (b *B) CountIf(cond bool, name string) {
	if cond {
		b.res.Counters[name]++
	}
}

func (b *B) Max(name string, v int64) {
	if cur, ok := b.res.Counters[name]; !ok || v > cur {
		b.res.Counters[name] = v
	}
}

func (b *B) SetAdd(set, item string) {
	for _, s := range b.res.Sets[set] {
		if s == item {
			return
		}
	}
	b.res.Sets[set] = append(b.res.Sets[set], item)
}

func (b *B) Sample(v any) {
	if len(b.res.Samples) >= b.maxSamp {
		return
	}
	data, err := json.Marshal(v)
	if err != nil {
		data, _ = json.Marshal(fmt.Sprintf("%v", v))
	}
	if len(data) > 4000 {
		data, _ = json.Marshal(string(data[:4000]) + "...")
	}
	b.res.Samples = append(b.res.Samples, string(data))
}

func (b *B) Note(format string, args ...any) {
	if len(b.res.Notes) < 50 {
		b.res.Notes = append(b.res.Notes, fmt.Sprintf(format, args...))
	}
}

// Violate records a violation of the property.
func (b *B) Violate(sig, what string, detail any) {
	b.res.Counters["violations_raw"]++
	// keep at most 3 per signature per batch
	n := 0
	for _, v := range b.res.Violations {
		if v.Signature == sig {
			n++
		}
	}
	if n >= 3 {
		return
	}
	v := Violation{
		Property: b.Prop, Signature: sig, What: what, Tier: b.Tier, Seed: b.Seed,
		Batch: b.Batch, Case: b.caseNo, CaseDesc: b.caseDesc, Detail: rawDetail(detail),
	}
	b.res.Violations = append(b.res.Violations, v)
	if b.violLog != nil {
		// written at once (page cache survives a later fatal runtime error of this process)
		if data, err := json.Marshal(v); err == nil {
			b.violLog.Write(append(data, '\n'))
		}
	}
}

// Guard runs f and converts a panic into a returned description (nil if no panic).
func Guard(f func()) (p any, stack string) {
	defer func() {
		if r := recover(); r != nil {
			p = r
			stack = string(debug.Stack())
		}
	}()
	f()
	return nil, ""
}

// NoPanic runs f; a panic is recorded as a violation with the given signature.
func (b *B) NoPanic(sig string, f func()) bool {
	p, st := Guard(f)
	if p != nil {
		b.Violate(sig, fmt.Sprintf("panic: %v", p), map[string]any{"panic": fmt.Sprint(p), "stack": trimStack(st)})
		return false
	}
	return true
}

func rawDetail(d any) json.RawMessage {
	if d == nil {
		return nil
	}
	data, err := json.Marshal(d)
	if err != nil {
		data, _ = json.Marshal(fmt.Sprintf("%v", d))
	}
	if len(data) > 200000 {
		data, _ = json.Marshal(string(data[:200000]) + "...(truncated)")
	}
	return data
}

func trimStack(s string) string {
	lines := strings.Split(s, "\n")
	if len(lines) > 40 {
		lines = lines[:40]
	}
	return strings.Join(lines, "\n")
}

// ---------------------------------------------------------------------------------------
// child side

func logDir() string { return filepath.Join(Root, "evidence", "logs") }

func childPaths(id, tier string, batch int, race bool) (cases, result, log string) {
	sfx := ""
	if race {
		sfx = ".race"
	}
	base := filepath.Join(logDir(), fmt.Sprintf("%s.%s.%d%s", id, tier, batch, sfx))
	return base + ".cases", base + ".result", base + ".log"
}

// RunChild executes one batch in this process and writes the result file.
func RunChild(id, tier string, seed int64, batch int, race bool, stopAfter int) *BatchResult {
	p := registry[id]
	if p == nil {
		fmt.Fprintf(os.Stderr, "unknown property %s\n", id)
		os.Exit(3)
	}
	debug.SetMaxStack(256 << 20)
	casesPath, resultPath, _ := childPaths(id, tier, batch, race)
	os.MkdirAll(logDir(), 0o755)
	b := &B{Prop: id, Tier: tier, Seed: seed, Batch: batch, Race: race,
		Rng: NewRng(seed, id, batch), distinct: map[uint64]struct{}{}, stopAfter: stopAfter, maxSamp: 3}
	b.res.Batch = batch
	b.res.Counters = map[string]int64{}
	b.res.Sets = map[string][]string{}
	if stopAfter == 0 {
		f, err := os.Create(casesPath)
		if err == nil {
			const sz = 1 << 20
			if f.Truncate(sz) == nil {
				if mem, e := syscall.Mmap(int(f.Fd()), 0, sz, syscall.PROT_READ|syscall.PROT_WRITE, syscall.MAP_SHARED); e == nil {
					b.caseLog = mem
				}
			}
			f.Close()
		}
		if vf, err := os.Create(resultPath + ".viol"); err == nil {
			b.violLog = vf
			defer vf.Close()
		}
	}
	p.Run(b)
	for h := range b.distinct {
		b.res.Distinct = append(b.res.Distinct, h)
	}
	if stopAfter == 0 {
		f, err := os.Create(resultPath + ".tmp")
		if err != nil {
			fmt.Fprintln(os.Stderr, err)
			os.Exit(3)
		}
		if err := gob.NewEncoder(f).Encode(&b.res); err != nil {
			fmt.Fprintln(os.Stderr, err)
			os.Exit(3)
		}
		f.Close()
		os.Rename(resultPath+".tmp", resultPath)
	}
	return &b.res
}

// ---------------------------------------------------------------------------------------
// driver side

type Merged struct {
	Prop         *Prop
	Tier         string
	Seed         int64
	Evaluations  int64
	Distinct     map[uint64]struct{}
	Counters     map[string]int64
	Samples      []json.RawMessage
	Violations   []Violation
	Inconclusive []string
	Notes        []string
	Sets         map[string]map[string]struct{}
	Extra        map[string]any
}

func (m *Merged) Violate(sig, what string, detail any) {
	m.Violations = append(m.Violations, Violation{Property: m.Prop.ID, Signature: sig, What: what, Tier: m.Tier, Seed: m.Seed, Batch: -1, Detail: rawDetail(detail)})
}

type KnownFinding struct {
	Property  string `json:"property"`
	Signature string `json:"signature"`
	Status    string `json:"status"` // open | fixed
	Commit    string `json:"commit,omitempty"`
	What      string `json:"what"`
}

func loadKnown() []KnownFinding {
	data, err := os.ReadFile(filepath.Join(Root, "known_findings.json"))
	if err != nil {
		return nil
	}
	var out []KnownFinding
	if err := json.Unmarshal(data, &out); err != nil {
		fmt.Fprintf(os.Stderr, "known_findings.json: %v\n", err)
		return nil
	}
	return out
}

func matchSig(pattern, sig string) bool {
	if strings.HasSuffix(pattern, "*") {
		return strings.HasPrefix(sig, strings.TrimSuffix(pattern, "*"))
	}
	return pattern == sig
}

var fatalRe = regexp.MustCompile(`(?m)^(fatal error: .*|panic: .*|runtime: goroutine stack exceeds.*|SIGQUIT: quit)$`)

func classifyFatal(log string) (kind, line string) {
	m := fatalRe.FindString(log)
	switch {
	case strings.Contains(log, "all goroutines are asleep - deadlock"):
		return "deadlock", "fatal error: all goroutines are asleep - deadlock!"
	case strings.Contains(log, "goroutine stack exceeds"):
		return "stack-overflow", "runtime: goroutine stack exceeds limit"
	case strings.Contains(log, "concurrent map"):
		return "concurrent-map", m
	case strings.Contains(log, "checkptr"):
		return "checkptr", m
	case strings.HasPrefix(m, "panic:"):
		return "panic", m
	case strings.HasPrefix(m, "fatal error:"):
		return "fatal", m
	}
	return "died", m
}

func lastCase(path string) (no int, class, desc string, steps []string) {
	data, err := os.ReadFile(path)
	if err != nil || len(data) < 12 {
		return 0, "", "", nil
	}
	no = int(binary.LittleEndian.Uint64(data[0:8]))
	n := int(binary.LittleEndian.Uint32(data[8:12]))
	if n > len(data)-12 {
		n = len(data) - 12
	}
	lines := strings.Split(strings.TrimRight(string(data[12:12+n]), "\n"), "\n")
	if len(lines) > 0 {
		parts := strings.SplitN(lines[0], "\t", 2)
		class = parts[0]
		if len(parts) > 1 {
			desc = parts[1]
		}
		steps = lines[1:]
	}
	return no, class, desc, steps
}

// RunDriver runs all batches of a property in child processes, merges, writes evidence,
// prints the verdict lines and returns the exit code.
func RunDriver(id, tier string) int {
	p := registry[id]
	if p == nil {
		fmt.Fprintf(os.Stderr, "unknown property %s\n", id)
		return 3
	}
	start := time.Now()
	seed := int64(1)
	if s := os.Getenv("VERIF_SEED"); s != "" {
		if v, err := strconv.ParseInt(s, 10, 64); err == nil {
			seed = v
		}
	}
	self, _ := os.Executable()
	raceBin := os.Getenv("VWORKER_RACE")
	n := p.Batches(tier)
	nr := 0
	if p.RaceBatches != nil && raceBin != "" {
		nr = p.RaceBatches(tier)
	}
	timeout := 20 * time.Minute
	if p.ChildTimeout != nil {
		timeout = p.ChildTimeout(tier)
	}
	os.MkdirAll(logDir(), 0o755)
	os.MkdirAll(filepath.Join(Root, "evidence", "replay"), 0o755)
	// clear stale logs of this property/tier
	old, _ := filepath.Glob(filepath.Join(logDir(), fmt.Sprintf("%s.%s.*", id, tier)))
	for _, f := range old {
		os.Remove(f)
	}

	m := &Merged{Prop: p, Tier: tier, Seed: seed, Distinct: map[uint64]struct{}{}, Counters: map[string]int64{},
		Sets: map[string]map[string]struct{}{}, Extra: map[string]any{}}
	var mu sync.Mutex
	par := runtime.NumCPU()
	if p.Parallel > 0 && p.Parallel < par {
		par = p.Parallel
	}
	sem := make(chan struct{}, par)
	var wg sync.WaitGroup
	for i := 0; i < n+nr; i++ {
		wg.Add(1)
		sem <- struct{}{}
		go func(batch int) {
			defer wg.Done()
			defer func() { <-sem }()
			race := batch >= n
			bin := self
			if race {
				bin = raceBin
			}
			casesPath, resultPath, logPath := childPaths(id, tier, batch, race)
			to := timeout
			if race && p.RaceChildTimeout != nil {
				to = p.RaceChildTimeout(tier)
			}
			args := []string{"-s", "QUIT", "-k", "10", fmt.Sprintf("%d", int(to.Seconds())), bin, "child", id, tier,
				strconv.FormatInt(seed, 10), strconv.Itoa(batch)}
			cmd := exec.Command("timeout", args...)
			lf, _ := os.Create(logPath)
			cmd.Stdout = lf
			cmd.Stderr = lf
			cmd.Env = append(os.Environ(), "GOTRACEBACK=all")
			if race {
				cmd.Env = append(cmd.Env, "VWORKER_IS_RACE=1", "GORACE=halt_on_error=0 history_size=3 log_path="+logPath+".racelog")
			}
			err := cmd.Run()
			lf.Close()
			var res BatchResult
			ok := false
			if f, e := os.Open(resultPath); e == nil {
				if gob.NewDecoder(f).Decode(&res) == nil {
					ok = true
				}
				f.Close()
			}
			mu.Lock()
			defer mu.Unlock()
			if ok {
				mergeBatch(m, &res)
			} else if vdata, e := os.ReadFile(resultPath + ".viol"); e == nil {
				// the child died before writing its result: keep the violations it had already seen
				for _, line := range strings.Split(string(vdata), "\n") {
					var v Violation
					if line != "" && json.Unmarshal([]byte(line), &v) == nil {
						m.Violations = append(m.Violations, v)
					}
				}
			}
			exit := 0
			if err != nil {
				if ee, isExit := err.(*exec.ExitError); isExit {
					exit = ee.ExitCode()
				} else {
					exit = -1
				}
			}
			if !ok || exit != 0 {
				logData, _ := os.ReadFile(logPath)
				logStr := string(logData)
				kind, line := classifyFatal(logStr)
				no, class, desc, steps := lastCase(casesPath)
				if exit == 124 || exit == 137 || (kind == "died" && strings.Contains(logStr, "SIGQUIT")) {
					m.Inconclusive = append(m.Inconclusive, fmt.Sprintf("batch %d: wall-clock watchdog (%s) fired at case %d (%s)", batch, timeout, no, class))
					return
				}
				if exit == 66 && race && ok {
					// exit code of the race detector: reports are taken from the log
					scanRaceLogs(m, logPath+".racelog", batch)
					return
				}
				if kind == "died" && ok {
					m.Inconclusive = append(m.Inconclusive, fmt.Sprintf("batch %d: child exit %d", batch, exit))
					return
				}
				tail := logStr
				if len(tail) > 3000 {
					tail = tail[:3000]
				}
				m.Violations = append(m.Violations, Violation{Property: id, Signature: "fatal/" + kind + "/" + class,
					What: fmt.Sprintf("child process died (%s) while executing case %d: %s", line, no, desc), Tier: tier, Seed: seed,
					Batch: batch, Case: no, CaseDesc: desc, Detail: rawDetail(map[string]any{"log_head": tail, "steps": steps})})
			}
			if race {
				scanRaceLogs(m, logPath+".racelog", batch)
			}
		}(i)
	}
	wg.Wait()

	if p.Finish != nil {
		p.Finish(m)
	}
	req := p.Required
	if p.RequiredFor != nil {
		req = p.RequiredFor(tier)
	}
	for _, r := range req {
		if m.Counters[r] <= 0 {
			m.Inconclusive = append(m.Inconclusive, "required counter never observed: "+r)
		}
	}
	if m.Evaluations == 0 {
		m.Inconclusive = append(m.Inconclusive, "no case was executed")
	}

	// classify violations
	known := loadKnown()
	type sigAgg struct {
		first Violation
		count int
	}
	bySig := map[string]*sigAgg{}
	var order []string
	for _, v := range m.Violations {
		a := bySig[v.Signature]
		if a == nil {
			a = &sigAgg{first: v}
			bySig[v.Signature] = a
			order = append(order, v.Signature)
		}
		a.count++
	}
	sort.Strings(order)
	newViol := 0
	knownSeen := map[string]bool{}
	for _, sig := range order {
		a := bySig[sig]
		isKnown := false
		for _, k := range known {
			if k.Property == id && k.Status == "open" && matchSig(k.Signature, sig) {
				isKnown = true
				if !knownSeen[k.Signature] {
					knownSeen[k.Signature] = true
					fmt.Printf("KNOWN-FINDING: property=%s %s [signature %s]\n", id, k.What, k.Signature)
				}
				break
			}
		}
		if isKnown {
			continue
		}
		newViol++
		path := writeReplay(a.first)
		fmt.Printf("VIOLATION property=%s replay=%s\n", id, path)
		fmt.Printf("  signature=%s (x%d)\n  %s\n", sig, a.count, a.first.What)
	}
	wall := time.Since(start).Seconds()
	writeEvidence(m, newViol, len(knownSeen), wall)

	keys := make([]string, 0, len(m.Counters))
	for k := range m.Counters {
		keys = append(keys, k)
	}
	sort.Strings(keys)
	fmt.Printf("observed property=%s tier=%s seed=%d evaluations=%d distinct_nontrivial=%d wall=%.1fs\n", id, tier, seed, m.Evaluations, len(m.Distinct), wall)
	for _, k := range keys {
		fmt.Printf("  %s=%d\n", k, m.Counters[k])
	}
	if newViol > 0 {
		return 1
	}
	if len(m.Inconclusive) > 0 {
		for _, r := range m.Inconclusive {
			fmt.Printf("INCONCLUSIVE property=%s reason=%s\n", id, r)
		}
		return 2
	}
	fmt.Printf("HELD property=%s on everything observed\n", id)
	return 0
}

func mergeBatch(m *Merged, r *BatchResult) {
	m.Evaluations += r.Evaluations
	for _, h := range r.Distinct {
		m.Distinct[h] = struct{}{}
	}
	for k, v := range r.Counters {
		if strings.HasPrefix(k, "max_") {
			if v > m.Counters[k] {
				m.Counters[k] = v
			}
		} else {
			m.Counters[k] += v
		}
	}
	for _, s := range r.Samples {
		if len(m.Samples) < 6 {
			m.Samples = append(m.Samples, json.RawMessage(s))
		}
	}
	m.Violations = append(m.Violations, r.Violations...)
	if len(m.Notes) < 100 {
		m.Notes = append(m.Notes, r.Notes...)
	}
	for name, items := range r.Sets {
		if m.Sets[name] == nil {
			m.Sets[name] = map[string]struct{}{}
		}
		for _, it := range items {
			m.Sets[name][it] = struct{}{}
		}
	}
}

func writeReplay(v Violation) string {
	data, _ := json.MarshalIndent(v, "", " ")
	h := sha256.Sum256([]byte(v.Signature))
	path := filepath.Join(Root, "evidence", "replay", fmt.Sprintf("%s-%s.json", v.Property, hex.EncodeToString(h[:6])))
	os.WriteFile(path, data, 0o644)
	return path
}

func writeEvidence(m *Merged, newViol, knownViol int, wall float64) {
	cov := map[string]any{
		"evaluations":         m.Evaluations,
		"distinct_nontrivial": len(m.Distinct),
		"rule":                m.Prop.Rule,
		"samples":             m.Samples,
		"counters":            m.Counters,
		"exhaustive":          false,
	}
	if len(m.Samples) == 0 {
		cov["samples"] = []any{}
	}
	for k, v := range m.Extra {
		cov[k] = v
	}
	for name, set := range m.Sets {
		items := make([]string, 0, len(set))
		for it := range set {
			items = append(items, it)
		}
		sort.Strings(items)
		cov[name] = items
	}
	if len(m.Notes) > 0 {
		cov["notes"] = m.Notes
	}
	if len(m.Inconclusive) > 0 {
		cov["inconclusive"] = m.Inconclusive
	}
	cov["known_findings_observed"] = knownViol
	ev := map[string]any{
		"property_id": m.Prop.ID,
		"tier":        m.Tier,
		"seed":        m.Seed,
		"level":       m.Prop.Level,
		"coverage":    cov,
		"assumptions": m.Prop.Assumptions,
		"wall_s":      wall,
		"violations":  newViol,
	}
	data, _ := json.MarshalIndent(ev, "", " ")
	os.MkdirAll(filepath.Join(Root, "evidence"), 0o755)
	os.WriteFile(filepath.Join(Root, "evidence", m.Prop.ID+".json"), data, 0o644)
	// a copy per tier, so that a quick run does not erase the record of the last thorough one (and vice versa)
	if m.Tier == "quick" || m.Tier == "thorough" {
		os.MkdirAll(filepath.Join(Root, "evidence", m.Tier), 0o755)
		os.WriteFile(filepath.Join(Root, "evidence", m.Tier, m.Prop.ID+".json"), data, 0o644)
	}
}

// Replay re-executes the batch that produced a violation up to the failing case.
func Replay(path string) int {
	data, err := os.ReadFile(path)
	if err != nil {
		fmt.Fprintln(os.Stderr, err)
		return 3
	}
	var v Violation
	if err := json.Unmarshal(data, &v); err != nil {
		fmt.Fprintln(os.Stderr, err)
		return 3
	}
	if v.Batch < 0 {
		fmt.Printf("violation %s was derived at merge time; re-run the check itself\n", v.Signature)
		return 3
	}
	stop := v.Case
	if stop <= 0 {
		stop = 1 << 30
	}
	res := RunChild(v.Property, v.Tier, v.Seed, v.Batch, false, stop)
	for _, nv := range res.Violations {
		if nv.Signature == v.Signature {
			fmt.Printf("REPRODUCED property=%s signature=%s\n  %s\n", v.Property, nv.Signature, nv.What)
			return 1
		}
	}
	fmt.Printf("NOT-REPRODUCED property=%s signature=%s (cases run: %d)\n", v.Property, v.Signature, res.Evaluations)
	return 0
}

// ---------------------------------------------------------------------------------------
// race log scanning

var raceFrameRe = regexp.MustCompile(`(?m)^\s+(\S+)\(\)\n\s+(\S+):(\d+)`)

func scanRaceLogs(m *Merged, prefix string, batch int) {
	files, _ := filepath.Glob(prefix + "*")
	for _, f := range files {
		data, err := os.ReadFile(f)
		if err != nil {
			continue
		}
		blocks := strings.Split(string(data), "==================")
		for _, blk := range blocks {
			if !strings.Contains(blk, "WARNING: DATA RACE") {
				continue
			}
			m.Counters["race_reports_raw"]++
			sig, desc := raceSignature(blk)
			if sig == "" {
				m.Counters["race_reports_outside_zrnt"]++
				continue
			}
			if len(blk) > 5000 {
				blk = blk[:5000]
			}
			m.Violations = append(m.Violations, Violation{Property: m.Prop.ID, Signature: "race/" + sig, What: "data race: " + desc,
				Tier: m.Tier, Seed: m.Seed, Batch: batch, Detail: rawDetail(map[string]any{"report": blk})})
		}
	}
}

// raceSignature builds a line-number-free signature from the first zrnt frames of both stacks.
func raceSignature(blk string) (string, string) {
	// split into the two access stacks
	parts := regexp.MustCompile(`(?m)^(Read|Write|Previous read|Previous write|Previous atomic read|Previous atomic write|Atomic read|Atomic write) at .*$`).Split(blk, -1)
	if len(parts) < 3 {
		return "", ""
	}
	var tops []string
	for _, st := range parts[1:3] {
		end := strings.Index(st, "\n\n")
		if end > 0 {
			st = st[:end]
		}
		top := ""
		for _, fm := range raceFrameRe.FindAllStringSubmatch(st, -1) {
			fn := fm[1]
			if strings.Contains(fn, "protolambda/zrnt/") {
				fn = fn[strings.Index(fn, "protolambda/zrnt/")+len("protolambda/zrnt/"):]
				top = fn
				break
			}
		}
		if top == "" {
			return "", ""
		}
		tops = append(tops, top)
	}
	sort.Strings(tops)
	return tops[0] + "|" + tops[1], tops[0] + " vs " + tops[1]
}
