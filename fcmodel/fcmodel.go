// Package fcmodel is a from-scratch reference model of the zrnt fork choice: a plain node
// table, latest accepted votes, and every answer computed by direct tree walks on every
// call. No incremental state (weights, best-child links, index offsets) exists here.
package fcmodel

import (
	"bytes"
	"errors"
	"sort"

	"github.com/protolambda/zrnt/eth2/beacon/common"
)

type Root = common.Root
type Slot = common.Slot
type Epoch = common.Epoch
type Gwei = common.Gwei
type NodeRef = common.NodeRef
type ExtendedNodeRef = common.ExtendedNodeRef
type Checkpoint = common.Checkpoint
type ValidatorIndex = common.ValidatorIndex

type Node struct {
	Ref        NodeRef
	ParentRoot Root
	TParent    *Node // transition parent
	FParent    *Node // fork-choice parent
	Just, Fin  Epoch
	Alive      bool
	Order      int
}

// IsBlock: a node that carries a block (its root differs from its parent root).
func (n *Node) IsBlock() bool { return n.Ref.Root != n.ParentRoot }

type Vote struct {
	Ref   NodeRef
	Epoch Epoch
}

type Model struct {
	SPE       uint64
	Nodes     []*Node
	ByRef     map[NodeRef]*Node
	FirstSlot map[Root]Slot
	Votes     map[ValidatorIndex]Vote
	Balances  []Gwei
	Justified Checkpoint
	Finalized Checkpoint
	Pin       *NodeRef
}

var ErrUnknownAnchor = errors.New("model: unknown anchor")
var ErrNoViableHead = errors.New("model: no viable head")
var ErrRefused = errors.New("model: refused")

func New(spe uint64, finalized, justified Checkpoint, anchorRoot Root, anchorSlot Slot, anchorParent Root, balances []Gwei) *Model {
	m := &Model{SPE: spe, ByRef: map[NodeRef]*Node{}, FirstSlot: map[Root]Slot{}, Votes: map[ValidatorIndex]Vote{},
		Balances: balances, Justified: justified, Finalized: finalized}
	n := &Node{Ref: NodeRef{Root: anchorRoot, Slot: anchorSlot}, ParentRoot: anchorParent, Just: justified.Epoch, Fin: finalized.Epoch, Alive: true}
	m.Nodes = append(m.Nodes, n)
	m.ByRef[n.Ref] = n
	m.FirstSlot[anchorRoot] = anchorSlot
	m.Pin = &NodeRef{Root: anchorRoot, Slot: anchorSlot}
	return m
}

func (m *Model) Get(ref NodeRef) *Node {
	n := m.ByRef[ref]
	if n == nil || !n.Alive {
		return nil
	}
	return n
}

func (m *Model) add(n *Node) {
	n.Alive = true
	n.Order = len(m.Nodes)
	m.Nodes = append(m.Nodes, n)
	m.ByRef[n.Ref] = n
}

// ProcessSlot adds the empty-slot nodes on top of a known parent, up to slot (domain: parent known, slot > its first slot).
func (m *Model) ProcessSlot(parent Root, slot Slot, je, fe Epoch) {
	ps, ok := m.FirstSlot[parent]
	if !ok {
		return
	}
	prev := m.Get(NodeRef{Root: parent, Slot: ps})
	for t := ps + 1; t <= slot; t++ {
		ref := NodeRef{Root: parent, Slot: t}
		if n := m.Get(ref); n != nil {
			prev = n
			continue
		}
		n := &Node{Ref: ref, ParentRoot: parent, TParent: prev, FParent: prev, Just: je, Fin: fe}
		m.add(n)
		prev = n
	}
}

// ProcessBlock mirrors the documented contract; returns ok.
func (m *Model) ProcessBlock(parent, root Root, slot Slot, je, fe Epoch) bool {
	if m.Get(NodeRef{Root: root, Slot: slot}) != nil {
		return true
	}
	if _, ok := m.FirstSlot[root]; ok {
		return true
	}
	ps, ok := m.FirstSlot[parent]
	if !ok || ps >= slot {
		return false
	}
	m.ProcessSlot(parent, slot, je, fe)
	fp := m.Get(NodeRef{Root: parent, Slot: ps})
	tp := m.Get(NodeRef{Root: parent, Slot: slot})
	if fp == nil || tp == nil {
		return false
	}
	m.add(&Node{Ref: NodeRef{Root: root, Slot: slot}, ParentRoot: parent, TParent: tp, FParent: fp, Just: je, Fin: fe})
	m.FirstSlot[root] = slot
	return true
}

// ProcessAttestation: accepted iff the voted node exists and the target epoch is later than the latest accepted one (or there is none).
func (m *Model) ProcessAttestation(v ValidatorIndex, root Root, slot Slot) (accepted bool, nodeKnown bool) {
	if m.Get(NodeRef{Root: root, Slot: slot}) == nil {
		return false, false
	}
	ep := Epoch(uint64(slot) / m.SPE)
	if prev, ok := m.Votes[v]; ok && ep <= prev.Epoch {
		return false, true
	}
	m.Votes[v] = Vote{Ref: NodeRef{Root: root, Slot: slot}, Epoch: ep}
	return true, true
}

func (m *Model) fcChildren(n *Node) []*Node {
	var out []*Node
	for _, c := range m.Nodes {
		if c.Alive && c.FParent == n {
			out = append(out, c)
		}
	}
	return out
}

func (m *Model) inFcSubtree(anchor, n *Node) bool {
	for x := n; x != nil; x = x.FParent {
		if x == anchor {
			return true
		}
	}
	return false
}

func (m *Model) InTSubtree(anchor, n *Node) bool {
	for x := n; x != nil; x = x.TParent {
		if x == anchor {
			return true
		}
	}
	return false
}

func (m *Model) Weight(n *Node) int64 {
	var w int64
	for v, vote := range m.Votes {
		vn := m.Get(vote.Ref)
		if vn == nil || int(v) >= len(m.Balances) {
			continue
		}
		if m.inFcSubtree(n, vn) {
			w += int64(m.Balances[v])
		}
	}
	return w
}

func (m *Model) Viable(n *Node) bool {
	return (n.Just == m.Justified.Epoch || m.Justified.Epoch == 0) && (n.Fin == m.Finalized.Epoch || m.Finalized.Epoch == 0)
}

// walk returns the end of the best-child walk from n. Everything is recomputed from the votes and the tree on every
// top-level call; memo only avoids evaluating the same sub-walk twice within that one call (the walk of a child is
// needed once to decide viability and once more when the child wins).
func (m *Model) walk(n *Node) *Node { return m.walkMemo(n, map[*Node]*Node{}) }

func (m *Model) walkMemo(n *Node, memo map[*Node]*Node) *Node {
	if end, ok := memo[n]; ok {
		return end
	}
	var best *Node
	var bestW int64
	for _, c := range m.fcChildren(n) {
		if !m.Viable(m.walkMemo(c, memo)) {
			continue
		}
		w := m.Weight(c)
		if best == nil || w > bestW || (w == bestW && bytes.Compare(c.Ref.Root[:], best.Ref.Root[:]) > 0) {
			best, bestW = c, w
		}
	}
	end := n
	if best != nil {
		end = m.walkMemo(best, memo)
	}
	memo[n] = end
	return end
}

func (m *Model) FindHead(root Root, slot Slot) (NodeRef, error) {
	a := m.Get(NodeRef{Root: root, Slot: slot})
	if a == nil {
		return NodeRef{}, ErrUnknownAnchor
	}
	h := m.walk(a)
	if !m.Viable(h) {
		return NodeRef{}, ErrNoViableHead
	}
	return h.Ref, nil
}

func (m *Model) StartSlot(e Epoch) Slot { return Slot(uint64(e) * m.SPE) }

func (m *Model) Head() (NodeRef, error) {
	if m.Pin != nil {
		return m.FindHead(m.Pin.Root, m.Pin.Slot)
	}
	return m.FindHead(m.Justified.Root, m.StartSlot(m.Justified.Epoch))
}

func (m *Model) SetPin(root Root, slot Slot) error {
	if m.Get(NodeRef{Root: root, Slot: slot}) == nil {
		return ErrRefused
	}
	m.Pin = &NodeRef{Root: root, Slot: slot}
	return nil
}

func (m *Model) blockNode(root Root) *Node {
	s, ok := m.FirstSlot[root]
	if !ok {
		return nil
	}
	return m.Get(NodeRef{Root: root, Slot: s})
}

func (m *Model) InSubtree(anchor, root Root) (unknown, in bool) {
	if anchor == root {
		return false, true
	}
	a, l := m.blockNode(anchor), m.blockNode(root)
	if a == nil || l == nil {
		return true, false
	}
	return false, m.InTSubtree(a, l)
}

func (m *Model) GetSlot(root Root) (Slot, bool) {
	s, ok := m.FirstSlot[root]
	return s, ok
}

func (m *Model) ClosestToSlot(anchor Root, slot Slot) (NodeRef, error) {
	if m.Get(NodeRef{Root: anchor, Slot: slot}) != nil {
		return NodeRef{Root: anchor, Slot: slot}, nil
	}
	as, ok := m.FirstSlot[anchor]
	if !ok || as > slot {
		return NodeRef{}, ErrRefused
	}
	best := as
	for t := as; t <= slot; t++ {
		if m.Get(NodeRef{Root: anchor, Slot: t}) == nil {
			break
		}
		best = t
	}
	return NodeRef{Root: anchor, Slot: best}, nil
}

func (m *Model) CanonicalChain(root Root, slot Slot) ([]ExtendedNodeRef, error) {
	h, err := m.FindHead(root, slot)
	if err != nil {
		return nil, err
	}
	a := m.Get(NodeRef{Root: root, Slot: slot})
	var out []ExtendedNodeRef
	for x := m.Get(h); x != nil; x = x.TParent {
		out = append(out, ExtendedNodeRef{NodeRef: x.Ref, ParentRoot: x.ParentRoot})
		if x == a {
			break
		}
	}
	return out, nil
}

// CanonAtSlot in the unambiguous domain: anchorSlot < slot < head.Slot. ok=false means outside the domain.
func (m *Model) CanonAtSlot(anchor Root, slot Slot, withBlock bool) (ref NodeRef, err error, judged bool) {
	as, ok := m.FirstSlot[anchor]
	if !ok || as > slot {
		return NodeRef{}, ErrRefused, true
	}
	if as == slot {
		a := m.Get(NodeRef{Root: anchor, Slot: slot})
		if a == nil {
			return NodeRef{}, nil, false
		}
		if !withBlock && a.IsBlock() {
			return NodeRef{}, ErrRefused, true
		}
		if withBlock && !a.IsBlock() {
			return NodeRef{}, nil, false // gap-slot anchor asked "with block": meaning not documented
		}
		return a.Ref, nil, true
	}
	h, herr := m.FindHead(anchor, as)
	if herr != nil {
		return NodeRef{}, herr, true
	}
	if h.Slot <= slot {
		return NodeRef{}, nil, false
	}
	for x := m.Get(h); x != nil; x = x.TParent {
		if x.Ref.Slot != slot {
			continue
		}
		if withBlock {
			if x.IsBlock() {
				return x.Ref, nil, true
			}
			return NodeRef{}, nil, true // empty slot
		}
		if !x.IsBlock() {
			return x.Ref, nil, true
		}
	}
	return NodeRef{}, ErrRefused, true
}

// Search returns the block nodes within the transition subtree of anchor matching the filters.
// For the head-search mode (no filters) it returns the set of "true leaves" (blocks without block
// descendants) which any correct answer must contain, and the set of all blocks in view which it must stay inside.
func (m *Model) Search(anchor NodeRef, parentRoot *Root, slot *Slot) (nonCanon, canon []NodeRef, mustHave []NodeRef, err error) {
	h, herr := m.FindHead(anchor.Root, anchor.Slot)
	if herr != nil {
		return nil, nil, nil, herr
	}
	a := m.Get(anchor)
	head := m.Get(h)
	for _, n := range m.Nodes {
		if !n.Alive || !n.IsBlock() || !m.InTSubtree(a, n) {
			continue
		}
		if parentRoot == nil && slot == nil {
			leaf := true
			for _, o := range m.Nodes {
				if o.Alive && o.IsBlock() && o != n && m.InTSubtree(n, o) {
					leaf = false
					break
				}
			}
			if leaf {
				mustHave = append(mustHave, n.Ref)
			}
		} else {
			if parentRoot != nil && n.ParentRoot != *parentRoot {
				continue
			}
			if slot != nil && n.Ref.Slot != *slot {
				continue
			}
		}
		if m.inFcSubtree(n, head) {
			canon = append(canon, n.Ref)
		} else {
			nonCanon = append(nonCanon, n.Ref)
		}
	}
	return
}

type Pruned struct {
	Ref       NodeRef
	Canonical bool
}

// UpdateJustified applies the checkpoint update; returns the expected prune notifications.
func (m *Model) UpdateJustified(trigger Root, justified, finalized Checkpoint, balances []Gwei) (changed bool, pruned []Pruned, err error) {
	if m.Justified.Epoch >= justified.Epoch && m.Finalized.Epoch >= finalized.Epoch {
		return false, nil, nil
	}
	if m.Pin != nil && trigger != m.Pin.Root {
		if unknown, in := m.InSubtree(m.Pin.Root, trigger); unknown || !in {
			return false, nil, ErrRefused
		}
	}
	if justified.Epoch < finalized.Epoch {
		return false, nil, ErrRefused
	}
	if m.Finalized != finalized {
		if unknown, in := m.InSubtree(m.Finalized.Root, finalized.Root); unknown || !in || m.Finalized.Epoch > finalized.Epoch {
			return false, nil, ErrRefused
		}
	}
	if m.Justified != justified {
		if unknown, in := m.InSubtree(m.Finalized.Root, justified.Root); unknown || !in || m.Finalized.Epoch > justified.Epoch {
			return false, nil, ErrRefused
		}
	}
	prevFin := m.Finalized
	m.Balances = balances
	m.Justified = justified
	m.Finalized = finalized
	if prevFin != finalized {
		m.Pin = nil
		pruned = m.Prune(NodeRef{Root: finalized.Root, Slot: m.StartSlot(finalized.Epoch)})
	}
	return true, pruned, nil
}

// Prune drops everything that is not a transition descendant-or-self of the anchor node.
func (m *Model) Prune(anchor NodeRef) []Pruned {
	a := m.Get(anchor)
	if a == nil {
		return nil
	}
	var out []Pruned
	for _, n := range m.Nodes {
		if !n.Alive || m.InTSubtree(a, n) {
			continue
		}
		// canonical = an ancestor of the new anchor
		out = append(out, Pruned{Ref: n.Ref, Canonical: m.InTSubtree(n, a)})
	}
	for _, n := range m.Nodes {
		if n.Alive && !m.InTSubtree(a, n) {
			n.Alive = false
		}
	}
	// first known slot per root: drop roots without alive nodes, the anchor root now starts at the anchor slot
	for r := range m.FirstSlot {
		found := false
		for _, n := range m.Nodes {
			if n.Alive && n.Ref.Root == r {
				found = true
				break
			}
		}
		if !found {
			delete(m.FirstSlot, r)
		}
	}
	m.FirstSlot[anchor.Root] = anchor.Slot
	a.TParent = nil
	a.FParent = nil
	// blocks built on the anchor root whose fork-choice parent (the anchor root's block node) is gone hang off the anchor now
	for _, n := range m.Nodes {
		if n.Alive && n != a && n.FParent != nil && !n.FParent.Alive {
			n.FParent = a
		}
	}
	return out
}

func (m *Model) AliveRefs() []NodeRef {
	var out []NodeRef
	for _, n := range m.Nodes {
		if n.Alive {
			out = append(out, n.Ref)
		}
	}
	return out
}

func SortRefs(refs []NodeRef) {
	sort.Slice(refs, func(i, j int) bool {
		if c := bytes.Compare(refs[i].Root[:], refs[j].Root[:]); c != 0 {
			return c < 0
		}
		return refs[i].Slot < refs[j].Slot
	})
}
